#!/bin/sh
# usage: rebase_patch.sh <dir with patch.diff meta.json>  -> writes <dir>/patch.rebased.diff (exit 0), or exit 1 when a manual merge is needed
# Replays a stored change, confirmed on an older /repo commit, on top of the current /repo HEAD (git cherry-pick, three-way).
set -u
D=$1
HEAD=$(git -C /repo rev-parse HEAD)
if git -C /repo apply --check "$D/patch.diff" 2>/dev/null; then echo "$(basename $D): applies as is"; exit 0; fi
BASE=$(/venv/bin/python -c "import json,sys; m=json.load(open('$D/meta.json')); print((m.get('confirmed') or {}).get('repo_head') or '')" 2>/dev/null)
WT=$(mktemp -d /tmp/rebase.XXXXXX); rmdir "$WT"
cleanup() { git -C /repo worktree remove --force "$WT" >/dev/null 2>&1; rm -rf "$WT"; }
trap cleanup EXIT
CANDS="$BASE $(git -C /repo log --format=%h -40)"
OK=""
for c in $CANDS; do
  [ -n "$c" ] || continue
  git -C /repo worktree add -q --detach "$WT" "$c" 2>/dev/null || continue
  if git -C "$WT" apply "$D/patch.diff" 2>/dev/null; then OK=$c; break; fi
  git -C /repo worktree remove --force "$WT" >/dev/null 2>&1
done
[ -n "$OK" ] || { echo "$(basename $D): applies to none of the last 40 commits"; exit 1; }
cd "$WT"
git add -A fim >/dev/null 2>&1
git -c user.email=v@v -c user.name=v commit -qm stored-change >/dev/null
P=$(git rev-parse HEAD)
git checkout -q --detach "$HEAD"
if git -c user.email=v@v -c user.name=v cherry-pick "$P" >/dev/null 2>&1; then
  git diff HEAD~1 HEAD -- fim > "$D/patch.rebased.diff"
  echo "$(basename $D): rebased from $OK"
  exit 0
fi
echo "$(basename $D): CONFLICT when replayed from $OK: $(git status --short | grep '^UU' | tr '\n' ' ')"
exit 1
