#!/usr/bin/env python3
"""Regenerate /verif/MANIFEST.json from the table below. A property is claimed iff fimsa/props/<id>.py exists
and it is not listed in NOT_CLAIMED."""
import json
import os

HERE = os.path.dirname(os.path.dirname(os.path.abspath(__file__)))

BASELINE = ("cd /repo && /venv/bin/python -m pytest -ra -q -p no:cacheprovider --timeout=900 "
            "--continue-on-collection-errors")

COMMON_NOTE = ("Trusted base: CPython's ast parse of /repo/fim is the program; callees are resolved by class "
               "hierarchy + a frozen receiver table; third-party semantics (networkx, lxml, re, json, threading, the "
               "Neo4j driver) are assumed from their documentation. Nothing under /repo is imported or run. Rules work on "
               "normalised syntax (private helpers inlined, alias temporaries expanded, canonical tests, loop/comprehension "
               "builders in one form; adjacent temporaries, if-polarity, nested ifs and simple match statements canonicalised at parse time), so behaviour-preserving rewrites do not change verdicts - as far as measured: DESIGN 12.2, 12.8, 12.9 give the rates found on rewrites and breaking changes produced independently. ")

P = {
 'C01': dict(
    technique='AST wiring rules over the serialization pipeline (format dispatch, must-pass-through, def-use of the graph id, copy completeness)',
    text='Decides structural necessary conditions of the round trip: every serialisable format has a reader in READ_FORMATS and a branch in serialize_graph; the GraphML producers pass through the label-markup step whose two loops set label/labels on every element; the four import entry points reach one reader and a store insert whose graph id is the id the returned handle is built with; add_graph stamps GraphID on every node after the NodeID check and replaces an existing graph of that id found in the store; extract_graph copies node and edge data; identity properties are stamped at creation. Value fidelity through networkx/lxml is not decided. Also decided: value flow (CFG taint) of GraphML text through the label markup, the GraphML writer is not switched to options the default reader cannot undo, and every constant the library itself stores in a JSON-typed property is skipped by graph validation (guard partially evaluated on the constant). The replacement of a stored graph of the same id is guarded by nothing but the lookup having found it. Every networkx producer in serialize_graph is handed the copy extracted for this graph id, and the lookup for an already stored graph selects by GraphID. A (re-)import moves the id allocator past the imported nodes on every path (shared-store insert dominated by the counter advance that follows the relabelling; per-graph counter reset on every path after the fill).',
    ref='3 C01'),
 'C02': dict(
    technique='table-agreement analysis: writer/reader/setter/unset-map rows extracted from the AST and compared per sliver class; codec pairing; dispatch agreement',
    text='Decides that for every sliver class the set of properties written to the graph equals the set read back, that each row uses matching encode/decode codecs and the same graph property constant, that every settable stored property has an unset mapping, that each model element class uses the writer/reader of its own kind, and that deep-dictionary child keys agree and recurse. Field-wise value equality is not decided. Also decided: the deep graph writers store the children of a sliver under no condition other than the sliver having that container. A composite value joined from n parts with a separator is split back with a bound of n-1 from the side whose part may contain the separator. Deep readers create a child container once per parent (not per child); every child container the deep reader of a kind rebuilds is written by the deep writer of that kind; every writer row is guarded by the attribute being set, so a set_property() that builds a fresh sliver cannot reset another property from a constructor default; conversely, no reader takes a conditionally written property with a bare subscript / pop (only identity properties are read without a presence test). The parent handed to a nested deep writer is the node id of the writer\'s own sliver.',
    ref='3 C02'),
 'C03': dict(
    technique='abstract-domain check of encoder drop predicates against admitted field types and defaults; guard dominance on the CFG; purity (no store through the input); None-dereference check of encoders',
    text='Decides: no codec drops a legitimate non-default value (drop predicate vs admitted types vs constructor defaults), forgiving decode keeps processing after an unknown key, copy-with-changes never stores through its input and builds a fresh object, every mutator of a maintenance record is dominated by the finalized guard and copies do not alias the node table, to_json of a fresh value does not dereference None, encoder/decoder representations of flag-like fields agree. x == decode(encode(x)) over the value domain is not decided. Also decided: the unknown-field handler sits inside the per-field loop, and every key a dict decoder reads reaches the state of the decoded object (constructor argument or attribute), not only a branch condition. An unknown key is skipped whatever its value (the decoder restricts the decoded keys to the fields of the new object, or no setter checks a value before it has probed the field); decoders that expand an entry into a constructor tolerate unknown keys; a decoder that wraps another decoder passes \'absent\' through. A flag written as str(<bool>) is decoded by a token table that maps exactly \'True\' to set.',
    ref='3 C03'),
 'C04': dict(
    technique='query-scope analysis (every node enumeration carries a GraphID conjunct), def-use of internal ids for writes, allocator monotonicity, whole-store operation who-may-call',
    text='Decides that every enumeration of the shared store is scoped by the graph id, every node-addressed write uses an internal id obtained from a scoped lookup, the id allocators only advance by the number of inserted nodes and inserts happen after validation, clone goes extract(copy)->add, and whole-store operations are confined to the storage classes. The frame condition over histories is not decided. Also decided: the one-graph-per-store flavour may skip an import only when a non-empty graph is stored under the id (delete / probe then re-import). In the storage add_graph methods no rejection is reachable after the first change of the store (a refused re-import leaves the stored graph alone). The allocator path rule of C01 R8 applies to both stores (a re-import that keeps an old counter is reported).',
    ref='3 C04'),
 'C05': dict(
    technique='guard-dominance on the CFG for identity properties; key-set comparison of insertion guard vs lookup; override/signature inventory of sibling backends; def-use in merge policy loop',
    text='Decides that every public mutator of a node/link property is dominated by the Class guard and unset by the NO_UNSET guard, that the insertion guard key is a subset of the lookup key (node id unique whatever the class), that the disjoint backend overrides only what it documents and the two storage classes agree on signatures, that internal ids are allocated from a monotone counter in both stores, and that the merge policy loop ranges over the caller\'s properties. Lock-step equivalence with a reference model is not decided. Also decided: no explicit rejection is reachable after a property write in a mutator (a rejected call changes nothing), the merge policy by path-sensitive evaluation of the loop body whatever its branching style, and store scoping shared with C04. The merge policy is evaluated by cases (mentioned / identity property / policy word) on the path conditions, the identity of the surviving node never comes from the other node, the policy is evaluated before the nodes are contracted, and networkx\'s contraction bookkeeping is removed from node and links.',
    ref='3 C05'),
 'C06': dict(
    technique='filter-loop integrity, mutation-under-iteration detection, copy provenance of filtered graphs, exception-scope of lazy generators',
    text='Decides: each drop-list filter appends its own loop variable; no collection is mutated while its live view is iterated; relation/label filtering and edge dropping operate on a copy returned by extract_graph (and extract_graph returns a copy in both stores); NetworkXNoPath raised by lazy path generators is consumed inside the guarded region; helper traversals use schema pairs. Exactness over all graphs is not decided. Also decided: a drop list is emptied where its filter loop starts when that loop runs once per iteration of an enclosing loop. The path-with-hops query rejects a candidate path only for a missing hop or length (the additional induced-subgraph acyclicity test of the NetworkX backend is a recorded known finding). Every graph object the one-graph-per-store flavour keeps is a fresh undirected nx.Graph.',
    ref='3 C06'),
 'C07': dict(
    technique='vocabulary agreement between enums and the rule file; containment-schema extraction and agreement; guard dominance for uniqueness; cache-update pairing; loop-index discipline; view immutability',
    text='Decides that the published rule vocabularies contain every enum member the API can create, that all readers/removers traverse pairs of the containment schema defined by the writers, that node and owner edge are created together, that creation paths are dominated by their uniqueness guard and node ids are unique across classes, that read-only views expose no mutator and no cache escapes, that handle caches are updated on add, and that derived-id loop indices are advanced once per iteration. Invariants over all histories are not decided. Also decided: Link constructors accept Interface objects only; every sliver class declares the type enumeration its set_type asserts; the interface kind produced for each component type by generate_component (evaluated per ComponentType member) is one the rule file knows; the name-uniqueness listing compared is not filtered by element kind. The interface cache of a handle is rebuilt without the removed child after every removal through it (shared with C08). Removing a sub-interface leaves its parent port in place (delete_parent switched off at the call, shared with C08).',
    ref='3 C07'),
 'C08': dict(
    technique='sibling agreement of removal paths (cache coherence), schema coverage of removal cascades, collect-before-delete ordering on the CFG, disconnect-before-remove must-precede',
    text='Decides that every removal path filters the cache of the object whose child was removed from that same cache, that each remove_* recurses exactly over the owned schema pairs with the documented sharing conditions (only child, exactly two ends) and passes delete_parent=False where the parent must survive, that neighbour lists are collected before the element is deleted, and that Topology/Node removals disconnect service-port peers first. The frame condition is not decided. Also decided: the peer whose link is removed is exactly the peer found through the removed interface, and caches of objects created and rolled back inside one call are exempt by construction (never published). Inside the graph-level removers remove_cp_and_links keeps its parent switch at the default; the disconnect loops of remove_node / remove_facility / remove_component / Node.remove_network_service cover sub-interfaces; remove_child_interface disconnects first; Topology.remove_network_service removes the ports peered services hold for it.',
    ref='3 C08'),
 'C09': dict(
    technique='validate-before-mutate ordering over constructor CFGs with a MUT/REJ call-graph summary; handler-breadth check of the rollback; eager evaluation of arguments consumed after the first mutation',
    text='Decides that in the five element constructors no rejecting statement is reachable after the first graph mutation outside a compensated try, that the rollback handler covers every exception class the guarded body can raise and undoes each creation step, that uniqueness checks dominate inserts, and reports composite operations without compensation (known findings). Atomicity for rejections that depend on stored ids is not decided. Also decided: the creation step that receives the caller\'s **kwargs is the first creation step of a composite (or compensated), and a rollback handler that removes id X does not also guard the call that creates X. An element is recorded for compensation only after the step that creates it, compensation addresses the created element\'s own node id, and the link writer verifies every referenced interface id is a stored ConnectionPoint before inserting the Link. Also: a universally quantified existence check guards the Link insert; nothing fallible runs between the creation of an element and its recording for rollback; the deep graph writers probe the parent and every node id of the sliver tree before their first insertion. The collector of the tree ids descends by recursion or worklist (not one level); a handler that undoes and re-raises catches Exception.',
    ref='3 C09'),
 'C10': dict(
    technique='constraint-table exhaustiveness over enums, name resolution of listed properties against getters and readers, comparator normalisation per column, must-pass-through of guardrails, dead-comparison detection',
    text='Decides that each constraint table has a row per enum member, that every listed property resolves to a populated getter, that every column is consulted with the right comparator behind the NO_LIMIT test, that every connect path passes the guardrails, that required-property tests reject unset values, and that the declared-site check compares against the inferred site. Accept/reject outcomes over the parameter product are not decided. Also decided: the site limit is compared with the complete set of sites (after the collecting loop, or inside it after the current site is added). The folded constraint tables are compared with the pinned copy data/c10_constraints.json (the property\'s statement fixes these numbers); guardrail rejections are evaluated on every feasible path to the creation, and a site mismatch must be rejectable when a site is declared.',
    ref='3 C10'),
 'C11': dict(
    technique='append/pop pairing by dominance, attribute-table agreement, dispatch LUT exhaustiveness, def-before-use ordering of the in-slice port set, unconditional tally increments',
    text='Decides that no attribute list is popped without a dominating append, that every attribute id stored resolves to a typed category of the request skeleton, that dispatch tables name existing collectors, that the in-slice port set is complete before any service is visited, that the collectors read the documented fields, and that tally counters are incremented on every path of their type branch. Completeness against a concrete slice is not decided. Also decided: contributions are extracted path-sensitively with Boolean-minimised conditions, each resource field is recorded under conditions on that field only, and a per-element collector never overwrites a request-wide attribute with element-dependent values.',
    ref='3 C11'),
 'C12': dict(
    technique='guard dominance for delegation field writes, key-constant agreement of encoder/decoder, loop-carried guard state, index rebuild discipline',
    text='Decides that delegation details and the delegations table are only written behind their type/format/duplicate guards evaluated against live state, that to_json/from_json use the same keys for all three formats, that pool regrouping writes and reads the same fields and rebuilds its index from scratch, and that conflict checks precede graph writes. The identity pools->delegations->pools over all families is not decided. Also decided: encoder and decoder as (format, type) tables from path-sensitive evaluation; every field of a decoded entry is determined within its own loop iteration. Per-node delegation containers are created only when the node has none yet (get-or-create). The decoder, evaluated for the key sets an entry can carry, rejects mixed label/capacity content and details on a pool reference. Details of either kind on a reference are refused in sets of either type.',
    ref='3 C12'),
 'C13': dict(
    technique='receiver analysis (mutations only on the clone), loop-range coverage, monotone keep-set construction, schema agreement of traces, partial-callee precondition, flag-scope analysis',
    text='Decides that partitioning mutates only the clones, that the delegation rewrite ranges over all nodes and both types unconditionally of the keep set, that stitch nodes seed every keep set which afterwards only grows, that the connection-point traces use schema pairs and cover link, peer, service and owners, that unset is only called when the property is present, and that re-keying writes back whenever any property changed. Sub-model equality is not decided. Also decided: collections initialised empty and read after a loop are accumulated, not reassigned, inside it; the delegation codec the rewrite relies on (shared with C12). Cataloguing and rewriting loops are never left early; the element remembered from a trace for the next round is the hop whose class is ConnectionPoint; each delegation property is decoded as its own delegation type (evaluated per property).',
    ref='3 C13'),
 'C14': dict(
    technique='receiver analysis (sources never mutated), key agreement across the three uses of the contributing id, written-vs-undone property sets, ordering of rollback steps, flag-scope analysis, fresh-id-per-call',
    text='Decides that merge mutates only the temporary clone and the combined model, that delegations/structural info/contributor lists are keyed by the real model id, that properties written by merge are handled by unmerge, that rollback deletes before re-homing, that snapshot ids are generated per call, that the one-side-speaks guard precedes the write and the write-back flag covers both delegation kinds. Order independence and merge/unmerge inversion as algebra are not decided. Also decided: what is merged in is the re-keyed temporary clone, never the source; what unmerge writes when a node\'s last delegation goes is a value the decoder reads back as absent. The contributor appended is the one decoded from the node in the same iteration and written back to it; delegation clean-up on unmerge does not depend on the remaining contributor list. The per-property loop of the delegation update is never left early; no property dictionary read before another write is written back as a whole; what unmerge leaves when the last delegation goes is absent for every reader of the property (the property is removed). In rewrite_delegations no non-raising path from the decoding of a delegation property avoids the re-keying and the write-back; nothing decoded for one delegation property is still read in the iteration of the next.',
    ref='3 C14'),
 'C15': dict(
    technique='structural premises of point-wise integer arithmetic checked on the AST (operator lifts, operand purity, comparator mirror, truthiness-free equality); the algebraic laws follow by a stated lemma',
    text='Decides the property whole under the premise that fields hold ints: + and - are point-wise lifts over all fields into a fresh object in operand order, operands (and values handed to FreeCapacity) are never stored into or mutated, comparisons are mirrored field-wise, negative_fields is {f | v<0}, equality is field-wise with no truthiness shortcut on values that can be all-zero, results bypass the non-negativity validator and are printable. Nothing rewrites the free capacity after the subtraction (no clamping).',
    ref='3 C15'),
 'C16': dict(
    technique='regex-application analysis (full-match semantics per call site), regex AST hygiene via re._parser, entry-point reachability of validators, measured-quantity agreement of size checks',
    text='Decides that every validator pattern is applied with full-match semantics, that validator patterns contain no unescaped wildcard and match their documented example, that constructor/update/from_json reach the validator before the store and `forgiving` never weakens validation, that validator tables are keyed by declared fields, and that size/validity tests precede the store and measure the stored encoding. Membership of a concrete string in a format is not decided. Also decided: range validators order numeric values only; validation-before-store by CFG dominance / path conditions on helper-inlined bodies. Numeric label patterns use ASCII digit classes (\\d admits every Unicode digit, which int() converts), every field range-checked through int() also has a pattern, and a model-element setter caches the new value only after the validating write.',
    ref='3 C16'),
 'C17': dict(
    technique='mirrored-argument analysis of the diff helpers, value-equality resolution of compared types, case completeness, flag accumulation (|= not =)',
    text='Decides that each _dict_diff/_dict_common call compares the same attribute path rooted at self and at the other sliver, that every type compared by prop_diff defines value equality on decoded values, that the three one-sided cases exist per container, that result keys agree and flags are accumulated rather than overwritten. Exactness over all edit scripts is not decided. Also decided: the elements handed to prop_diff range over all common elements; equality of the compared field containers ranges over every field of the left value. Each common element is compared with its counterpart looked up in the other sliver by the element\'s key; SUB_INTERFACES is raised for exactly the component types whose ports are dedicated ports (per the catalogue dispatch) and only when the nested diff reports added/removed/modified sub-interfaces. The test that chooses between a diff and None looks at every collection the diff is built from.',
    ref='3 C17'),
 'C18': dict(
    technique='data lints over the two catalogue files analysed as source; AST shape of the sufficiency predicate, ordering step and fallback; loop-index discipline and kind dispatch in generate_component',
    text='Decides: catalogue names encode their capacities, are duplicate-free, the last entry is the maximum; the candidate filter is the conjunction core/ram/disk >=; the candidates are ordered before the first is taken and the empty case returns the last key; caller-supplied ids and labels are applied independently under one index advanced once per iteration; interface kind/speed come from the matched row. Minimality of the chosen size is NOT decided (depends on list.sort under a partial order on this data). The instance table is built by iterating the decoded catalogue file itself (file order is what \'last key\' and stable ties rely on); id and label counts are checked whenever that list is supplied; the unit count is a length only of a list-valued bdf; the catalogue lookup, as a selection condition, implies type equality and a model match. The interface kind per component type is evaluated through temporaries that were themselves chosen by the component type.',
    ref='3 C18'),
 'C19': dict(
    technique='symbolic string-template reconstruction per path + hand Cypher tokenizer: balance, unexpanded fragments, bound variables, supplied parameters, data-taint of holes',
    text='Decides the property whole for the statements the library can emit: for all 44 session.run sites and the 2 JSON statement files every template is balanced, free of unexpanded fragments, binds every variable it references, is supplied every $parameter it names, and interpolates identifiers only; the remaining data-interpolating statements are listed as known findings. Also: no clause or operator keyword without an operand and no empty map/list element; an emptiness test and a loop over the same collection agree along one path. One assumption is used and re-checked on every run: AttachedComponentsInfo.add_device asserts that a device has a type. A driver-calling helper that receives its statement as a parameter is analysed once per caller; self.NAME reads fold to class-level constants.',
    ref='3 C19'),
 'C20': dict(
    technique='abstract lock-depth dataflow over a CFG with exceptional edges; lockset analysis of allocator and structure accesses; lock-held call discipline',
    text='Decides completely that every storage method releases the lock exactly once on every normal, early-return and exceptional path, never re-acquires it while held, touches the id allocators and the graph structure only with the lock held, and creates the singleton under a lock; by mutual exclusion no identifier is issued twice and no insert under the lock is lost. Outcomes of interleavings of the unlocked graph-level operations are not decided. Also decided: the existence test of the storage singleton is evaluated under the creation lock. Locals that name a stored graph object count as the structure itself (a copy taken after the lock was released is a violation). Private helpers without locking of their own inherit the lock depth of their call sites (fixpoint); an access in a helper that is also called without the lock is a violation.',
    ref='3 C20'),
}

NOT_CLAIMED = {}


def main():
    checks = []
    na = []
    for pid in sorted(P):
        mod = os.path.join(HERE, 'fimsa', 'props', pid.lower() + '.py')
        if pid in NOT_CLAIMED or not os.path.exists(mod):
            na.append({'property_id': pid, 'reason': NOT_CLAIMED.get(pid, 'check not built yet (construction in progress; see DESIGN.md section 3 for the planned static rules)')})
            continue
        d = P[pid]
        checks.append({
            'property_id': pid,
            'quick_cmd': f'./check {pid} --tier quick',
            'thorough_cmd': f'./check {pid} --tier thorough',
            'evidence_file': f'/verif/evidence/{pid}.json',
            'replay_cmd_template': f'./check {pid} --explain {{path}}',
            'engine': 'fimsa',
            'level_claimed': {'category': 'other', 'text': 'Static analysis (no execution). ' + d['text'],
                              'design_ref': 'DESIGN.md section ' + d['ref']},
            'level_note': COMMON_NOTE + 'Thorough tier additionally runs explicit path enumeration where applicable and a self-test battery (rule-instance mutants, behaviour-preserving twins, the seeded changes under /verif/seeded) on in-memory overlays; the self-test never affects the exit code.',
            'technique': 'static analysis: ' + d['technique'],
        })
    m = {
        'version': 1,
        'setup_cmd': 'true',
        'hooks': {'guard': 'FIM_VERIF',
                  'enable': 'none needed: the checks read /repo sources statically; no instrumentation was added to /repo',
                  'baseline_off_cmd': BASELINE, 'source_commits': [], 'add_only': True},
        'engines': [{'name': 'fimsa', 'path': 'fimsa/', 'serves_properties': [c['property_id'] for c in checks],
                     'kind_free_text': 'repository-specific static analysis over Python ast: class table/MRO, constant folder, statement CFG with exceptional edges + set-valued dataflow, symbolic string-template builder + Cypher tokenizer, per-property rule modules'}],
        'checks': checks,
        'notes': 'See DESIGN.md. Exit 0 = claimed clauses hold (KNOWN-FINDING lines for listed genuine defects), exit 1 = VIOLATION, exit 2 = ANALYSIS-ERROR (never a verdict). Known findings: known_findings.jsonl. Seeded changes used to test the checks: seeded/.',
        'not_applicable': na,
    }
    with open(os.path.join(HERE, 'MANIFEST.json'), 'w') as f:
        json.dump(m, f, indent=1)
    print(f'{len(checks)} checks, {len(na)} not applicable')


if __name__ == '__main__':
    main()
