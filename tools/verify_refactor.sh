#!/bin/sh
# usage: verify_refactor.sh <name e.g. C01-1> <dir with patch.diff [check.py] meta.json>
# Confirms in a scratch worktree of /repo HEAD that the refactoring applies, that the 77 baseline tests still pass with it
# and that its smoke script (if any) exits 0 before and after. On success copies it to /verif/refactors/<name>/.
set -u
NAME=$1; SRC=$2
WT=$(mktemp -d /tmp/refchk.XXXXXX); rmdir "$WT"
flock /tmp/fim_wt.lock git -C /repo worktree add -q --detach "$WT" HEAD || exit 3
cleanup() { flock /tmp/fim_wt.lock git -C /repo worktree remove --force "$WT" >/dev/null 2>&1; rm -rf "$WT"; }
trap cleanup EXIT
cd "$WT" || exit 3
RC_CLEAN=0; RC_PATCHED=0; REBASED=0
if [ -f "$SRC/check.py" ]; then mkdir -p "$WT/OUT/$NAME"; cp "$SRC/check.py" "$WT/OUT/$NAME/check.py"; FIM_ROOT="$WT" /venv/bin/python "$WT/OUT/$NAME/check.py" >"$WT/.c0.out" 2>&1; RC_CLEAN=$?; fi
if ! git apply "$SRC/patch.diff" 2>"$WT/.apply.err"; then if ! git apply -3 "$SRC/patch.diff" 2>>"$WT/.apply.err" || grep -rq "^<<<<<<<" fim; then echo "$NAME: patch does not apply: $(head -2 $WT/.apply.err)"; exit 1; fi; git diff HEAD -- fim > "$WT/.rebased.diff"; REBASED=1; fi
if [ -f "$SRC/check.py" ]; then FIM_ROOT="$WT" /venv/bin/python "$WT/OUT/$NAME/check.py" >"$WT/.c1.out" 2>&1; RC_PATCHED=$?; fi
/venv/bin/python -m pytest -q -p no:cacheprovider --timeout=900 --continue-on-collection-errors --junitxml="$WT/.junit.xml" >"$WT/.pytest.out" 2>&1
MISSING=$(/venv/bin/python - "$WT/.junit.xml" <<'PY'
import json, sys, xml.etree.ElementTree as ET
b = json.load(open('/root/.vp/BASELINE.json'))
passed = set()
for tc in ET.parse(sys.argv[1]).iter('testcase'):
    if not any(c.tag in ('failure', 'error', 'skipped') for c in tc):
        passed.add(tc.get('classname') + '::' + tc.get('name'))
print(len(set(b['stable_pass']) - passed))
PY
)
SUMMARY=$(tail -1 "$WT/.pytest.out")
echo "$NAME: smoke clean=$RC_CLEAN patched=$RC_PATCHED; baseline tests missing=$MISSING; pytest: $SUMMARY"
if [ "$RC_CLEAN" = 0 ] && [ "$RC_PATCHED" = 0 ] && [ "$MISSING" = 0 ]; then
  DEST=/verif/refactors/$NAME
  mkdir -p "$DEST"
  cp "$SRC/patch.diff" "$DEST/";
  [ "${REBASED:-0}" = 1 ] && cp "$WT/.rebased.diff" "$DEST/patch.diff"
  [ -f "$SRC/check.py" ] && cp "$SRC/check.py" "$DEST/"
  /venv/bin/python - "$SRC/meta.json" "$DEST/meta.json" "$SUMMARY" "$(git -C /repo rev-parse --short HEAD)" <<'PY'
import json, sys
src, dst, summary, head = sys.argv[1:5]
try: m = json.load(open(src))
except Exception: m = {}
m['confirmed'] = {'repo_head': head, 'patch_applies': True, 'baseline_tests': '77 stable tests still pass (' + summary.strip() + ')',
                  'smoke_script_exit_before_after': [0, 0]}
json.dump(m, open(dst, 'w'), indent=1)
PY
  echo "$NAME: KEPT"
  exit 0
fi
echo "$NAME: REJECTED"; exit 1
