#!/bin/sh
# usage: verify_seed.sh <property id> <A|B|...> <dir with patch.diff demo.py meta.json>
# Confirms in a scratch worktree of /repo HEAD (outside /repo and /verif) that the change applies, the 77 baseline
# tests still pass with it, and the demonstration fails with the change and passes without. On success copies the
# seed to /verif/seeded/<id>-<X>/ and records what was run in meta.json. The scratch worktree is always removed.
set -u
REBASED=0
ID=$1; X=$2; SRC=$3
WT=$(mktemp -d /tmp/seedchk.XXXXXX)
rmdir "$WT"
flock /tmp/fim_wt.lock git -C /repo worktree add -q --detach "$WT" HEAD || exit 3
cleanup() { flock /tmp/fim_wt.lock git -C /repo worktree remove --force "$WT" >/dev/null 2>&1; rm -rf "$WT"; }
trap cleanup EXIT
cd "$WT" || exit 3
mkdir -p "$WT/OUT/$ID-$X"; cp "$SRC/demo.py" "$WT/OUT/$ID-$X/demo.py"
FIM_ROOT="$WT" /venv/bin/python "$WT/OUT/$ID-$X/demo.py" >"$WT/.demo_clean.out" 2>&1; RC_CLEAN=$?
if ! git apply "$SRC/patch.diff" 2>"$WT/.apply.err"; then if ! git apply -3 "$SRC/patch.diff" 2>>"$WT/.apply.err" || grep -rq "^<<<<<<<" fim; then echo "$ID-$X: patch does not apply: $(head -2 $WT/.apply.err)"; exit 1; fi; git diff HEAD -- fim > "$WT/.rebased.diff"; REBASED=1; fi
FIM_ROOT="$WT" /venv/bin/python "$WT/OUT/$ID-$X/demo.py" >"$WT/.demo_patched.out" 2>&1; RC_PATCHED=$?
/venv/bin/python -m pytest -q -p no:cacheprovider --timeout=900 --continue-on-collection-errors --junitxml="$WT/.junit.xml" >"$WT/.pytest.out" 2>&1
MISSING=$(/venv/bin/python - "$WT/.junit.xml" <<'PY'
import json, sys, xml.etree.ElementTree as ET
b = json.load(open('/root/.vp/BASELINE.json'))
passed = set()
for tc in ET.parse(sys.argv[1]).iter('testcase'):
    if not any(c.tag in ('failure', 'error', 'skipped') for c in tc):
        passed.add(tc.get('classname') + '::' + tc.get('name'))
print(len(set(b['stable_pass']) - passed))
PY
)
SUMMARY=$(tail -1 "$WT/.pytest.out")
echo "$ID-$X: demo clean=$RC_CLEAN patched=$RC_PATCHED; baseline tests missing=$MISSING; pytest: $SUMMARY"
if [ "$RC_CLEAN" = 0 ] && [ "$RC_PATCHED" = 1 ] && [ "$MISSING" = 0 ]; then
  DEST=/verif/seeded/$ID-$X
  mkdir -p "$DEST"
  cp "$SRC/patch.diff" "$SRC/demo.py" "$DEST/"
  [ "${REBASED:-0}" = 1 ] && cp "$WT/.rebased.diff" "$DEST/patch.diff"
  /venv/bin/python - "$SRC/meta.json" "$DEST/meta.json" "$ID" "$X" "$SUMMARY" "$(git -C /repo rev-parse --short HEAD)" <<'PY'
import json, sys
src, dst, pid, x, summary, head = sys.argv[1:7]
try: m = json.load(open(src))
except Exception: m = {}
m.update({'property': pid, 'change': x, 'breaks_property': pid,
          'confirmed': {'repo_head': head, 'patch_applies': True,
                        'baseline_tests': '77 stable tests still pass with the change (' + summary.strip() + ')',
                        'demo_exit_clean_tree': 0, 'demo_exit_changed_tree': 1,
                        'ran': ['git apply patch.diff (scratch worktree of /repo HEAD under /tmp)',
                                '/venv/bin/python demo.py  (before and after applying)',
                                '/venv/bin/python -m pytest -q -p no:cacheprovider --timeout=900 --continue-on-collection-errors']}})
json.dump(m, open(dst, 'w'), indent=1)
PY
  echo "$ID-$X: KEPT -> $DEST"
  exit 0
fi
echo "$ID-$X: REJECTED"; tail -3 "$WT/.demo_clean.out" "$WT/.demo_patched.out" 2>/dev/null | cut -c1-200
exit 1
