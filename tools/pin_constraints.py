#!/usr/bin/env python3
"""Write /verif/data/c10_constraints.json: the folded constraint tables of /repo as the pinned reference (property C10 says
the tables are pinned in the checker so that silent edits to them are visible). Run only when a table change is intended."""
import json
import os
import sys

HERE = os.path.dirname(os.path.dirname(os.path.abspath(__file__)))
sys.path.insert(0, HERE)
from fimsa.core import Program              # noqa: E402
from fimsa.props.c10 import constraint_tables_as_json    # noqa: E402

root = sys.argv[1] if len(sys.argv) > 1 else '/repo'
data = constraint_tables_as_json(Program(root))
with open(os.path.join(HERE, 'data', 'c10_constraints.json'), 'w') as f:
    json.dump(data, f, indent=1, sort_keys=True)
print({k: len(v) for k, v in data.items()})
