#!/usr/bin/env python3
"""usage: record_fix.py <property> <rule> <commit> <function> <construct> <what failed>  -- append a 'fixed' entry to known_findings.jsonl"""
import json, sys
prop, rule, commit, function, construct, what = sys.argv[1:7]
e = {"status": "fixed", "property": prop, "rule": rule, "function": function, "construct": construct, "commit": commit,
     "what": f"fixed: property={prop} {commit} {what}"}
with open('/verif/known_findings.jsonl', 'a') as f:
    f.write('\n' + json.dumps(e))
print('recorded')
