#!/bin/sh
# run thorough for given props, print selftest outcomes that need attention
cd /verif
for p in "$@"; do ./check $p --tier thorough > /dev/null 2>&1; echo "$p exit=$?"; done
python3 - "$@" <<'PY'
import json,sys
for p in sys.argv[1:]:
    e=json.load(open(f'/verif/evidence/{p}.json'))
    n=0
    for r in e['coverage']['selftest']['results']:
        o=r['outcome']
        if o in ('silent','detected','DETECTED') : continue
        n+=1
        if n>12: continue
        f=r.get('first') or {}
        print(p, r['name'], o, r.get('rules'), (f.get('message') or r.get('error') or '')[:200])
    if n>12: print(p, '...', n, 'in total')
PY
