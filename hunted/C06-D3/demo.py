#!/usr/bin/env python
"""
C06-D3: get_nodes_on_path_with_hops() discards every simple path whose *induced subgraph* contains a
cycle, i.e. every path that has a chord (an extra edge between two of its nodes).  A simple path is
already loop-free, so valid answers are thrown away:
  (a) triangle a-b-z plus edge a-z: the only path a..z through hop b is a-b-z, the query returns [];
  (b) when the shortest path through the hop has a chord a strictly longer chord-free path is returned.
Exit 1 when the violation manifests.
"""
import os
import sys
import itertools

HERE = os.path.dirname(os.path.abspath(__file__))
ROOT = os.environ.get('FIM_ROOT', os.path.dirname(os.path.dirname(HERE)))
sys.path.insert(0, ROOT)

from fim.graph.networkx_property_graph import NetworkXGraphImporter, NetworkXPropertyGraph


def oracle(nodes, edges, a, z, hops):
    """All loop-free (simple) paths a..z containing all hops, by brute force."""
    adj = {n: set() for n in nodes}
    for x, y in edges:
        adj[x].add(y)
        adj[y].add(x)
    out = []

    def rec(path):
        if path[-1] == z:
            if all(h in path for h in hops):
                out.append(list(path))
            return
        for v in sorted(adj[path[-1]]):
            if v not in path:
                rec(path + [v])
    rec([a])
    return out


def check(title, nodes, edges, a, z, hops):
    imp = NetworkXGraphImporter()
    imp.delete_all_graphs()
    g = NetworkXPropertyGraph(graph_id='c06d3', importer=imp)
    for n in nodes:
        g.add_node(node_id=n, label='NetworkNode')
    for x, y in edges:
        g.add_link(node_a=x, rel='connects', node_b=y)
    got = g.get_nodes_on_path_with_hops(node_a=a, node_z=z, hops=hops)
    cands = oracle(nodes, edges, a, z, hops)
    best = min((len(p) for p in cands), default=None)
    print(title)
    print(f'   edges={edges}  a={a} z={z} hops={hops}')
    print(f'   loop-free paths with all hops (oracle): {cands}')
    print(f'   library returned: {got}')
    imp.delete_all_graphs()
    if not cands:
        return got == []
    if got == []:
        print('   -> WRONG: empty list although a loop-free path containing all hops exists')
        return False
    if got not in cands:
        print('   -> WRONG: not a valid path')
        return False
    if len(got) != best:
        print(f'   -> WRONG: returned path has {len(got)} nodes, the shortest valid one has {best}')
        return False
    return True


ok = True
# (a) triangle
ok &= check('(a) triangle', ['a', 'b', 'z'], [('a', 'b'), ('b', 'z'), ('a', 'z')], 'a', 'z', ['b'])
# (b) shortest path through hop c is a-b-c-d-z (5 nodes) but has the chord b-d;
#     the chord-free detour a-b-c-e-f-z (6 nodes) is returned instead
ok &= check('(b) chord on the shortest path',
            ['a', 'b', 'c', 'd', 'z', 'e', 'f'],
            [('a', 'b'), ('b', 'c'), ('c', 'd'), ('d', 'z'), ('b', 'd'), ('c', 'e'), ('e', 'f'), ('f', 'z')],
            'a', 'z', ['c'])

if not ok:
    print('VIOLATION: path-with-hops rejects loop-free paths that merely have a chord')
    sys.exit(1)
print('property held')
sys.exit(0)
