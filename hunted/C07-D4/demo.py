#!/usr/bin/env python3
"""C07-D4: the sub-interface name/VLAN uniqueness check of Interface.add_child_interface() looks at a list cached in
the Python handle, not at the model: a second handle of the same port accepts a duplicate."""
import os, sys
HERE = os.path.dirname(os.path.abspath(__file__))
ROOT = os.environ.get('FIM_ROOT', os.path.abspath(os.path.join(HERE, '..', '..')))
sys.path.insert(0, ROOT)

import fim.user as f
from fim.user import ComponentType, Labels, InterfaceType

violations = []

# --- sub-interfaces of a dedicated port -------------------------------------------------------------
t = f.ExperimentTopology()
n1 = t.add_node(name='n1', site='UKY')
nic = n1.add_component(name='nic1', ctype=ComponentType.SmartNIC, model='ConnectX-6')
# every access to .interface_list / .interfaces returns new handles: this is the normal way to get at a port
h1 = nic.interfaces['nic1-p1']
h2 = nic.interfaces['nic1-p1']
h1.add_child_interface(name='sub1', labels=Labels(vlan='100'))
try:
    h2.add_child_interface(name='sub1', labels=Labels(vlan='100'))
    print('second add_child_interface(name="sub1", vlan 100) on the same port was ACCEPTED')
except Exception as e:
    print('second add_child_interface rejected:', e)

g = t.graph_model.storage.extract_graph(t.graph_model.graph_id)
port = [n for n, d in g.nodes(data=True) if d.get('NodeID') == h1.node_id][0]
subs = [g.nodes[m]['Name'] for m in g.neighbors(port)
        if g.nodes[m].get('Class') == 'ConnectionPoint' and g.nodes[m].get('Type') == 'SubInterface']
print('sub-interfaces of nic1-p1 in the model:', subs)
print('view h1.interfaces:', list(h1.interfaces.keys()), ' view h2.interfaces:', list(h2.interfaces.keys()),
      ' fresh handle:', [i.name for i in nic.interfaces['nic1-p1'].interface_list])
if len(subs) != len(set(subs)):
    violations.append('duplicate sub-interface names under one parent interface')
if len(h1.interface_list) != len(subs):
    violations.append('Interface.interface_list of a live handle does not list the sub-interfaces present in the model')

# --- same flaw in NetworkService.add_interface -------------------------------------------------------
t = f.ExperimentTopology()
sw = t.add_switch(name='sw1', site='UKY', nports=1)
s1 = sw.network_services['sw1-ns']
s2 = sw.network_services['sw1-ns']
s1.add_interface(name='px', itype=InterfaceType.DedicatedPort, labels=Labels(local_name='px'))
try:
    s2.add_interface(name='px', itype=InterfaceType.DedicatedPort, labels=Labels(local_name='px'))
    print('second add_interface(name="px") on the same service was ACCEPTED')
except Exception as e:
    print('second add_interface rejected:', e)
names = [i.name for i in sw.network_services['sw1-ns'].interface_list]
print('interfaces of sw1-ns in the model:', names)
if len(names) != len(set(names)):
    violations.append('duplicate interface names within one network service')

if violations:
    print('VIOLATION:', violations)
    sys.exit(1)
print('property held')
sys.exit(0)
