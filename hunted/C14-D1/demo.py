"""C14-D1: merging two adjacent shared (stitch) nodes leaves a networkx "contraction" attribute on the
link between them in the combined model; unmerge does not remove it and the combined model can no longer be serialised."""
import os, sys, json
HERE = os.path.dirname(os.path.abspath(__file__))
ROOT = os.environ.get("FIM_ROOT", os.path.dirname(os.path.dirname(HERE)))
sys.path.insert(0, ROOT)

from fim.graph.networkx_property_graph import NetworkXPropertyGraph, NetworkXGraphImporter
from fim.graph.resources.abc_cbm import ABCCBMPropertyGraph
from fim.graph.resources.networkx_adm import NetworkXADMGraph
import fim.graph.resources.neo4j_cbm as ncbm

# The library ships the combined-model logic only in Neo4jCBMGraph; it is written against the
# abstract graph interface, so it is bound here to the in-memory shared store (no Neo4j needed).
# merge_adm "typecasts" its temporary clone to Neo4jADMGraph; the in-memory equivalent is used.
ncbm.Neo4jADMGraph = NetworkXADMGraph


class NxCBM(NetworkXPropertyGraph, ABCCBMPropertyGraph):
    _update_node_delegations = ncbm.Neo4jCBMGraph._update_node_delegations
    merge_adm = ncbm.Neo4jCBMGraph.merge_adm
    unmerge_adm = ncbm.Neo4jCBMGraph.unmerge_adm
    get_bqm = ncbm.Neo4jCBMGraph.get_bqm
    get_delegations = ncbm.Neo4jCBMGraph.get_delegations
    DELEGATION_TYPE_TO_PROP_NAME = ncbm.Neo4jCBMGraph.DELEGATION_TYPE_TO_PROP_NAME

    def get_matching_nodes_with_components(self, **kw): raise NotImplementedError
    def get_intersite_links(self): raise NotImplementedError
    def get_sites(self): raise NotImplementedError
    def get_disconnected_sites(self): raise NotImplementedError
    def get_connected_sites(self): raise NotImplementedError
    def get_facility_ports(self): raise NotImplementedError


def cap_deleg(did):
    return json.dumps({did: {"pool_id": "_", "capacities": {"unit": 1}}})


def make_adm(imp, gid, nodes, links):
    """nodes: {node_id: (label, extra props)}, links: [(a, rel, b)] - built with add_node/add_link"""
    adm = NetworkXADMGraph(graph_id=gid, importer=imp)
    for nid, (label, props) in nodes.items():
        p = {'Name': nid}
        p.update(props)
        adm.add_node(node_id=nid, label=label, props=p)
    for a, rel, b in links:
        adm.add_link(node_a=a, rel=rel, node_b=b)
    return adm


def observe(g):
    """canonical content of a graph through the public interface: nodes by NodeID, links by NodeID pair"""
    if not g.graph_exists():
        return {}, {}
    ids = sorted(g.list_all_node_ids())
    nodes = {}
    for n in ids:
        labels, props = g.get_node_properties(node_id=n)
        nodes[n] = (labels[0], props)
    links = {}
    for i, a in enumerate(ids):
        for b in ids[i + 1:]:
            try:
                kind, props = g.get_link_properties(node_a=a, node_b=b)
            except Exception:
                continue
            links[(a, b)] = (kind, props)
    return nodes, links


def diff(before, after):
    out = []
    for what, x, y in (('node', before[0], after[0]), ('link', before[1], after[1])):
        for k in sorted(set(x) | set(y), key=str):
            if x.get(k) != y.get(k):
                out.append(f"  {what} {k}:\n     before: {x.get(k)}\n     after : {y.get(k)}")
    return out


imp = NetworkXGraphImporter()
imp.delete_all_graphs()

# network model: switch - CP - Link (CP and Link are stitch elements, adjacent to each other)
net = make_adm(imp, 'ADM-NET', {
    'net-sw': ('NetworkNode', {'CapacityDelegations': cap_deleg('net')}),
    'cp': ('ConnectionPoint', {'StitchNode': 'true', 'CapacityDelegations': cap_deleg('net')}),
    'link': ('Link', {'StitchNode': 'true'}),
}, [('net-sw', 'connects', 'cp'), ('cp', 'connects', 'link')])
# site model: switch - Link - CP (same two stitch elements, same connection between them)
site = make_adm(imp, 'ADM-SITE', {
    'site-sw': ('NetworkNode', {'CapacityDelegations': cap_deleg('site')}),
    'cp': ('ConnectionPoint', {'StitchNode': 'true'}),
    'link': ('Link', {'StitchNode': 'true'}),
}, [('site-sw', 'connects', 'link'), ('cp', 'connects', 'link')])

cbm = NxCBM(graph_id='CBM', importer=imp)
cbm.merge_adm(adm=net)
before = observe(cbm)
print("link cp-link after merging ADM-NET only      :", before[1][('cp', 'link')])
cbm.merge_adm(adm=site)
merged = observe(cbm)
print("link cp-link after merging ADM-NET + ADM-SITE:", merged[1][('cp', 'link')])

bad = False
if set(merged[1][('cp', 'link')][1].keys()) - {'Class'}:
    print("VIOLATION: the shared connection does not 'appear once' unchanged - it acquired extra properties:",
          sorted(set(merged[1][('cp', 'link')][1].keys())))
    bad = True
try:
    cbm.serialize_graph()
    print("combined model serialises")
except Exception as e:
    print("VIOLATION: combined model cannot be serialised any more:", type(e).__name__, e)
    bad = True

cbm.unmerge_adm(graph_id='ADM-SITE')
after = observe(cbm)
d = diff(before, after)
if d:
    print("VIOLATION: merge followed by unmerge did not restore the previous combined model:")
    print('\n'.join(d))
    bad = True
sys.exit(1 if bad else 0)
