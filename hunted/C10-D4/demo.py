#!/usr/bin/env python
"""C10-D4: Topology.validate() walks services through a name-keyed dictionary; a slice-wide service that shares
its name with a (later added) component-owned service is silently skipped, so a topology that violates the
constraint table is accepted.
"""
import os, sys
sys.dont_write_bytecode = True
HERE = os.path.dirname(os.path.abspath(__file__))
ROOT = os.environ.get('FIM_ROOT', os.path.dirname(os.path.dirname(HERE)))
sys.path.insert(0, ROOT)

from fim.user.topology import ExperimentTopology
from fim.slivers.network_service import ServiceType
from fim.slivers.component_catalog import ComponentModelType


def accepted(t):
    try:
        t.validate()
        return True, None
    except Exception as e:
        return False, f'{type(e).__name__}: {e}'


def vm(t, name, site):
    n = t.add_node(name=name, site=site)
    c = n.add_component(name='nic1', model_type=ComponentModelType.SmartNIC_ConnectX_6)
    return n, c


t = ExperimentTopology()
n1, c1 = vm(t, 'n1', 'A')
n3, c3 = vm(t, 'n3', 'B')
# an L2Bridge (num_sites = 1) spanning sites A and B: violates the table
bad_name = 'n2-nic1-l2ovs'
t.add_network_service(name=bad_name, nstype=ServiceType.L2Bridge,
                      interfaces=[c1.interface_list[0], c3.interface_list[0]])
ok_before, why_before = accepted(t)
print(f'L2Bridge "{bad_name}" over sites A+B           -> {"ACCEPTED" if ok_before else "rejected: " + why_before}')

# add an unrelated, perfectly valid VM whose NIC service gets the same name
vm(t, 'n2', 'C')
n_graph = len(t.graph_model.get_all_network_service_nodes())
n_view = len(t.network_services)
ok_after, why_after = accepted(t)
print(f'after adding VM n2 with component nic1: services in graph={n_graph}, services validate() iterates={n_view}')
print(f'same L2Bridge still spans A+B                   -> {"ACCEPTED" if ok_after else "rejected: " + str(why_after)}')

if (not ok_before) and ok_after:
    print('VIOLATION: a service violating max-sites is skipped by validate() because of a duplicate service name')
    sys.exit(1)
print('property held')
sys.exit(0)
