import os, sys
HERE = os.path.dirname(os.path.abspath(__file__))
FIM_ROOT = os.environ.get("FIM_ROOT", os.path.dirname(os.path.dirname(HERE)))
sys.path.insert(0, FIM_ROOT)

import json
from fim.slivers.component_catalog import ComponentCatalog
from fim.slivers.attached_components import ComponentType
from fim.slivers.capacities_labels import Labels, Capacities
from fim.slivers.instance_catalog import InstanceCatalog

CATALOG = json.load(open(os.path.join(FIM_ROOT, "fim", "slivers", "data", "component_catalog.json")))


def entry(ctype, model):
    return next(c for c in CATALOG if c["Type"] == ctype and c["Model"] == model)


def interfaces_of(cs):
    ns = list(cs.network_service_info.network_services.values())[0]
    return ns.interface_info.interfaces


# the same Labels object supplied for both ports (e.g. [lab] * 2): labels end up on the wrong interface
cc = ComponentCatalog()
lab = Labels(vlan_range='100-200')
supplied = [lab] * 2
cs = cc.generate_component(name='nic1', ctype=ComponentType.SmartNIC, model='ConnectX-6',
                           interface_labels=supplied)
bad = False
for name, isl in interfaces_of(cs).items():
    port = name[len('nic1-'):]
    print(name, 'local_name =', isl.get_labels().local_name)
    if isl.get_labels().local_name != port:
        bad = True
print("caller's own Labels object after the call:", lab)
if bad:
    print("VIOLATION: interface nic1-p1 carries local_name 'p2': generate_component stores the caller's Labels "
          "object itself on each interface and then writes local_name into it, so the second port overwrites "
          "the first (and the caller's object is modified)")
    sys.exit(1)
print('property held')
sys.exit(0)
