import os, sys
FIM_ROOT = os.environ.get('FIM_ROOT') or os.path.abspath(os.path.join(os.path.dirname(os.path.abspath(__file__)), '..', '..'))
sys.path.insert(0, FIM_ROOT)
"""
C12: "... mixing label and capacity content ... [is] always rejected".
Delegation.set_details() and Delegations.add_delegations() refuse a mix of label and
capacity content, but Delegations.from_json() accepts a delegation entry that carries
BOTH a 'capacities' and a 'labels' dictionary: it picks the one matching atype and
silently ignores the other, for single-pool delegations and for pool definitions.
"""
import json
from fim.slivers.delegations import Delegations, DelegationType, Delegation, DelegationException
from fim.slivers.capacities_labels import Capacities, Labels

bad = []
try:
    Delegation(atype=DelegationType.CAPACITY, delegation_id='del1').set_details(Labels(vlan='100'))
    print('set_details(Labels) on a CAPACITY delegation accepted (unexpected)')
    bad.append('set_details')
except DelegationException:
    print('set_details(Labels) on a CAPACITY delegation: rejected with DelegationException (good)')

mixed = {"del1": {"pool_id": "_", "capacities": {"core": 4}, "labels": {"vlan_range": "100-200"}},
         "del2": {"pool_id": "pool1", "capacities": {"ram": 8}, "labels": {"ipv4_range": "10.0.0.1-10.0.0.9"}}}
s = json.dumps(mixed)
for atype in (DelegationType.CAPACITY, DelegationType.LABEL):
    try:
        ds = Delegations.from_json(json_str=s, atype=atype)
        print(f'from_json(mixed text, atype={atype.name}) -> accepted; re-encoded: {ds.to_json()}')
        bad.append(atype.name)
    except Exception as e:
        print(f'from_json(mixed text, atype={atype.name}) -> rejected with {type(e).__name__}: {e}')

if bad:
    print('VIOLATION: text mixing label and capacity content was accepted as', bad, '(the other half silently dropped)')
    sys.exit(1)
print('property held')
sys.exit(0)
