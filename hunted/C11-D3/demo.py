#!/usr/bin/env python
"""C11-D3: collecting from the topology object and from its serialized model gives different attributes
when Topology.validate() has not been run on the object: the external site of a FABNetv4Ext service is
'UNKNOWN-SITE' from the object and the real site from the serialized model (which validates its copy), and
the site of a facility (STAR) is named only by the serialized model."""
import os
import sys

FIM_ROOT = os.environ.get('FIM_ROOT') or os.path.dirname(os.path.dirname(os.path.dirname(os.path.abspath(__file__))))
sys.path.insert(0, FIM_ROOT)

from fim.user.topology import ExperimentTopology
from fim.user import ComponentModelType, ServiceType
from fim.slivers.capacities_labels import Capacities
from fim.authz.attribute_collector import ResourceAuthZAttributes as R
from fim.logging.log_collector import LogCollector
from fim.graph.slices.networkx_asm import NetworkXGraphImporter, NetworkXASMFactory


def norm(attrs):
    return {k.split(':')[-1]: sorted(map(str, v)) for k, v in attrs.items() if v}


t = ExperimentTopology()
n1 = t.add_node(name='n1', site='RENC', capacities=Capacities(core=2, ram=8, disk=10))
nic = n1.add_component(name='nic1', model_type=ComponentModelType.SmartNIC_ConnectX_6)
t.add_network_service(name='ext', nstype=ServiceType.FABNetv4Ext, interfaces=[nic.interface_list[0]])
t.add_facility(name='DTN', site='STAR', capacities=Capacities(bw=10))

az_topo = R()
az_topo.collect_resource_attributes(source=t)
lc_topo = LogCollector()
lc_topo.collect_resource_attributes(source=t)

# the serialized model, imported as a separate graph (fresh graph id) so the two do not share storage
asm = NetworkXASMFactory.create(NetworkXGraphImporter().import_graph_from_string(graph_string=t.serialize()))
az_asm = R()
az_asm.collect_resource_attributes(source=asm)
lc_asm = LogCollector()
lc_asm.collect_resource_attributes(source=asm)

a, b = norm(az_topo.attributes), norm(az_asm.attributes)
print('from topology object  :', a)
print('from serialized model :', b)
print('accounting sites      :', sorted(lc_topo.attributes['sites']), 'vs', sorted(lc_asm.attributes['sites']))
violations = 0
for k in sorted(set(a) | set(b)):
    if a.get(k) != b.get(k):
        print(f'   differs: {k}: {a.get(k)} != {b.get(k)}')
        violations += 1
if lc_topo.attributes['sites'] != lc_asm.attributes['sites']:
    violations += 1

if violations:
    print('VIOLATION: topology object and serialized model do not give the same attributes')
    sys.exit(1)
print('property held')
sys.exit(0)
