#!/usr/bin/env python
"""C11-D1: a slice-wide service that shares its name with a node-owned service (here the '<facility>-ns'
service that add_facility creates) disappears from the authorization request and from the accounting
summary, and only for one creation order: the other order is refused outright."""
import os
import sys
from collections import Counter

FIM_ROOT = os.environ.get('FIM_ROOT') or os.path.dirname(os.path.dirname(os.path.dirname(os.path.abspath(__file__))))
sys.path.insert(0, FIM_ROOT)

from fim.user.topology import ExperimentTopology
from fim.user import ComponentModelType, ServiceType
from fim.slivers.capacities_labels import Capacities
from fim.authz.attribute_collector import ResourceAuthZAttributes as R
from fim.logging.log_collector import LogCollector
from fim.graph.abc_property_graph import ABCPropertyGraph


def build(order):
    t = ExperimentTopology()
    n1 = t.add_node(name='n1', site='UKY', capacities=Capacities(core=2, ram=8, disk=10))
    nic = n1.add_component(name='nic1', model_type=ComponentModelType.SmartNIC_ConnectX_6)

    def facility():
        t.add_facility(name='DTN', site='RENC', capacities=Capacities(bw=10))

    def service():
        # an externally routed service with 5 Gbps, named like the facility's own service
        t.add_network_service(name='DTN-ns', nstype=ServiceType.FABNetv4Ext,
                              interfaces=[nic.interface_list[0]], capacities=Capacities(bw=5), site='UKY')
    steps = {'facility': facility, 'service': service}
    for step in order:
        try:
            steps[step]()
        except Exception as e:
            print(f'   step {step} refused: {e}')
    t.validate()
    return t


def direct_tally(t):
    """independent tally straight from the graph model"""
    bw, ext_sites, count = Counter(), set(), 0
    for nid in t.graph_model.get_all_network_service_nodes():
        sl = t.graph_model.build_deep_ns_sliver(node_id=nid)
        count += 1
        if sl.capacities:
            bw[sl.capacities.bw] += 1
        if sl.resource_type == ServiceType.FABNetv4Ext:
            ext_sites.add(sl.site)
    return bw, ext_sites, count


results = dict()
violations = 0
for order in (('service', 'facility'), ('facility', 'service')):
    print('creation order', order)
    t = build(order)
    az = R()
    az.collect_resource_attributes(source=t)
    lc = LogCollector()
    lc.collect_resource_attributes(source=t)
    got_bw = Counter(az.attributes.get(R.RESOURCE_BW, []))
    got_ext = set(az.attributes.get(R.RESOURCE_FABNETV4_EXT, []))
    exp_bw, exp_ext, exp_count = direct_tally(t)
    print(f'   services in the model: {exp_count}, listed by topology.network_services: '
          f'{len(t.network_services)}, counted by LogCollector: {len(lc.attributes["services"])}')
    print(f'   bandwidths  expected {dict(exp_bw)} request has {dict(got_bw)}')
    print(f'   ext sites   expected {exp_ext} request has {got_ext}')
    if got_bw != exp_bw or got_ext != exp_ext or len(lc.attributes['services']) != exp_count:
        print('   -> the request / summary misses a service that is in the slice')
        violations += 1
    results[order] = (got_bw, got_ext)

if violations:
    print('VIOLATION: a service of the slice is not covered; outcome depends on creation order')
    sys.exit(1)
print('property held')
sys.exit(0)
