#!/usr/bin/env python3
"""C17-D4: NodeSliver.diff never looks below a node-level network service: interfaces (and sub-interfaces) added to or
removed from a service owned directly by the node (switch / facility) are not reported."""
import os, sys
HERE = os.path.dirname(os.path.abspath(__file__))
ROOT = os.environ.get('FIM_ROOT', os.path.abspath(os.path.join(HERE, '..', '..')))
sys.path.insert(0, ROOT)

import fim.user as f
from fim.user import Labels, Capacities, InterfaceType

violations = []

t = f.ExperimentTopology()
sw = t.add_switch(name='sw1', site='UKY', nports=2)
ns = sw.network_services['sw1-ns']
old = sw.get_sliver()

ns.add_interface(name='p3', itype=InterfaceType.DedicatedPort, labels=Labels(local_name='p3'),
                 capacities=Capacities(bw=100))                                   # edit: add an interface
new = sw.get_sliver()
old_names = sorted(old.network_service_info.get_network_service('sw1-ns').interface_info.interfaces)
new_names = sorted(new.network_service_info.get_network_service('sw1-ns').interface_info.interfaces)
print('interfaces of node-level service sw1-ns: old', old_names, ' new', new_names)
for direction, a, b in (('old->new', old, new), ('new->old', new, old)):
    d = a.diff(b)
    print(f'  node sliver diff {direction}:', d)
    if d is None:
        violations.append(('interface add/remove', direction))
# the service slivers themselves do see it - the information is lost in NodeSliver.diff
sd = old.network_service_info.get_network_service('sw1-ns').diff(new.network_service_info.get_network_service('sw1-ns'))
print('  (NetworkServiceSliver.diff on the same pair reports added interfaces:',
      [i.resource_name for i in sd.added.interfaces], ')')

# sub-interface under a port of the node-level service
ns = sw.network_services['sw1-ns']
p1 = ns.interfaces['p1']
before = sw.get_sliver()
p1.add_child_interface(name='p1-sub', labels=Labels(vlan='10'))
after = sw.get_sliver()
d = before.diff(after)
print('  add sub-interface under sw1-ns/p1: node sliver diff =', d)
if d is None:
    violations.append(('sub-interface add', 'old->new'))

if violations:
    print('VIOLATION: added/removed interfaces of a node-level service are not reported:', violations)
    sys.exit(1)
print('property held')
sys.exit(0)
