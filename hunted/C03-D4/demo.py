#!/usr/bin/env python3
"""
C03-D4: the legacy "type:value" typed tuples do not decode from their own encoding to an equal value:
 (a) a Capacity built with an integer value (the documented value type for capacities) decodes to a string,
 (b) a value with leading/trailing whitespace is truncated by the fromstring decoder (and the sibling
     decoder parse_from_string disagrees with it).
Exit 1 when the violation manifests.
"""
import os
import sys

ROOT = os.environ.get('FIM_ROOT') or os.path.dirname(os.path.dirname(os.path.dirname(os.path.abspath(__file__))))
sys.path.insert(0, ROOT)

from fim.graph.typed_tuples import Capacity, Label

bad = 0

# (a) integer capacity
c = Capacity(atype='core', aval=32)
text = c.get_as_string()
d = Capacity(fromstring=text)
print(f'Capacity(core, 32): encoded {text!r}; decoded value {d.get_val()!r} ({type(d.get_val()).__name__}), '
      f'original {c.get_val()!r} ({type(c.get_val()).__name__}); re-encoded {d.get_as_string()!r}')
if d.get_val() != c.get_val():
    bad += 1
    print('  -> decoded value is not equal to the original value')
# what a consumer would do with it
try:
    print('  total of two decoded capacities:', d.get_val() + Capacity(fromstring='core:8').get_val())
except BaseException as e:
    print(f'  arithmetic on decoded values RAISED {type(e).__name__}: {e}')

# (b) value with surrounding whitespace
l = Label(atype='node', aval=' renc worker 1 ')
text = l.get_as_string()
d = Label(fromstring=text)
print(f'Label(node): encoded {text!r}; decoded value {d.get_val()!r}; re-encoded {d.get_as_string()!r}')
if d.get_val() != l.get_val() or d.get_as_string() != text:
    bad += 1
    print('  -> value changed by decoding, re-encoding differs from the original text')
# sibling decoder keeps the value
d2 = Label(atype='node', aval='x')
d2.parse_from_string(text)
print(f'  parse_from_string on the same text gives {d2.get_val()!r} (disagrees with fromstring: {d2.get_val() != d.get_val()})')

if bad:
    print(f'VIOLATION: {bad} typed tuples did not decode to an equal value')
    sys.exit(1)
print('property held')
sys.exit(0)
