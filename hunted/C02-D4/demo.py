import os, sys
FIM_ROOT = os.environ.get('FIM_ROOT') or os.path.abspath(os.path.join(os.path.dirname(os.path.abspath(__file__)), '..', '..'))
sys.path.insert(0, FIM_ROOT)
"""
C02: "Setting a property on a model element and reading it back returns an equal value".
stitch_node=True is written and can be read back, but setting ANY other property of the
same element afterwards silently resets it to False: every set_property/set_properties
builds a fresh sliver whose default stitch_node=False is always emitted into the
property dictionary that is merged into the graph node.
Shown for all five element kinds.
"""
from fim.user.topology import ExperimentTopology
from fim.user import ComponentModelType, ServiceType
from fim.slivers.capacities_labels import Labels, Capacities

t = ExperimentTopology()
n = t.add_node(name='n1', site='RENC')
c1 = n.add_component(name='nic1', model_type=ComponentModelType.SharedNIC_ConnectX_6)
n2 = t.add_node(name='n2', site='RENC')
c2 = n2.add_component(name='nic1', model_type=ComponentModelType.SharedNIC_ConnectX_6)
ns = t.add_network_service(name='br1', nstype=ServiceType.L2Bridge,
                           interfaces=[c1.interface_list[0], c2.interface_list[0]])
iface = c1.interface_list[0]
link = list(t.links.values())[0]

bad = []
for el, other, val in ((n, 'details', 'a stitch node'),
                       (c1, 'details', 'x'),
                       (ns, 'labels', Labels(vlan='100')),
                       (iface, 'capacities', Capacities(bw=10)),
                       (link, 'details', 'y')):
    kind = type(el).__name__
    el.set_property('stitch_node', True)
    first = el.get_property('stitch_node')
    el.set_property(other, val)
    second = el.get_property('stitch_node')
    print(f"{kind:15s} stitch_node after set: {first}; after then setting '{other}': {second}")
    if first is not True or second is not True:
        bad.append(kind)

if bad:
    print('VIOLATION: stitch_node=True was lost by setting an unrelated property on', bad)
    sys.exit(1)
print('property held')
sys.exit(0)
