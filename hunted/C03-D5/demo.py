#!/usr/bin/env python3
"""
C03-D5: a finalized MaintenanceInfo can still be altered. finalize() only guards add/rem/pop of the
name->entry dictionary; the MaintenanceEntry objects themselves are mutable and are handed out by
reference (get, list_details, iter) and shared with copy(), so the content - and the encoding - of a
finalized record changes after finalize().
Exit 1 when the violation manifests.
"""
import os
import sys
from datetime import datetime, timezone

ROOT = os.environ.get('FIM_ROOT') or os.path.dirname(os.path.dirname(os.path.dirname(os.path.abspath(__file__))))
sys.path.insert(0, ROOT)

from fim.slivers.maintenance_mode import MaintenanceInfo, MaintenanceEntry, MaintenanceState

bad = 0

mi = MaintenanceInfo()
mi.add('renc-w1', MaintenanceEntry(state=MaintenanceState.Maint,
                                   deadline=datetime(2030, 1, 2, tzinfo=timezone.utc)))
mi.add('renc-w2', MaintenanceEntry(state=MaintenanceState.PreMaint))
mi.finalize()
frozen_text = mi.to_json()
print('finalized record :', frozen_text)

# the guarded mutators do refuse
try:
    mi.add('renc-w3', MaintenanceEntry(state=MaintenanceState.Maint))
    print('add() on finalized object was accepted')
    bad += 1
except Exception as e:
    print('add() refused    :', type(e).__name__)

# 1. through the accessor
mi.get('renc-w1').state = MaintenanceState.Active
mi.get('renc-w1').deadline = None
after_get = mi.to_json()
print('after get() edit :', after_get)
if after_get != frozen_text:
    bad += 1

# 2. through an un-finalized copy ("recreate and reassign" is the documented way to change a record)
frozen_text2 = mi.to_json()
cp = mi.copy()
cp.get('renc-w2').state = MaintenanceState.Maint      # editing the copy ...
after_copy = mi.to_json()                             # ... changes the finalized original
print('after copy edit  :', after_copy)
if after_copy != frozen_text2:
    bad += 1

# 3. through iteration over the finalized object
frozen_text3 = mi.to_json()
for name, entry in mi.iter():
    entry.expected_end = datetime(2031, 1, 1)
if mi.to_json() != frozen_text3:
    print('after iter() edit:', mi.to_json())
    bad += 1

if bad:
    print(f'VIOLATION: the finalized maintenance record was altered in {bad} ways')
    sys.exit(1)
print('property held')
sys.exit(0)
