#!/usr/bin/env python3
"""
C09-D4: Topology.remove_node() disconnects the node's interfaces from their services one by one and raises
when it meets an interface with more than one ServicePort peer; the interfaces handled before it have
already been disconnected (service ports and links deleted) while the node itself is still there.

Uses the NetworkX-backed ExperimentTopology. The model is snapshotted (all nodes, edges and their
properties) before the failing call and again after the exception.
Exit status 1 = the model differs after a call that raised, 0 = the property held.
"""
import os
import sys

HERE = os.path.dirname(os.path.abspath(__file__))
FIM_ROOT = os.environ.get('FIM_ROOT', os.path.abspath(os.path.join(HERE, '..', '..')))
sys.path.insert(0, FIM_ROOT)

import fim.user as fu  # noqa: E402
from fim.user.topology import ExperimentTopology  # noqa: E402


def snapshot(topo):
    """Canonical snapshot of the model: every graph node with all its properties and every edge
    (by the NodeIDs of its ends) with all its properties."""
    g = topo.graph_model.storage.extract_graph(topo.graph_model.graph_id)
    if g is None:
        return frozenset(), frozenset()
    nodes = frozenset((g.nodes[n]['NodeID'], tuple(sorted((k, str(v)) for k, v in g.nodes[n].items())))
                      for n in g.nodes)
    edges = frozenset((frozenset((g.nodes[a]['NodeID'], g.nodes[b]['NodeID'])),
                       tuple(sorted((k, str(v)) for k, v in d.items())))
                      for a, b, d in g.edges(data=True))
    return nodes, edges


def describe(topo, node_id):
    labels, props = topo.graph_model.get_node_properties(node_id=node_id)
    return f"{labels[0] if labels else props.get('Class')} name={props.get('Name')!r} type={props.get('Type')} id={node_id}"


def report_difference(topo, before, after):
    """Print what changed between two snapshots; returns True when something changed."""
    if before == after:
        print('    model unchanged')
        return False
    props_before = dict(before[0])
    props_after = dict(after[0])
    for nid in sorted(set(props_after) - set(props_before)):
        print('    LEFT BEHIND : ' + describe(topo, nid))
    for nid in sorted(set(props_before) - set(props_after)):
        d = dict(props_before[nid])
        print(f"    REMOVED     : {d.get('Class')} name={d.get('Name')!r} type={d.get('Type')} id={nid}")
    for nid in sorted(set(props_before) & set(props_after)):
        if props_before[nid] != props_after[nid]:
            b, a = dict(props_before[nid]), dict(props_after[nid])
            for k in sorted(set(b) | set(a)):
                if b.get(k) != a.get(k):
                    print(f"    CHANGED     : {b.get('Class')} {b.get('Name')!r}: property {k}: {b.get(k)!r} -> {a.get(k)!r}")
    print(f'    edges added: {len(after[1] - before[1])}, edges removed: {len(before[1] - after[1])}')
    return True


def failing_call(topo, what, call):
    """Run a call that is expected to raise; returns True when the model differs afterwards."""
    print('  ' + what)
    before = snapshot(topo)
    try:
        call()
    except Exception as e:  # noqa
        print(f'    raised {type(e).__name__}: {str(e)[:150]}')
    else:
        print('    did not raise (nothing to check)')
        return False
    return report_difference(topo, before, snapshot(topo))


violations = 0

t = ExperimentTopology()
n1 = t.add_node(name='n1', site='RENC')
nic1 = n1.add_component(name='nic1', model_type=fu.ComponentModelType.SmartNIC_ConnectX_6)
nic2 = n1.add_component(name='nic2', model_type=fu.ComponentModelType.SmartNIC_ConnectX_6)
# nic1-p1 is attached to a bridge the normal way
t.add_network_service(name='bridge-a', nstype=fu.ServiceType.L2Bridge, interfaces=[nic1.interface_list[0]])
# nic2-p1 sits on a link that also carries two service ports of another service
bridge_b = t.add_network_service(name='bridge-b', nstype=fu.ServiceType.L2Bridge)
sp1 = bridge_b.add_interface(name='sp1', itype=fu.InterfaceType.ServicePort)
sp2 = bridge_b.add_interface(name='sp2', itype=fu.InterfaceType.ServicePort)
t.add_link(name='shared-link', ltype=fu.LinkType.L2Path, interfaces=[nic2.interface_list[0], sp1, sp2])
print('  interfaces of n1 in the order remove_node visits them: ' + str([i.name for i in n1.interface_list]))

violations += failing_call(t, "remove_node('n1') - rejected because nic2-p1 has two service-port peers",
                           lambda: t.remove_node('n1'))
print(f"    n1 still in topology: {'n1' in t.nodes}; bridge-a ports now: {[i.name for i in t.network_services['bridge-a'].interface_list]}")

print()
if violations:
    print(f'{violations} failing call(s) left the model changed: property violated')
    sys.exit(1)
print('every failing call left the model as it was: property held')
sys.exit(0)
