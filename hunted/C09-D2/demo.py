#!/usr/bin/env python3
"""
C09-D2: NetworkService.add_interface() / NetworkService.peer() on a service that is no longer in the model
(its handle outlived remove_network_service): the call raises, but the ConnectionPoint it created first
stays in the model as an orphan, attached to nothing.

Uses the NetworkX-backed ExperimentTopology. The model is snapshotted (all nodes, edges and their
properties) before the failing call and again after the exception.
Exit status 1 = the model differs after a call that raised, 0 = the property held.
"""
import os
import sys

HERE = os.path.dirname(os.path.abspath(__file__))
FIM_ROOT = os.environ.get('FIM_ROOT', os.path.abspath(os.path.join(HERE, '..', '..')))
sys.path.insert(0, FIM_ROOT)

import fim.user as fu  # noqa: E402
from fim.user.topology import ExperimentTopology  # noqa: E402


def snapshot(topo):
    """Canonical snapshot of the model: every graph node with all its properties and every edge
    (by the NodeIDs of its ends) with all its properties."""
    g = topo.graph_model.storage.extract_graph(topo.graph_model.graph_id)
    if g is None:
        return frozenset(), frozenset()
    nodes = frozenset((g.nodes[n]['NodeID'], tuple(sorted((k, str(v)) for k, v in g.nodes[n].items())))
                      for n in g.nodes)
    edges = frozenset((frozenset((g.nodes[a]['NodeID'], g.nodes[b]['NodeID'])),
                       tuple(sorted((k, str(v)) for k, v in d.items())))
                      for a, b, d in g.edges(data=True))
    return nodes, edges


def describe(topo, node_id):
    labels, props = topo.graph_model.get_node_properties(node_id=node_id)
    return f"{labels[0] if labels else props.get('Class')} name={props.get('Name')!r} type={props.get('Type')} id={node_id}"


def report_difference(topo, before, after):
    """Print what changed between two snapshots; returns True when something changed."""
    if before == after:
        print('    model unchanged')
        return False
    props_before = dict(before[0])
    props_after = dict(after[0])
    for nid in sorted(set(props_after) - set(props_before)):
        print('    LEFT BEHIND : ' + describe(topo, nid))
    for nid in sorted(set(props_before) - set(props_after)):
        d = dict(props_before[nid])
        print(f"    REMOVED     : {d.get('Class')} name={d.get('Name')!r} type={d.get('Type')} id={nid}")
    for nid in sorted(set(props_before) & set(props_after)):
        if props_before[nid] != props_after[nid]:
            b, a = dict(props_before[nid]), dict(props_after[nid])
            for k in sorted(set(b) | set(a)):
                if b.get(k) != a.get(k):
                    print(f"    CHANGED     : {b.get('Class')} {b.get('Name')!r}: property {k}: {b.get(k)!r} -> {a.get(k)!r}")
    print(f'    edges added: {len(after[1] - before[1])}, edges removed: {len(before[1] - after[1])}')
    return True


def failing_call(topo, what, call):
    """Run a call that is expected to raise; returns True when the model differs afterwards."""
    print('  ' + what)
    before = snapshot(topo)
    try:
        call()
    except Exception as e:  # noqa
        print(f'    raised {type(e).__name__}: {str(e)[:150]}')
    else:
        print('    did not raise (nothing to check)')
        return False
    return report_difference(topo, before, snapshot(topo))


violations = 0

t = ExperimentTopology()
t.add_node(name='n1', site='RENC')
ns = t.add_network_service(name='net1', nstype=fu.ServiceType.L2Bridge)
t.remove_network_service('net1')
violations += failing_call(t, "add_interface on a service that was removed from the topology",
                           lambda: ns.add_interface(name='p1', itype=fu.InterfaceType.ServicePort))

t = ExperimentTopology()
vpn_a = t.add_network_service(name='vpn-a', nstype=fu.ServiceType.L3VPN)
vpn_b = t.add_network_service(name='vpn-b', nstype=fu.ServiceType.L3VPN)
t.remove_network_service('vpn-b')
violations += failing_call(t, "vpn_a.peer(vpn_b) where vpn_b was removed from the topology (2nd step of peer is the bad one)",
                           lambda: vpn_a.peer(vpn_b))
violations += failing_call(t, "vpn_b.peer(vpn_a) where vpn_b was removed from the topology (1st step of peer is the bad one)",
                           lambda: vpn_b.peer(vpn_a))

print()
if violations:
    print(f'{violations} failing call(s) left the model changed: property violated')
    sys.exit(1)
print('every failing call left the model as it was: property held')
sys.exit(0)
