#!/usr/bin/env python
"""C20-D3: fault sequence 'import under a duplicate graph id' + 'import lacking node ids' on the shared store:
the failing import deletes the graph already stored under that id before it notices the bad input, so all nodes
previously added to that graph are lost although the import raised and added nothing.
"""
import os, sys
sys.dont_write_bytecode = True
HERE = os.path.dirname(os.path.abspath(__file__))
ROOT = os.environ.get('FIM_ROOT', os.path.dirname(os.path.dirname(HERE)))
sys.path.insert(0, ROOT)

import networkx as nx
from fim.graph.networkx_property_graph import NetworkXGraphImporter
from fim.graph.networkx_property_graph_disjoint import NetworkXGraphImporterDisjoint
from fim.graph.abc_property_graph import PropertyGraphImportException


def good(n, pfx):
    g = nx.Graph()
    for i in range(n):
        g.add_node(f'{pfx}{i}', NodeID=f'{pfx}{i}', Class='NetworkNode', Name=f'{pfx}{i}')
    return g


def bad():
    g = good(2, 'b')
    g.add_node('x', Class='NetworkNode', Name='x')      # no NodeID
    return g


def node_ids(imp, gid):
    pg = imp.graph_class(graph_id=gid, importer=imp)
    return sorted(pg.list_all_node_ids()) if pg.graph_exists() else []


violation = False
for Imp in (NetworkXGraphImporter, NetworkXGraphImporterDisjoint):
    imp = Imp()
    imp.delete_all_graphs()
    imp.storage.add_graph('X', good(3, 'a'))
    imp.storage.add_graph('Y', good(2, 'y'))
    before = node_ids(imp, 'X')
    # the same thing through the public importer API: a GraphML string whose third node has no NodeID
    graphml = '\n'.join(nx.generate_graphml(bad()))
    raised = None
    try:
        imp.import_graph_from_string(graph_string=graphml, graph_id='X')
    except PropertyGraphImportException as e:
        raised = e
    after = node_ids(imp, 'X')
    print(f'{Imp.__name__}: graph X before={before}; re-import under id X raised={raised is not None} '
          f'({raised}); graph X after={after}; graph Y={node_ids(imp, "Y")}; lock held={imp.storage.lock.locked()}')
    if raised is not None and after != before:
        violation = True
        print('   ^ the rejected import destroyed the nodes that had been added to graph X')

if violation:
    print('VIOLATION: after a failing import the graph does not hold exactly the nodes added to it (all were lost)')
    sys.exit(1)
print('property held')
sys.exit(0)
