import os, sys
FIM_ROOT = os.environ.get('FIM_ROOT') or os.path.dirname(os.path.dirname(os.path.dirname(os.path.abspath(__file__))))
sys.path.insert(0, FIM_ROOT)
# C05-D6: merging two nodes that share a neighbour leaves nx's 'contraction' bookkeeping on the
# surviving link: it shows up as a link property and the graph can no longer be serialized
from fim.graph.networkx_property_graph import NetworkXGraphImporter, NetworkXPropertyGraph

imp = NetworkXGraphImporter()
g1 = NetworkXPropertyGraph(graph_id='c05d6-g1', importer=imp)
g2 = NetworkXPropertyGraph(graph_id='c05d6-g2', importer=imp)
g1.delete_graph(); g2.delete_graph()
for g in (g1, g2):
    g.add_node(node_id='a', label='NetworkNode', props={'Name': 'a'})
    g.add_node(node_id='b', label='NetworkNode', props={'Name': 'b'})
    g.add_link(node_a='a', rel='connects', node_b='b', props={'Name': 'link-of-' + g.graph_id})

print('link a-b before:', g1.get_link_properties(node_a='a', node_b='b'))
g1.serialize_graph()     # works
# stitch the two graphs on both of their common nodes, the documented use of merge_nodes
for nid in sorted(g1.find_matching_nodes(other_graph=g2)):
    g1.merge_nodes(nid, g2)
kind, props = g1.get_link_properties(node_a='a', node_b='b')
print('link a-b after :', (kind, props))
ser = None
try:
    g1.serialize_graph()
except Exception as e:
    ser = e
    print('serialize_graph after merge ->', type(e).__name__, e)
extra = set(props) - {'Name'}
if extra or ser is not None:
    print('VIOLATION: link gained properties %s that nobody set (internal node numbers of the shared store); '
          'serialize_graph failed: %s' % (sorted(extra), ser is not None))
    sys.exit(1)
print('property held')
sys.exit(0)
