import os, sys
FIM_ROOT = os.environ.get('FIM_ROOT') or os.path.abspath(os.path.join(os.path.dirname(os.path.abspath(__file__)), '..', '..'))
sys.path.insert(0, FIM_ROOT)
"""
C02: "unsetting it makes it read as absent".
unset_property('image_type') (and set_property('image_type', None), which is documented
to unset) does nothing at all: the name is missing from SLIVER_PROPERTY_TO_GRAPH, and
ModelElement.unset_property silently returns when the name cannot be mapped.
"""
from fim.user.topology import ExperimentTopology

t = ExperimentTopology()
n = t.add_node(name='n1', site='RENC')
n.set_properties(image_ref='default_rocky_8', image_type='qcow2')
print('before unset:', n.get_property('image_ref'), n.get_property('image_type'))
n.unset_property('image_type')
after1 = n.get_property('image_type')
print("after unset_property('image_type'):", repr(after1))
n.set_property('image_type', None)
after2 = n.get_property('image_type')
print("after set_property('image_type', None):", repr(after2))
if after1 is not None or after2 is not None:
    print('VIOLATION: image_type still reads as set after it was unset (no error was raised either)')
    sys.exit(1)
print('property held')
sys.exit(0)
