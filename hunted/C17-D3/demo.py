#!/usr/bin/env python3
"""C17-D3: a component that was removed and replaced by a different component of the same name is matched by name only:
NodeSliver.diff either raises (SmartNIC -> other type) or reports no difference at all."""
import os, sys
HERE = os.path.dirname(os.path.abspath(__file__))
ROOT = os.environ.get('FIM_ROOT', os.path.abspath(os.path.join(HERE, '..', '..')))
sys.path.insert(0, ROOT)

import fim.user as f
from fim.user import ComponentType

violations = []


def scenario(first, second):
    t = f.ExperimentTopology()
    n = t.add_node(name='n1', site='UKY')
    c_old = n.add_component(name='dev1', ctype=first[0], model=first[1])
    old = n.get_sliver()
    n.remove_component('dev1')                                        # edit 1: remove component
    c_new = n.add_component(name='dev1', ctype=second[0], model=second[1])   # edit 2: add another component
    new = n.get_sliver()
    so = old.attached_components_info.get_device('dev1')
    sn = new.attached_components_info.get_device('dev1')
    print(f'old dev1: {so.get_type()} {so.get_model()} id={so.node_id[:8]}   '
          f'new dev1: {sn.get_type()} {sn.get_model()} id={sn.node_id[:8]}   slivers equal: {so == sn}')
    for direction, a, b in (('old->new', old, new), ('new->old', new, old)):
        try:
            d = a.diff(b)
        except Exception as e:
            print(f'   {direction}: diff RAISED {type(e).__name__}: {e}')
            violations.append((str(first[0]), str(second[0]), direction, 'raised ' + type(e).__name__))
            continue
        if d is None:
            print(f'   {direction}: diff = None (no difference reported)')
            violations.append((str(first[0]), str(second[0]), direction, 'no difference reported'))
        else:
            print(f'   {direction}: added={[c.node_id[:8] for c in d.added.components]} '
                  f'removed={[c.node_id[:8] for c in d.removed.components]} modified={d.modified.components}')
            if not d.added.components or not d.removed.components:
                violations.append((str(first[0]), str(second[0]), direction, 'replacement not reported as remove+add'))


scenario((ComponentType.GPU, 'RTX6000'), (ComponentType.NVME, 'P4510'))
scenario((ComponentType.SmartNIC, 'ConnectX-6'), (ComponentType.GPU, 'RTX6000'))

if violations:
    print('VIOLATION: a removed and a newly added component are not reported:', violations)
    sys.exit(1)
print('property held')
sys.exit(0)
