#!/usr/bin/env python
"""C20-D1: node creation reads the shared store without the store lock; a concurrent node creation / import in ANY
graph of the shared (single nx.Graph) store makes it fail and the node is lost.

Part 1 is deterministic: thread A is pre-empted (via sys.settrace) while add_node() is scanning the store for an
existing NodeID, thread B then creates one node in a DIFFERENT graph. Part 2 is the same race left to the OS
scheduler.
"""
import os, sys, threading
sys.dont_write_bytecode = True
HERE = os.path.dirname(os.path.abspath(__file__))
ROOT = os.environ.get('FIM_ROOT', os.path.dirname(os.path.dirname(HERE)))
sys.path.insert(0, ROOT)

import networkx as nx
from fim.graph.networkx_property_graph import NetworkXGraphImporter
from fim.graph.networkx_property_graph_disjoint import NetworkXGraphImporterDisjoint


def forced(Imp, gid_a, gid_b):
    imp = Imp()
    imp.delete_all_graphs()
    ga = imp.graph_class(graph_id=gid_a, importer=imp)
    gb = imp.graph_class(graph_id=gid_b, importer=imp)
    for i in range(3):
        ga.add_node(node_id=f'a{i}', label='NetworkNode')
    go_b, b_done = threading.Event(), threading.Event()
    fired = []
    errs = {}

    def tracer(frame, event, arg):
        # first evaluation of the query predicate == the scan in add_node() has started
        if event == 'call' and not fired and 'networkx_query' in frame.f_code.co_filename \
                and frame.f_code.co_name == '<lambda>':
            fired.append(1)
            go_b.set()          # let B run one complete add_node()
            b_done.wait(10)
        return None

    def thread_a():
        sys.settrace(tracer)
        try:
            ga.add_node(node_id='a-new', label='NetworkNode')
        except BaseException as e:
            errs['A'] = e
        finally:
            sys.settrace(None)

    def thread_b():
        go_b.wait(10)
        try:
            gb.add_node(node_id='b-new', label='NetworkNode')
        except BaseException as e:
            errs['B'] = e
        finally:
            b_done.set()

    ta, tb = threading.Thread(target=thread_a), threading.Thread(target=thread_b)
    ta.start(); tb.start(); ta.join(); tb.join()
    a_nodes = sorted(ga.list_all_node_ids())
    lost = 'a-new' not in a_nodes
    print(f'  {Imp.__name__}: A adds to {gid_a}, B adds to {gid_b}: errors={ {k: repr(v) for k, v in errs.items()} } '
          f'nodes of {gid_a}={a_nodes} lock_held={imp.storage.lock.locked()}')
    return lost


def stress():
    old = sys.getswitchinterval()
    sys.setswitchinterval(1e-5)
    try:
        imp = NetworkXGraphImporter()
        imp.delete_all_graphs()
        g = nx.Graph()
        for i in range(2000):
            g.add_node(i, NodeID=f'base{i}', Class='NetworkNode')
        imp.storage.add_graph('BASE', g)
        errs = []
        per = 60

        def worker(gid):
            pg = imp.graph_class(graph_id=gid, importer=imp)
            for i in range(per):
                try:
                    pg.add_node(node_id=f'{gid}-{i}', label='NetworkNode')
                except RuntimeError as e:
                    errs.append(repr(e))

        ts = [threading.Thread(target=worker, args=(f'G{k}',)) for k in range(3)]
        [t.start() for t in ts]
        [t.join() for t in ts]
        counts = {}
        for k in range(3):
            pg = imp.graph_class(graph_id=f'G{k}', importer=imp)
            counts[f'G{k}'] = len(pg.list_all_node_ids()) if pg.graph_exists() else 0
        print(f'  3 threads x {per} add_node() into 3 different graphs: failed calls={len(errs)} '
              f'({errs[0] if errs else None}); nodes per graph={counts} (expected {per} each)')
        return len(errs) > 0 or any(v != per for v in counts.values())
    finally:
        sys.setswitchinterval(old)


print('Part 1 (forced pre-emption inside the NodeID scan of add_node):')
v1 = forced(NetworkXGraphImporter, 'GA', 'GB')          # different graphs, shared store
v2 = forced(NetworkXGraphImporterDisjoint, 'GA', 'GA')  # same graph, disjoint store
print('Part 2 (free running, shared store):')
v3 = stress()

if v1 or v2 or v3:
    print('VIOLATION: concurrent node creation loses nodes (add_node fails with '
          '"dictionary changed size during iteration"); the graphs do not end up with the nodes added to them')
    sys.exit(1)
print('property held')
sys.exit(0)
