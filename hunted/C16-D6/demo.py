#!/usr/bin/env python
"""
C16-D6: subnet prefix lengths are matched as "one or two digits" without a range check.

  * ipv4_subnet accepts /33 .. /99 (no such IPv4 prefix exists) and stores them;
  * ipv6_subnet rejects /100 .. /128 although these are valid IPv6 prefix lengths (a /128 host route,
    a /126 or /127 point-to-point subnet), so values inside the domain cannot be expressed.
Independent recogniser: Python's ipaddress module.  Exit 1 when the violation manifests.
"""
import os
import sys
import json
import ipaddress

HERE = os.path.dirname(os.path.abspath(__file__))
ROOT = os.environ.get('FIM_ROOT', os.path.dirname(os.path.dirname(HERE)))
sys.path.insert(0, ROOT)

from fim.slivers.capacities_labels import Labels


def valid(field, s):
    cls = ipaddress.IPv4Network if field == 'ipv4_subnet' else ipaddress.IPv6Network
    try:
        cls(s, strict=False)
        return '/' in s
    except ValueError:
        return False


def library_accepts(field, s, how):
    try:
        if how == 'constructor':
            lab = Labels(**{field: s})
        elif how == 'list form':
            lab = Labels(**{field: [s]})
        elif how == 'copy-with-changes':
            lab = Labels.update(Labels(), **{field: s})
        else:
            lab = Labels.from_json(json.dumps({field: s}))
        v = getattr(lab, field)
        return (v == s) or (v == [s])
    except Exception:
        return False


false_accepts = 0
false_rejects = 0
for plen in (0, 24, 32, 33, 64, 99):
    s = f'192.168.1.0/{plen}'
    for how in ('constructor', 'list form', 'copy-with-changes', 'from_json'):
        acc, exp = library_accepts('ipv4_subnet', s, how), valid('ipv4_subnet', s)
        tag = 'ok   ' if acc == exp else ('STORED out-of-domain' if acc else 'REJECTED in-domain')
        if how == 'constructor' or acc != exp:
            print(f'   {tag} ipv4_subnet={s!a} via {how}: accepted={acc}, valid={exp}')
        false_accepts += acc and not exp
        false_rejects += exp and not acc
for plen in (0, 48, 64, 99, 100, 126, 127, 128, 129):
    s = f'2001:db8::/{plen}'
    for how in ('constructor', 'list form', 'copy-with-changes', 'from_json'):
        acc, exp = library_accepts('ipv6_subnet', s, how), valid('ipv6_subnet', s)
        tag = 'ok   ' if acc == exp else ('STORED out-of-domain' if acc else 'REJECTED in-domain')
        if how == 'constructor' or acc != exp:
            print(f'   {tag} ipv6_subnet={s!a} via {how}: accepted={acc}, valid={exp}')
        false_accepts += acc and not exp
        false_rejects += exp and not acc

print(f'   out-of-domain values stored: {false_accepts}; in-domain values rejected: {false_rejects}')
if false_accepts or false_rejects:
    print('VIOLATION: subnet prefix lengths are not validated against the address family')
    sys.exit(1)
print('property held')
sys.exit(0)
