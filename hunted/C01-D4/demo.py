#!/usr/bin/env python
"""C01-D4: a model holding one property value (here: node details) longer than 10,000,000 characters cannot be serialized
to GraphML at all (the label-markup pass re-parses the text with lxml's default limits); the JSON
node-link format handles the same model."""
import os
import sys

FIM_ROOT = os.environ.get('FIM_ROOT') or os.path.dirname(os.path.dirname(os.path.dirname(os.path.abspath(__file__))))
sys.path.insert(0, FIM_ROOT)

from fim.user.topology import ExperimentTopology
from fim.slivers.capacities_labels import Capacities
from fim.graph.abc_property_graph import GraphFormat

t = ExperimentTopology()
script = 'inventory notes\n' + 'rack 0123456789\n' * 625001          # a bit over 10^7 characters
t.add_node(name='n1', site='RENC', capacities=Capacities(core=1, ram=2, disk=10), details=script)
print('details length', len(script))

violations = 0
for fmt in (GraphFormat.JSON_NODELINK, GraphFormat.GRAPHML):
    try:
        text = t.serialize(fmt=fmt)
        t2 = ExperimentTopology()
        t2.load(graph_string=text, new_graph_id='c01-d4-' + fmt.name)
        same = t2.nodes['n1'].get_property('details') == script
        print(f'{fmt.name:14s} round trip ok, value identical: {same}')
        if not same:
            violations += 1
    except Exception as e:
        print(f'{fmt.name:14s} FAILED: {type(e).__name__}: {str(e)[:160]}')
        violations += 1

if violations:
    print('VIOLATION: the model cannot be serialized to GraphML')
    sys.exit(1)
print('property held')
sys.exit(0)
