import os, sys
FIM_ROOT = os.environ.get('FIM_ROOT') or os.path.dirname(os.path.dirname(os.path.dirname(os.path.abspath(__file__))))
sys.path.insert(0, FIM_ROOT)
# C05-D5: get_first_and_second_neighbor ignores rel2 (wrong loop variable in the drop list)
from fim.graph.networkx_property_graph import NetworkXGraphImporter, NetworkXPropertyGraph
from fim.graph.networkx_property_graph_disjoint import NetworkXGraphImporterDisjoint, NetworkXPropertyGraphDisjoint

def mk(kind, gid):
    if kind == 'shared':
        g = NetworkXPropertyGraph(graph_id=gid, importer=NetworkXGraphImporter())
    else:
        g = NetworkXPropertyGraphDisjoint(graph_id=gid, importer=NetworkXGraphImporterDisjoint())
    g.delete_graph()
    return g

bad = False
for kind in ('shared', 'disjoint'):
    g = mk(kind, 'c05d5-' + kind)
    g.add_node(node_id='node', label='NetworkNode')
    g.add_node(node_id='comp', label='Component')
    g.add_node(node_id='cp-connects', label='ConnectionPoint')
    g.add_node(node_id='cp-has', label='ConnectionPoint')
    g.add_link(node_a='node', rel='has', node_b='comp')
    g.add_link(node_a='comp', rel='connects', node_b='cp-connects')
    g.add_link(node_a='comp', rel='has', node_b='cp-has')
    got = g.get_first_and_second_neighbor(node_id='node', rel1='has', node1_label='Component',
                                          rel2='connects', node2_label='ConnectionPoint')
    expected = [['comp', 'cp-connects']]
    # cross-check with the single-hop query of the same class, which does honour rel
    one_hop = g.get_first_neighbor(node_id='comp', rel='connects', node_label='ConnectionPoint')
    print(kind, 'node -has-> Component -connects-> ConnectionPoint :', sorted(got), ' expected:', expected,
          ' (get_first_neighbor(comp, connects) =', one_hop, ')')
    if sorted(got) != expected:
        bad = True
if bad:
    print("VIOLATION: a second neighbour reached over a 'has' link is returned although rel2='connects'")
    sys.exit(1)
print('property held')
sys.exit(0)
