#!/usr/bin/env python
"""
C16-D4: component names inside the documented component-name domain are rejected when the component
has interfaces.

ComponentSliver.NAME_REGEX = ^[\\w\\-_\\.\\ ]{2,255}$ allows blanks and up to 255 characters.  For
components with ports (SharedNIC, SmartNIC, FPGA) ComponentCatalog.generate_component derives the name
of the implicit network service as <node>-<component>-l2ovs and validates it with
NetworkServiceSliver.NAME_REGEX = ^[\\w\\-_\\.]{2,255}$ (no blank, same 255 limit).  So a name that is
accepted for a GPU is rejected for a NIC: 'my nic' (blank), or any name longer than
255 - len(node name) - len('--l2ovs').  Exit 1 when the violation manifests.
"""
import os
import re
import sys

HERE = os.path.dirname(os.path.abspath(__file__))
ROOT = os.environ.get('FIM_ROOT', os.path.dirname(os.path.dirname(HERE)))
sys.path.insert(0, ROOT)

from fim.user.topology import ExperimentTopology
from fim.user.node import NodeType
from fim.user.component import ComponentType
from fim.slivers.attached_components import ComponentSliver

COMPONENT_NAME = re.compile(r'[\w\-_\.\ ]{2,255}')   # documented domain of component names

topo = ExperimentTopology()
node = topo.add_node(name='node1', site='RENC', ntype=NodeType.VM)

CASES = [
    ('my gpu', ComponentType.GPU, 'RTX6000'),
    ('my nic', ComponentType.SharedNIC, 'ConnectX-6'),
    ('my smart nic', ComponentType.SmartNIC, 'ConnectX-6'),
    ('g' * 255, ComponentType.GPU, 'RTX6000'),
    ('n' * 255, ComponentType.SharedNIC, 'ConnectX-6'),
    ('m' * 245, ComponentType.SharedNIC, 'ConnectX-6'),   # 'node1-' + 245 + '-l2ovs' = 257 > 255
    ('k' * 243, ComponentType.SharedNIC, 'ConnectX-6'),   # 255 exactly: accepted
]

violations = 0
for name, ctype, model in CASES:
    short = name if len(name) < 20 else f'{name[0]}*{len(name)}'
    assert COMPONENT_NAME.fullmatch(name)
    # the sliver's own setter agrees the name is inside the domain
    ComponentSliver().set_name(name)
    try:
        node.add_component(name=name, ctype=ctype, model=model)
        print(f'   accepted  {ctype} named {short!a}')
    except Exception as e:
        print(f'   REJECTED  {ctype} named {short!a}: {type(e).__name__}: {str(e)[:60]!a}...')
        violations += 1

print('   components now in the node:', [n if len(n) < 20 else f'{n[0]}*{len(n)}' for n in node.components])

if violations:
    print(f'VIOLATION: {violations} component names inside the documented domain were rejected')
    sys.exit(1)
print('property held')
sys.exit(0)
