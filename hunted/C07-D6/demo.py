#!/usr/bin/env python3
"""C07-D6: Interface.remove_child_interface() removes a sub-interface that is attached to a service together with its
link, but leaves the service's ServicePort behind without a peer."""
import os, sys
HERE = os.path.dirname(os.path.abspath(__file__))
ROOT = os.environ.get('FIM_ROOT', os.path.abspath(os.path.join(HERE, '..', '..')))
sys.path.insert(0, ROOT)

import fim.user as f
from fim.user import ComponentType, ServiceType, Labels


def service_ports_without_single_peer(t):
    g = t.graph_model.storage.extract_graph(t.graph_model.graph_id)
    bad = []
    for n, d in g.nodes(data=True):
        if d.get('Class') == 'ConnectionPoint' and d.get('Type') == 'ServicePort':
            peers = []
            for l in g.neighbors(n):
                if g.nodes[l].get('Class') == 'Link':
                    peers += [m for m in g.neighbors(l) if m != n and g.nodes[m].get('Class') == 'ConnectionPoint']
            if len(peers) != 1:
                bad.append((d['Name'], len(peers)))
    return bad


t = f.ExperimentTopology()
n1 = t.add_node(name='n1', site='UKY')
nic1 = n1.add_component(name='nic1', ctype=ComponentType.SmartNIC, model='ConnectX-6')
port = nic1.interface_list[0]
sub = port.add_child_interface(name='sub1', labels=Labels(vlan='100'))
svc = t.add_network_service(name='net1', nstype=ServiceType.FABNetv4, interfaces=[sub])
assert service_ports_without_single_peer(t) == []
t.validate()

port.remove_child_interface(name='sub1')

bad = service_ports_without_single_peer(t)
print('after remove_child_interface("sub1"): ServicePorts with != 1 peer:', bad)
print('service net1 still lists:', [i.name for i in t.network_services['net1'].interface_list])
try:
    t.validate()
    print('topology.validate() passes')
except Exception as e:
    print('topology.validate() now fails:', str(e)[:120])

if bad:
    print('VIOLATION: every service port must have exactly one peer')
    sys.exit(1)
print('property held')
sys.exit(0)
