#!/usr/bin/env python3
"""C07/C08: unpeer() of two services that do not peer (both peer with a third one, and both are attached to one NIC) must raise
'do not peer' and leave the model alone. Before fix 84b4990 it deleted the ports joining them to the NIC. Exit 1 = violated."""
import os, sys
ROOT = os.environ.get('FIM_ROOT') or os.path.dirname(os.path.dirname(os.path.dirname(os.path.abspath(__file__))))
sys.path.insert(0, ROOT)
from fim.user.topology import ExperimentTopology
from fim.user.network_service import ServiceType
from fim.user.component import ComponentModelType
t = ExperimentTopology()
n1 = t.add_node(name='n1', site='RENC'); n2 = t.add_node(name='n2', site='RENC')
c1 = n1.add_component(name='nic1', model_type=ComponentModelType.SmartNIC_ConnectX_6)
c2 = n2.add_component(name='nic2', model_type=ComponentModelType.SmartNIC_ConnectX_6)
f1 = t.add_network_service(name='fab1', nstype=ServiceType.FABNetv4, interfaces=[c1.interface_list[0]])
f2 = t.add_network_service(name='fab2', nstype=ServiceType.FABNetv4, interfaces=[c2.interface_list[0]])
f3 = t.add_network_service(name='fab3', nstype=ServiceType.FABNetv4, interfaces=[c2.interface_list[1]])
f1.peer(f2); f1.peer(f3)
before = sorted(i.name for s in ('fab2', 'fab3') for i in t.network_services[s].interface_list)
try:
    f2.unpeer(f3)
    print('unpeer of two services that do not peer was accepted')
    bad = True
except Exception as e:
    print('rejected:', e)
    bad = False
after = sorted(i.name for s in ('fab2', 'fab3') for i in t.network_services[s].interface_list)
print('ports before', before); print('ports after ', after)
sys.exit(1 if bad or before != after else 0)
