"""C14-D6: a merge that is rejected half-way (a shared element delegated by both sides) leaves the combined model
partially merged - elements record a contributor whose model is not in the combined model - and leaves the temporary
working clone of the delegation model behind in the store."""
import os, sys, json
HERE = os.path.dirname(os.path.abspath(__file__))
ROOT = os.environ.get("FIM_ROOT", os.path.dirname(os.path.dirname(HERE)))
sys.path.insert(0, ROOT)

from fim.graph.networkx_property_graph import NetworkXPropertyGraph, NetworkXGraphImporter
from fim.graph.resources.abc_cbm import ABCCBMPropertyGraph
from fim.graph.resources.networkx_adm import NetworkXADMGraph
import fim.graph.resources.neo4j_cbm as ncbm

# The library ships the combined-model logic only in Neo4jCBMGraph; it is written against the
# abstract graph interface, so it is bound here to the in-memory shared store (no Neo4j needed).
# merge_adm "typecasts" its temporary clone to Neo4jADMGraph; the in-memory equivalent is used.
ncbm.Neo4jADMGraph = NetworkXADMGraph


class NxCBM(NetworkXPropertyGraph, ABCCBMPropertyGraph):
    _update_node_delegations = ncbm.Neo4jCBMGraph._update_node_delegations
    merge_adm = ncbm.Neo4jCBMGraph.merge_adm
    unmerge_adm = ncbm.Neo4jCBMGraph.unmerge_adm
    get_bqm = ncbm.Neo4jCBMGraph.get_bqm
    get_delegations = ncbm.Neo4jCBMGraph.get_delegations
    DELEGATION_TYPE_TO_PROP_NAME = ncbm.Neo4jCBMGraph.DELEGATION_TYPE_TO_PROP_NAME

    def get_matching_nodes_with_components(self, **kw): raise NotImplementedError
    def get_intersite_links(self): raise NotImplementedError
    def get_sites(self): raise NotImplementedError
    def get_disconnected_sites(self): raise NotImplementedError
    def get_connected_sites(self): raise NotImplementedError
    def get_facility_ports(self): raise NotImplementedError


def cap_deleg(did):
    return json.dumps({did: {"pool_id": "_", "capacities": {"unit": 1}}})


def make_adm(imp, gid, nodes, links):
    """nodes: {node_id: (label, extra props)}, links: [(a, rel, b)] - built with add_node/add_link"""
    adm = NetworkXADMGraph(graph_id=gid, importer=imp)
    for nid, (label, props) in nodes.items():
        p = {'Name': nid}
        p.update(props)
        adm.add_node(node_id=nid, label=label, props=p)
    for a, rel, b in links:
        adm.add_link(node_a=a, rel=rel, node_b=b)
    return adm


def observe(g):
    """canonical content of a graph through the public interface: nodes by NodeID, links by NodeID pair"""
    if not g.graph_exists():
        return {}, {}
    ids = sorted(g.list_all_node_ids())
    nodes = {}
    for n in ids:
        labels, props = g.get_node_properties(node_id=n)
        nodes[n] = (labels[0], props)
    links = {}
    for i, a in enumerate(ids):
        for b in ids[i + 1:]:
            try:
                kind, props = g.get_link_properties(node_a=a, node_b=b)
            except Exception:
                continue
            links[(a, b)] = (kind, props)
    return nodes, links


def diff(before, after):
    out = []
    for what, x, y in (('node', before[0], after[0]), ('link', before[1], after[1])):
        for k in sorted(set(x) | set(y), key=str):
            if x.get(k) != y.get(k):
                out.append(f"  {what} {k}:\n     before: {x.get(k)}\n     after : {y.get(k)}")
    return out


imp = NetworkXGraphImporter()
imp.delete_all_graphs()

N = 40  # many uncontested shared elements, one contested one (iteration order over shared ids is a set order)
shared_ok = {f'stitch{i:02d}': ('ConnectionPoint', {'StitchNode': 'true'}) for i in range(N)}
y_nodes = {'y-sw': ('NetworkNode', {'CapacityDelegations': cap_deleg('y')}),
           'contested': ('ConnectionPoint', {'StitchNode': 'true', 'CapacityDelegations': cap_deleg('y')})}
y_nodes.update(shared_ok)
x_nodes = {'x-sw': ('NetworkNode', {'CapacityDelegations': cap_deleg('x')}),
           'contested': ('ConnectionPoint', {'StitchNode': 'true', 'CapacityDelegations': cap_deleg('x')})}
x_nodes.update(shared_ok)
Y = make_adm(imp, 'ADM-Y', y_nodes, [('y-sw', 'connects', n) for n in y_nodes if n != 'y-sw'])
X = make_adm(imp, 'ADM-X', x_nodes, [('x-sw', 'connects', n) for n in x_nodes if n != 'x-sw'])

def graph_ids_in_store():
    g = imp.storage.get_graph(None)
    return sorted({d['GraphID'] for _, d in g.nodes(data=True)})

cbm = NxCBM(graph_id='CBM', importer=imp)
cbm.merge_adm(adm=Y)
before = observe(cbm)
store_before = graph_ids_in_store()
try:
    cbm.merge_adm(adm=X)
    print("merge accepted?!")
except Exception as e:
    print("merge of ADM-X rejected:", type(e).__name__, e)
after = observe(cbm)
store_after = graph_ids_in_store()

bad = False
changed = [n for n in after[0] if before[0].get(n) != after[0][n]]
if changed:
    si = json.loads(after[0][changed[0]][1]['StructuralInfo'])
    print(f"VIOLATION: rejected merge changed {len(changed)} of {len(after[0])} elements of the combined model, e.g. "
          f"{changed[0]} now records contributors {si['adm_graph_ids']} although 'x-sw' in CBM = "
          f"{'x-sw' in after[0]}")
    bad = True
leaked = sorted(set(store_after) - set(store_before))
if leaked:
    print("VIOLATION: temporary clone left behind in the store under graph id(s)", leaked)
    bad = True
sys.exit(1 if bad else 0)
