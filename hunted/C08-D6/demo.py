import os, sys
HERE = os.path.dirname(os.path.abspath(__file__))
FIM_ROOT = os.environ.get('FIM_ROOT', os.path.dirname(os.path.dirname(HERE)))
sys.path.insert(0, FIM_ROOT)

import fim.user as f


def snapshot(t):
    """node_id -> (Class, Name, Type) and the set of edges of topology t (NetworkX store)."""
    gm = t.graph_model
    g = gm.storage.get_graph(gm.graph_id)
    nodes, edges = {}, set()
    for n, d in g.nodes(data=True):
        if d.get('GraphID') == gm.graph_id:
            nodes[d['NodeID']] = (d.get('Class'), d.get('Name'), d.get('Type'))
    for a, b in g.edges():
        if g.nodes[a].get('GraphID') == gm.graph_id:
            edges.add(frozenset((g.nodes[a]['NodeID'], g.nodes[b]['NodeID'])))
    return nodes, edges


def dangling_service_ports(t):
    """ServicePorts that are not attached to any Link."""
    nodes, edges = snapshot(t)
    out = []
    for nid, (clazz, name, typ) in nodes.items():
        if clazz == 'ConnectionPoint' and typ == 'ServicePort':
            nbrs = [next(iter(e - {nid})) for e in edges if nid in e and len(e) == 2]
            if not any(nodes[x][0] == 'Link' for x in nbrs):
                out.append(name)
    return sorted(out)


def removed(before, after):
    return sorted(before[0][k] for k in before[0] if k not in after[0])

# ExperimentTopology.prune() of a NIC port (or of a component's service) that is connected to a service
from fim.slivers.capacities_labels import ReservationInfo
t = f.ExperimentTopology()
n1 = t.add_node(name='Node1', site='RENC')
n2 = t.add_node(name='Node2', site='RENC')
nic1 = n1.add_component(ctype=f.ComponentType.SmartNIC, model='ConnectX-6', name='nic1')
nic2 = n2.add_component(ctype=f.ComponentType.SmartNIC, model='ConnectX-6', name='nic1')
net = t.add_network_service(name='netA', nstype=f.ServiceType.L2Bridge,
                            interfaces=[nic1.interface_list[0], nic2.interface_list[0]])
nic1.interface_list[0].set_properties(reservation_info=ReservationInfo(reservation_id='r1',
                                                                      reservation_state='Failed'))
before = snapshot(t)
t.prune('Failed')
after = snapshot(t)
print('pruned:', removed(before, after))
d = dangling_service_ports(t)
print('netA ports now:', sorted(i.name for i in t.network_services['netA'].interface_list), ' dangling:', d)
if 'Node1-nic1-p1' in d:
    print('VIOLATION: pruning interface nic1-p1 deleted it and its link but left the service port '
          'Node1-nic1-p1 created for it in netA')
    sys.exit(1)
print('property held')
sys.exit(0)
