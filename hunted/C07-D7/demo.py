#!/usr/bin/env python3
"""C07: names are unique in their scope. Two handles of one service each add an interface named 'if1'. Before fix 503cf6d the
second add was accepted (the guard read the handle's cached list). Exit 1 = violated."""
import os, sys
ROOT = os.environ.get('FIM_ROOT') or os.path.dirname(os.path.dirname(os.path.dirname(os.path.abspath(__file__))))
sys.path.insert(0, ROOT)
from fim.user.topology import ExperimentTopology
from fim.user.network_service import ServiceType
from fim.user.interface import InterfaceType
t = ExperimentTopology()
s1 = t.add_network_service(name='svc', nstype=ServiceType.L2Bridge, interfaces=[])
s2 = t.network_services['svc']
s1.add_interface(name='if1', itype=InterfaceType.ServicePort)
try:
    s2.add_interface(name='if1', itype=InterfaceType.ServicePort)
    print('second interface named if1 accepted')
except Exception as e:
    print('rejected:', e)
names = [i.name for i in t.network_services['svc'].interface_list]
print(names)
sys.exit(1 if len(names) != len(set(names)) else 0)
