#!/usr/bin/env python
"""C20-D2: the disjoint store's extract_graph() releases the store lock BEFORE copying the graph, the shared store
copies while holding it. extract_graph() (and clone_graph/serialize_graph built on it) therefore fails in the
disjoint store whenever another thread creates a node in that graph at the same time.

Part 1 is deterministic (thread A pre-empted with sys.settrace inside graph.copy()), part 2 free running.
"""
import os, sys, threading
sys.dont_write_bytecode = True
HERE = os.path.dirname(os.path.abspath(__file__))
ROOT = os.environ.get('FIM_ROOT', os.path.dirname(os.path.dirname(HERE)))
sys.path.insert(0, ROOT)

import networkx as nx
from fim.graph.networkx_property_graph import NetworkXGraphImporter
from fim.graph.networkx_property_graph_disjoint import NetworkXGraphImporterDisjoint


def base_graph(n):
    g = nx.Graph()
    for i in range(n):
        g.add_node(i, NodeID=f'base{i}', Class='NetworkNode')
    return g


def forced(Imp):
    imp = Imp()
    imp.delete_all_graphs()
    st = imp.storage
    st.add_graph('G', base_graph(5))
    go_b, b_done = threading.Event(), threading.Event()
    fired, errs, out = [], {}, {}

    def tracer(frame, event, arg):
        # the generator expression inside networkx Graph.copy()/add_nodes_from that walks the node dict
        if event == 'call' and not fired and frame.f_code.co_name == '<genexpr>' \
                and frame.f_code.co_filename.endswith(os.path.join('classes', 'graph.py')):
            fired.append(1)
            go_b.set()
            b_done.wait(3)     # B is blocked on the store lock in the shared store: give up after 3 s
        return None

    def thread_a():
        sys.settrace(tracer)
        try:
            out['g'] = st.extract_graph('G')
        except BaseException as e:
            errs['A'] = e
        finally:
            sys.settrace(None)
            go_b.set()         # never pre-empted (shared store copies differently): do not keep B waiting

    def thread_b():
        go_b.wait(10)
        try:
            out['id'] = st.add_blank_node_to_graph('G', Class='NetworkNode', NodeID='new')
        except BaseException as e:
            errs['B'] = e
        finally:
            b_done.set()

    ta, tb = threading.Thread(target=thread_a), threading.Thread(target=thread_b)
    ta.start(); tb.start(); ta.join(); tb.join()
    print(f'  {Imp.__name__}: pre-empted in copy={bool(fired)} errors={ {k: repr(v) for k, v in errs.items()} } '
          f'extract returned={"graph with %d nodes" % len(out["g"].nodes) if "g" in out else None}')
    return 'A' in errs


def stress(Imp):
    old = sys.getswitchinterval()
    sys.setswitchinterval(1e-5)
    try:
        imp = Imp()
        imp.delete_all_graphs()
        st = imp.storage
        st.add_graph('G', base_graph(3000))
        errs, stop = [], threading.Event()

        def creator():
            i = 0
            while not stop.is_set() and i < 5000:
                st.add_blank_node_to_graph('G', Class='NetworkNode', NodeID=f'n{i}')
                i += 1

        def extractor():
            for _ in range(30):
                try:
                    st.extract_graph('G')
                except RuntimeError as e:
                    errs.append(repr(e))
            stop.set()

        ts = [threading.Thread(target=creator), threading.Thread(target=extractor)]
        [t.start() for t in ts]
        [t.join() for t in ts]
        print(f'  {Imp.__name__}: 30 extract_graph() calls racing add_blank_node_to_graph(): failed={len(errs)} '
              f'{errs[0] if errs else ""}')
        return len(errs) > 0
    finally:
        sys.setswitchinterval(old)


print('Part 1 (forced pre-emption inside the copy made by extract_graph):')
s1 = forced(NetworkXGraphImporter)
d1 = forced(NetworkXGraphImporterDisjoint)
print('Part 2 (free running):')
s2 = stress(NetworkXGraphImporter)
d2 = stress(NetworkXGraphImporterDisjoint)

if s1 or s2:
    print('note: the shared store failed as well')
if d1 or d2 or s1 or s2:
    print('VIOLATION: a store call fails under concurrent node creation - extract_graph of the disjoint store copies '
          'the graph outside the lock (the shared store, which copies under the lock, is not affected)')
    sys.exit(1)
print('property held')
sys.exit(0)
