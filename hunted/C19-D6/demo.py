#!/usr/bin/env python3
"""
C19-D6: Neo4jCBMGraph.get_matching_nodes_with_components() with an empty props dictionary
(allowed: the method only asserts props is not None) builds the node pattern
    (n:GraphNode:<label> {GraphID: $graphId,  })
i.e. a map literal that ends in a comma, which Cypher rejects as a syntax error.

No Neo4j server is needed: the real backend class is given a stand-in driver that records the
(statement, parameters) pairs it is handed; the map literals of the statement are then checked to be
comma-separated "key: expression" entries.
Exit status 1 = malformed statement on the tree under test, 0 = the property held.
"""
import os
import sys
import logging

HERE = os.path.dirname(os.path.abspath(__file__))
FIM_ROOT = os.environ.get('FIM_ROOT', os.path.abspath(os.path.join(HERE, '..', '..')))
sys.path.insert(0, FIM_ROOT)

from fim.graph.neo4j_property_graph import Neo4jPropertyGraph, Neo4jGraphImporter  # noqa: E402


# ---------------------------------------------------------------- stand-in driver
class _Result:
    """Answers every accessor the backend uses with something harmless."""
    def single(self): return None
    def value(self): return [1]
    def values(self): return []
    def data(self): return [{'nodes': [], 'nodes1': []}]
    def peek(self): return 1
    def __iter__(self): return iter([])


class _Session:
    def __init__(self, log): self.log = log
    def __enter__(self): return self
    def __exit__(self, *a): return False

    def run(self, query, parameters=None, **kwparameters):
        self.log.append((query, dict(parameters or {}, **kwparameters)))
        return _Result()


class _Driver:
    def __init__(self): self.log = []
    def session(self): return _Session(self.log)
    def close(self): pass


def make_graph(cls=Neo4jPropertyGraph, graph_id='g1'):
    """A real backend object whose driver only records (statement, parameters)."""
    importer = Neo4jGraphImporter.__new__(Neo4jGraphImporter)   # no server: skip connecting
    importer.driver = _Driver()
    importer.log = logging.getLogger('demo')
    g = cls(graph_id=graph_id, importer=importer)
    return g, importer.driver.log


# ---------------------------------------------------------------- tiny Cypher lexer
_ESC = {'\\': '\\', "'": "'", '"': '"', 'n': '\n', 't': '\t', 'r': '\r', 'b': '\b', 'f': '\f'}


def lex(stmt):
    """Split a Cypher statement into its skeleton (text with every string literal replaced
    by '?') and the list of decoded string literals. Raises ValueError when a string
    literal or a back-quoted name is not terminated."""
    skeleton, literals, i, n = [], [], 0, len(stmt)
    while i < n:
        ch = stmt[i]
        if ch in ('"', "'"):
            quote, i, buf = ch, i + 1, []
            while True:
                if i >= n:
                    raise ValueError(f'unterminated string literal opened with {quote}')
                c = stmt[i]
                if c == '\\':
                    if i + 1 >= n:
                        raise ValueError('dangling backslash in string literal')
                    nxt = stmt[i + 1]
                    if nxt in ('u', 'U'):
                        width = 4 if nxt == 'u' else 8
                        buf.append(chr(int(stmt[i + 2:i + 2 + width], 16)))
                        i += 2 + width
                    else:
                        # Cypher only defines the escapes in _ESC; anything else is an error there,
                        # we keep the character so the comparison below still fails visibly
                        buf.append(_ESC.get(nxt, '<bad-escape:' + nxt + '>'))
                        i += 2
                elif c == quote:
                    i += 1
                    break
                else:
                    buf.append(c)
                    i += 1
            literals.append(''.join(buf))
            skeleton.append('?')
        elif ch == '`':
            j = stmt.find('`', i + 1)
            if j < 0:
                raise ValueError('unterminated back-quoted name')
            skeleton.append(stmt[i:j + 1])
            i = j + 1
        else:
            skeleton.append(ch)
            i += 1
    return ''.join(skeleton), literals

import re  # noqa: E402
from fim.graph.resources.neo4j_cbm import Neo4jCBMGraph  # noqa: E402
from fim.slivers.attached_components import AttachedComponentsInfo, ComponentSliver, ComponentType  # noqa: E402


def map_literal_problems(stmt):
    """Problems of the {...} map literals in the statement text outside string literals."""
    skeleton, _ = lex(stmt)
    problems = []
    for m in re.finditer(r'\{([^{}]*)\}', skeleton):
        inner = m.group(1)
        if not inner.strip():
            continue
        for entry in inner.split(','):
            if not re.fullmatch(r'\s*[A-Za-z_][A-Za-z0-9_]*\s*:\s*\S.*', entry, re.S):
                problems.append(f'map literal {m.group(0)!r} has an entry {entry!r} that is not "key: expression" '
                                f'(Cypher map literals take no empty entry / trailing comma)')
    return problems


g, log = make_graph(Neo4jCBMGraph)
bad = 0

print('1. no property constraints, no components: get_matching_nodes_with_components(label=NetworkNode, props={})')
g.get_matching_nodes_with_components(label='NetworkNode', props={})
stmt, params = log[-1]
print('   statement : ' + stmt)
print(f'   parameters: {params}')
for p in map_literal_problems(stmt):
    bad += 1
    print('   VIOLATION : ' + p)

print('2. no property constraints, one GPU component')
comps = AttachedComponentsInfo()
cs = ComponentSliver()
cs.set_name('gpu1')
cs.set_type(ComponentType.GPU)
cs.set_model('RTX6000')
comps.add_device(cs)
g.get_matching_nodes_with_components(label='NetworkNode', props={}, comps=comps)
stmt, params = log[-1]
print('   statement : ' + stmt)
print(f'   parameters: {params}')
for p in map_literal_problems(stmt):
    bad += 1
    print('   VIOLATION : ' + p)

print('3. control, one property constraint')
g.get_matching_nodes_with_components(label='NetworkNode', props={'Site': 'RENC'})
stmt, params = log[-1]
print('   statement : ' + stmt)
ctl = map_literal_problems(stmt)
print('   ' + ('ok' if not ctl else 'unexpected: ' + str(ctl)))

print()
if bad:
    print('the statement built for an empty props dictionary is not well-formed Cypher: property violated')
    sys.exit(1)
print('statements are well-formed: property held')
sys.exit(0)
