#!/usr/bin/env python3
"""C17-D1: NetworkServiceSliver.diff flags SUB_INTERFACES on a DedicatedPort whose own labels/capacities/user data
changed although its sub-interfaces are untouched (or it has none)."""
import os, sys, copy
HERE = os.path.dirname(os.path.abspath(__file__))
ROOT = os.environ.get('FIM_ROOT', os.path.abspath(os.path.join(HERE, '..', '..')))
sys.path.insert(0, ROOT)

from fim.slivers.network_service import NetworkServiceSliver, ServiceType
from fim.slivers.interface_info import InterfaceSliver, InterfaceInfo, InterfaceType
from fim.slivers.capacities_labels import Labels, Capacities
from fim.slivers.json_data import UserData
from fim.slivers.topology_diff import WhatsModifiedFlag


def port(name, nid, itype, labels=None, subs=()):
    i = InterfaceSliver()
    i.node_id = nid
    i.set_name(name)
    i.set_type(itype)
    i.set_labels(labels)
    if subs:
        ii = InterfaceInfo()
        for s in subs:
            ii.add_interface(s)
        i.interface_info = ii
    return i


def service(ports):
    s = NetworkServiceSliver()
    s.node_id = 'ns-1'
    s.set_name('nic1-l2ovs')
    s.set_type(ServiceType.OVS)
    ii = InterfaceInfo()
    for p in ports:
        ii.add_interface(p)
    s.interface_info = ii
    return s


violations = []
edits = {
    'labels': (lambda p: p.set_labels(Labels(local_name='p1', vlan='200')), WhatsModifiedFlag.LABELS),
    'capacities': (lambda p: p.set_capacities(Capacities(bw=25)), WhatsModifiedFlag.CAPACITIES),
    'user_data': (lambda p: p.set_user_data(UserData({'k': 'v'})), WhatsModifiedFlag.USER_DATA),
}
for with_subs in (False, True):
    for what, (edit, expected) in edits.items():
        subs = [port('sub1', 'sub-1', InterfaceType.SubInterface, Labels(vlan='100'))] if with_subs else []
        old = service([port('nic1-p1', 'p-1', InterfaceType.DedicatedPort, Labels(local_name='p1'), subs),
                       port('nic1-p2', 'p-2', InterfaceType.DedicatedPort, Labels(local_name='p2'))])
        new = copy.deepcopy(old)
        assert old.diff(new) is None
        edit(new.interface_info.get_interface('nic1-p1'))      # the ONLY edit; sub-interfaces untouched
        d = old.diff(new)
        got = {i.resource_name: fl for i, fl in d.modified.interfaces}
        print(f'edit {what:10s} on DedicatedPort nic1-p1 (sub-interfaces: {len(subs)}): reported {got}, expected '
              f"{{'nic1-p1': {expected!r}}}")
        if got != {'nic1-p1': expected}:
            violations.append((what, with_subs, got))

if violations:
    print('VIOLATION: diff reports a sub-interface change that did not happen:', violations)
    sys.exit(1)
print('property held')
sys.exit(0)
