#!/usr/bin/env python3
"""C17-D2: NodeSliver.diff looks for sub-interface changes only under SmartNIC components; the same edit under an FPGA
component (whose ports are DedicatedPorts and accept add_child_interface) is reported as 'no difference'."""
import os, sys
HERE = os.path.dirname(os.path.abspath(__file__))
ROOT = os.environ.get('FIM_ROOT', os.path.abspath(os.path.join(HERE, '..', '..')))
sys.path.insert(0, ROOT)

import fim.user as f
from fim.user import ComponentType, Labels
from fim.slivers.topology_diff import WhatsModifiedFlag


def run(ctype, model):
    t = f.ExperimentTopology()
    n = t.add_node(name='n1', site='UKY')
    c = n.add_component(name='dev1', ctype=ctype, model=model)
    p = c.interface_list[0]
    old = n.get_sliver()
    p.add_child_interface(name='sub1', labels=Labels(vlan='100'))          # edit 1: add a sub-interface
    mid = n.get_sliver()
    p.interfaces['sub1'].labels = Labels(vlan='200', local_name=p.labels.local_name)   # edit 2: change it
    mid2 = n.get_sliver()
    p.remove_child_interface(name='sub1')                                    # edit 3: remove it
    new = n.get_sliver()
    res = []
    for what, a, b in (('add sub-interface', old, mid), ('modify sub-interface', mid, mid2),
                       ('remove sub-interface', mid2, new)):
        d = a.diff(b)
        flags = {cs.resource_name: fl for cs, fl in d.modified.components} if d else None
        print(f'  {str(ctype):8s} port type {p.type}: {what:22s} -> diff = {flags}')
        res.append(flags)
    return res


print('control (SmartNIC):')
smart = run(ComponentType.SmartNIC, 'ConnectX-6')
print('FPGA:')
fpga = run(ComponentType.FPGA, 'Xilinx-U280')

expected = {'dev1': WhatsModifiedFlag.SUB_INTERFACES}
ok_control = all(r == expected for r in smart)
missed = [r for r in fpga if r != expected]
print('control reports every edit:', ok_control)
if missed:
    print(f'VIOLATION: {len(missed)} of 3 sub-interface edits under the FPGA component are not reported '
          f'(diff returned {missed})')
    sys.exit(1)
print('property held')
sys.exit(0)
