#!/usr/bin/env python3
"""C07-D1: rename() / name setter accept a name already used by a sibling -> duplicate names in one scope."""
import os, sys, collections
HERE = os.path.dirname(os.path.abspath(__file__))
ROOT = os.environ.get('FIM_ROOT', os.path.abspath(os.path.join(HERE, '..', '..')))
sys.path.insert(0, ROOT)

import fim.user as f
from fim.user import ComponentType, ServiceType


def names_by_class(t, clazz):
    g = t.graph_model.storage.extract_graph(t.graph_model.graph_id)
    return [d['Name'] for _, d in g.nodes(data=True) if d.get('Class') == clazz]


def top_level_service_names(t):
    g = t.graph_model.storage.extract_graph(t.graph_model.graph_id)
    ret = []
    for n, d in g.nodes(data=True):
        if d.get('Class') != 'NetworkService':
            continue
        owned = [m for m in g.neighbors(n) if g.edges[(n, m)].get('Class') == 'has']
        if not owned:
            ret.append(d['Name'])
    return ret


def component_names(t, node):
    g = t.graph_model.storage.extract_graph(t.graph_model.graph_id)
    real = [n for n, d in g.nodes(data=True) if d.get('NodeID') == node.node_id][0]
    return [g.nodes[m]['Name'] for m in g.neighbors(real) if g.nodes[m].get('Class') == 'Component']


violations = []

# 1. nodes: rename()
t = f.ExperimentTopology()
n1 = t.add_node(name='n1', site='UKY')
n2 = t.add_node(name='n2', site='UKY')
n2.rename('n1')
names = names_by_class(t, 'NetworkNode')
print('node names in model after n2.rename("n1"):', names, ' topology.nodes view:', list(t.nodes.keys()))
if len(names) != len(set(names)):
    violations.append('duplicate node names after rename()')
if len(t.nodes) != len(names):
    violations.append(f'topology.nodes lists {len(t.nodes)} nodes, model has {len(names)}')

# 2. nodes: name setter
t = f.ExperimentTopology()
n1 = t.add_node(name='n1', site='UKY')
n2 = t.add_node(name='n2', site='UKY')
n2.name = 'n1'
names = names_by_class(t, 'NetworkNode')
print('node names in model after n2.name = "n1":', names)
if len(names) != len(set(names)):
    violations.append('duplicate node names after name setter')

# 3. components within a node
t = f.ExperimentTopology()
n1 = t.add_node(name='n1', site='UKY')
c1 = n1.add_component(name='gpu1', ctype=ComponentType.GPU, model='RTX6000')
c2 = n1.add_component(name='gpu2', ctype=ComponentType.GPU, model='RTX6000')
c2.rename('gpu1')
names = component_names(t, n1)
print('component names of n1 after gpu2.rename("gpu1"):', names, ' node.components view:', list(n1.components.keys()))
if len(names) != len(set(names)):
    violations.append('duplicate component names within a node after rename()')

# 4. slice-wide network services
t = f.ExperimentTopology()
s1 = t.add_network_service(name='br1', nstype=ServiceType.L2Bridge)
s2 = t.add_network_service(name='br2', nstype=ServiceType.L2Bridge)
s2.rename('br1')
names = top_level_service_names(t)
print('top-level service names after br2.rename("br1"):', names)
if len(names) != len(set(names)):
    violations.append('duplicate slice-wide service names after rename()')

if violations:
    print('VIOLATION:', violations)
    sys.exit(1)
print('property held')
sys.exit(0)
