#!/usr/bin/env python3
"""
C14: unmerging a model must remove exactly what only it contributed. Here models A and B each contribute one stitch
node (sA, sB); model N contributes both stitch nodes AND the relationship between them. After merging A, B, N and
unmerging N the relationship sA-sB (which only N contributed) is still in the combined model: merge followed by unmerge
does not restore the previous combined model. Exit 1 = violated.
"""
import os, sys, logging
HERE = os.path.dirname(os.path.abspath(__file__))
ROOT = os.environ.get('FIM_ROOT') or os.path.dirname(os.path.dirname(os.path.dirname(HERE)))
sys.path.insert(0, ROOT)
logging.disable(logging.CRITICAL)
from fim.graph.networkx_property_graph import NetworkXPropertyGraph, NetworkXGraphImporter
from fim.graph.resources.abc_cbm import ABCCBMPropertyGraph
from fim.graph.resources.networkx_adm import NetworkXADMGraph
import fim.graph.resources.neo4j_cbm as n4cbm
n4cbm.Neo4jADMGraph = NetworkXADMGraph


class NxCBM(NetworkXPropertyGraph, ABCCBMPropertyGraph):
    for _n, _v in vars(n4cbm.Neo4jCBMGraph).items():
        if _n in ('merge_adm', 'unmerge_adm', 'get_delegations', 'DELEGATION_TYPE_TO_PROP_NAME') or \
                (_n.startswith('_') and not _n.startswith('__') and _n != '_abc_impl'):
            locals()[_n] = _v
    del _n, _v
    def get_bqm(self, **kw): raise NotImplementedError
    def get_matching_nodes_with_components(self, **kw): raise NotImplementedError
    def get_intersite_links(self): raise NotImplementedError
    def get_sites(self): raise NotImplementedError
    def get_disconnected_sites(self): raise NotImplementedError
    def get_connected_sites(self): raise NotImplementedError
    def get_facility_ports(self): raise NotImplementedError


def adm(imp, gid, stitches, edge=None):
    g = NetworkXADMGraph(graph_id=gid, importer=imp)
    for s in stitches:
        g.add_node(node_id=s, label='ConnectionPoint', props={'Name': s, 'Type': 'FacilityPort', 'StitchNode': 'true'})
    if edge:
        g.add_node(node_id='n1', label='NetworkNode', props={'Name': 'n1', 'Type': 'Switch'})
        g.add_link(node_a='n1', rel='connects', node_b=edge[0])
        g.add_link(node_a=edge[0], rel='connects', node_b=edge[1])
    return g


def edges(imp, gid):
    g = imp.storage.extract_graph(gid)
    return sorted(tuple(sorted((g.nodes[a]['NodeID'], g.nodes[b]['NodeID']))) for a, b in g.edges())


imp = NetworkXGraphImporter()
imp.delete_all_graphs()
A = adm(imp, 'adm-A', ['sA'])
B = adm(imp, 'adm-B', ['sB'])
N = adm(imp, 'adm-N', ['sA', 'sB'], edge=('sA', 'sB'))
cbm = NxCBM(graph_id='cbm', importer=imp)
cbm.merge_adm(adm=A)
cbm.merge_adm(adm=B)
before = edges(imp, 'cbm')
cbm.merge_adm(adm=N)
during = edges(imp, 'cbm')
cbm.unmerge_adm(graph_id='adm-N')
after = edges(imp, 'cbm')
print('relationships before merging N :', before)
print('relationships with N merged    :', during)
print('relationships after unmerging N:', after)
if after != before:
    print('VIOLATION: the relationship only N contributed is still there after N was unmerged')
    sys.exit(1)
sys.exit(0)
