#!/usr/bin/env python3
"""
C09-D3: Topology.add_node(..., ns_info=NetworkServiceInfo) - the Node constructor's ns_info argument - adds the
node first and its network services afterwards: when the k-th service (or one of its interfaces) has an id
that is already in use the call raises, but the node and the services before the bad one stay in the model.

Uses the NetworkX-backed ExperimentTopology. The model is snapshotted (all nodes, edges and their
properties) before the failing call and again after the exception.
Exit status 1 = the model differs after a call that raised, 0 = the property held.
"""
import os
import sys

HERE = os.path.dirname(os.path.abspath(__file__))
FIM_ROOT = os.environ.get('FIM_ROOT', os.path.abspath(os.path.join(HERE, '..', '..')))
sys.path.insert(0, FIM_ROOT)

import fim.user as fu  # noqa: E402
from fim.user.topology import ExperimentTopology  # noqa: E402


def snapshot(topo):
    """Canonical snapshot of the model: every graph node with all its properties and every edge
    (by the NodeIDs of its ends) with all its properties."""
    g = topo.graph_model.storage.extract_graph(topo.graph_model.graph_id)
    if g is None:
        return frozenset(), frozenset()
    nodes = frozenset((g.nodes[n]['NodeID'], tuple(sorted((k, str(v)) for k, v in g.nodes[n].items())))
                      for n in g.nodes)
    edges = frozenset((frozenset((g.nodes[a]['NodeID'], g.nodes[b]['NodeID'])),
                       tuple(sorted((k, str(v)) for k, v in d.items())))
                      for a, b, d in g.edges(data=True))
    return nodes, edges


def describe(topo, node_id):
    labels, props = topo.graph_model.get_node_properties(node_id=node_id)
    return f"{labels[0] if labels else props.get('Class')} name={props.get('Name')!r} type={props.get('Type')} id={node_id}"


def report_difference(topo, before, after):
    """Print what changed between two snapshots; returns True when something changed."""
    if before == after:
        print('    model unchanged')
        return False
    props_before = dict(before[0])
    props_after = dict(after[0])
    for nid in sorted(set(props_after) - set(props_before)):
        print('    LEFT BEHIND : ' + describe(topo, nid))
    for nid in sorted(set(props_before) - set(props_after)):
        d = dict(props_before[nid])
        print(f"    REMOVED     : {d.get('Class')} name={d.get('Name')!r} type={d.get('Type')} id={nid}")
    for nid in sorted(set(props_before) & set(props_after)):
        if props_before[nid] != props_after[nid]:
            b, a = dict(props_before[nid]), dict(props_after[nid])
            for k in sorted(set(b) | set(a)):
                if b.get(k) != a.get(k):
                    print(f"    CHANGED     : {b.get('Class')} {b.get('Name')!r}: property {k}: {b.get(k)!r} -> {a.get(k)!r}")
    print(f'    edges added: {len(after[1] - before[1])}, edges removed: {len(before[1] - after[1])}')
    return True


def failing_call(topo, what, call):
    """Run a call that is expected to raise; returns True when the model differs afterwards."""
    print('  ' + what)
    before = snapshot(topo)
    try:
        call()
    except Exception as e:  # noqa
        print(f'    raised {type(e).__name__}: {str(e)[:150]}')
    else:
        print('    did not raise (nothing to check)')
        return False
    return report_difference(topo, before, snapshot(topo))


from fim.slivers.network_service import NetworkServiceSliver, NetworkServiceInfo, NSLayer  # noqa: E402
from fim.slivers.interface_info import InterfaceSliver, InterfaceInfo  # noqa: E402


def service(name, node_id, iface_id=None):
    s = NetworkServiceSliver()
    s.node_id = node_id
    s.set_name(name)
    s.set_type(fu.ServiceType.OVS)
    s.set_layer(NSLayer.L2)
    if iface_id is not None:
        i = InterfaceSliver()
        i.node_id = iface_id
        i.set_name(name + '-p1')
        i.set_type(fu.InterfaceType.TrunkPort)
        ii = InterfaceInfo()
        ii.add_interface(i)
        s.interface_info = ii
    return s


def info(*services):
    nsi = NetworkServiceInfo()
    for s in services:
        nsi.add_network_service(s)
    return nsi


violations = 0

t = ExperimentTopology()
t.add_node(name='n1', site='RENC', node_id='taken-id')
violations += failing_call(t, "add_node(ns_info=[svc-a ok, svc-b with an id already in use])",
                           lambda: t.add_node(name='sw1', site='RENC', ntype=fu.NodeType.Switch,
                                              ns_info=info(service('svc-a', 'svc-a-id'),
                                                           service('svc-b', 'taken-id'))))
print(f'    topology nodes now: {list(t.nodes.keys())}')

t = ExperimentTopology()
t.add_node(name='n1', site='RENC', node_id='taken-id')
violations += failing_call(t, "add_node(ns_info=[svc-a whose interface has an id already in use])",
                           lambda: t.add_node(name='sw1', site='RENC', ntype=fu.NodeType.Switch,
                                              ns_info=info(service('svc-a', 'svc-a-id', iface_id='taken-id'))))

t = ExperimentTopology()
t.add_node(name='n1', site='RENC', node_id='taken-id')
print('  control: the node id itself is already in use (checked before anything is added)')
violations += failing_call(t, "add_node(node_id already in use)",
                           lambda: t.add_node(name='sw1', site='RENC', node_id='taken-id'))

print()
if violations:
    print(f'{violations} failing call(s) left the model changed: property violated')
    sys.exit(1)
print('every failing call left the model as it was: property held')
sys.exit(0)
