"""C14-D5: a snapshot cannot be taken of the combined model before the first merge (or after the last unmerge):
snapshot() crashes with AttributeError, so "rolling back to a snapshot taken before" is impossible for the first merge."""
import os, sys, json
HERE = os.path.dirname(os.path.abspath(__file__))
ROOT = os.environ.get("FIM_ROOT", os.path.dirname(os.path.dirname(HERE)))
sys.path.insert(0, ROOT)

from fim.graph.networkx_property_graph import NetworkXPropertyGraph, NetworkXGraphImporter
from fim.graph.resources.abc_cbm import ABCCBMPropertyGraph
from fim.graph.resources.networkx_adm import NetworkXADMGraph
import fim.graph.resources.neo4j_cbm as ncbm

# The library ships the combined-model logic only in Neo4jCBMGraph; it is written against the
# abstract graph interface, so it is bound here to the in-memory shared store (no Neo4j needed).
# merge_adm "typecasts" its temporary clone to Neo4jADMGraph; the in-memory equivalent is used.
ncbm.Neo4jADMGraph = NetworkXADMGraph


class NxCBM(NetworkXPropertyGraph, ABCCBMPropertyGraph):
    _update_node_delegations = ncbm.Neo4jCBMGraph._update_node_delegations
    merge_adm = ncbm.Neo4jCBMGraph.merge_adm
    unmerge_adm = ncbm.Neo4jCBMGraph.unmerge_adm
    get_bqm = ncbm.Neo4jCBMGraph.get_bqm
    get_delegations = ncbm.Neo4jCBMGraph.get_delegations
    DELEGATION_TYPE_TO_PROP_NAME = ncbm.Neo4jCBMGraph.DELEGATION_TYPE_TO_PROP_NAME

    def get_matching_nodes_with_components(self, **kw): raise NotImplementedError
    def get_intersite_links(self): raise NotImplementedError
    def get_sites(self): raise NotImplementedError
    def get_disconnected_sites(self): raise NotImplementedError
    def get_connected_sites(self): raise NotImplementedError
    def get_facility_ports(self): raise NotImplementedError


def cap_deleg(did):
    return json.dumps({did: {"pool_id": "_", "capacities": {"unit": 1}}})


def make_adm(imp, gid, nodes, links):
    """nodes: {node_id: (label, extra props)}, links: [(a, rel, b)] - built with add_node/add_link"""
    adm = NetworkXADMGraph(graph_id=gid, importer=imp)
    for nid, (label, props) in nodes.items():
        p = {'Name': nid}
        p.update(props)
        adm.add_node(node_id=nid, label=label, props=p)
    for a, rel, b in links:
        adm.add_link(node_a=a, rel=rel, node_b=b)
    return adm


def observe(g):
    """canonical content of a graph through the public interface: nodes by NodeID, links by NodeID pair"""
    if not g.graph_exists():
        return {}, {}
    ids = sorted(g.list_all_node_ids())
    nodes = {}
    for n in ids:
        labels, props = g.get_node_properties(node_id=n)
        nodes[n] = (labels[0], props)
    links = {}
    for i, a in enumerate(ids):
        for b in ids[i + 1:]:
            try:
                kind, props = g.get_link_properties(node_a=a, node_b=b)
            except Exception:
                continue
            links[(a, b)] = (kind, props)
    return nodes, links


def diff(before, after):
    out = []
    for what, x, y in (('node', before[0], after[0]), ('link', before[1], after[1])):
        for k in sorted(set(x) | set(y), key=str):
            if x.get(k) != y.get(k):
                out.append(f"  {what} {k}:\n     before: {x.get(k)}\n     after : {y.get(k)}")
    return out


imp = NetworkXGraphImporter()
imp.delete_all_graphs()

site = make_adm(imp, 'ADM-SITE', {
    'site-sw': ('NetworkNode', {'CapacityDelegations': cap_deleg('site')}),
    'port': ('ConnectionPoint', {'StitchNode': 'true'}),
}, [('site-sw', 'connects', 'port')])

cbm = NxCBM(graph_id='CBM', importer=imp)
bad = False
try:
    snap_id = cbm.snapshot()          # snapshot taken before the merge
    cbm.merge_adm(adm=site)
    cbm.rollback(graph_id=snap_id)
    print("rolled back; combined model exists:", cbm.graph_exists())
    bad = cbm.graph_exists()
except Exception as e:
    print("VIOLATION: snapshot of the (still empty) combined model failed:", type(e).__name__, e)
    bad = True

# same thing at the other end of a history: merge, unmerge (model empty again), snapshot
cbm2 = NxCBM(graph_id='CBM2', importer=imp)
cbm2.merge_adm(adm=site)
cbm2.unmerge_adm(graph_id='ADM-SITE')
try:
    cbm2.snapshot()
    print("snapshot after the last unmerge ok")
except Exception as e:
    print("VIOLATION: snapshot after unmerging the last model failed:", type(e).__name__, e)
    bad = True
sys.exit(1 if bad else 0)
