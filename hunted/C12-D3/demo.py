import os, sys
FIM_ROOT = os.environ.get('FIM_ROOT') or os.path.abspath(os.path.join(os.path.dirname(os.path.abspath(__file__)), '..', '..'))
sys.path.insert(0, FIM_ROOT)
"""
C12: "Turning pools into per-node delegations and reading those back reconstructs the
same pools: one definition per pool on its defining node, one reference on each node it
applies to, the same delegation id and details" - for all pool families
(k pools x defining node x reference-node sets x delegation ids).
Two valid pools that belong to the same delegation and touch a common node (same
defining node, a common reference node, or one's defining node is the other's reference
node) cannot be turned into delegations: Pools.generate_delegations_by_node_id() puts
every Delegation of a node into a Delegations container keyed by delegation id only, so
the second pool collides with the first and DelegationException is raised.
"""
from fim.slivers.delegations import Pools, Pool, DelegationType, Delegations
from fim.slivers.capacities_labels import Capacities

C = DelegationType.CAPACITY


def family(spec):
    ps = Pools(atype=C)
    for pool_id, del_id, on, for_, cores in spec:
        p = Pool(atype=C, pool_id=pool_id, delegation_id=del_id, defined_on=on, defined_for=for_)
        p.set_pool_details(Capacities(core=cores))
        ps.add_pool(pool=p)
    ps.validate_pools()
    ps.build_index_by_delegation_id()
    return ps


def describe(ps):
    return {pid: (p.get_delegation_id(), p.get_defined_on(), sorted(p.get_defined_for()), p.get_pool_details().to_json())
            for pid, p in ps.pool_by_id.items()}


def roundtrip(ps):
    per_node = ps.generate_delegations_by_node_id()
    back = Pools(atype=C)
    for node, ds in per_node.items():
        ds2 = Delegations.from_json(json_str=ds.to_json(), atype=C)
        back.incorporate_delegation(node_id=node, deleg=ds2)
    return back


families = {
    'control: two pools, different delegations, same nodes': [('p1', 'del1', 'A', ['B'], 4), ('p2', 'del2', 'A', ['B'], 8)],
    'two pools of del1 defined on the same node': [('p1', 'del1', 'A', ['B'], 4), ('p2', 'del1', 'A', ['C'], 8)],
    'two pools of del1 applying to the same node': [('p1', 'del1', 'A', ['C'], 4), ('p2', 'del1', 'B', ['C'], 8)],
    'p2 is defined on a node p1 applies to': [('p1', 'del1', 'A', ['B'], 4), ('p2', 'del1', 'B', ['C'], 8)],
}
bad = []
for name, spec in families.items():
    ps = family(spec)
    try:
        back = roundtrip(ps)
        same = describe(back) == describe(ps)
        print(f'{name}: round trip ok, same pools: {same}')
        if not same:
            bad.append(name)
    except Exception as e:
        print(f'{name}: {type(e).__name__}: {e}')
        bad.append(name)

if bad:
    print('VIOLATION: valid pool families could not be turned into per-node delegations:', bad)
    sys.exit(1)
print('property held')
sys.exit(0)
