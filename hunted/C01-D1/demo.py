#!/usr/bin/env python
"""C01-D1: a carriage return inside a property value does not survive the GraphML round trip
(JSON node-link keeps it). Shown on a raw property graph and on an ExperimentTopology whose
boot_script has Windows line endings."""
import os
import sys

FIM_ROOT = os.environ.get('FIM_ROOT') or os.path.dirname(os.path.dirname(os.path.dirname(os.path.abspath(__file__))))
sys.path.insert(0, FIM_ROOT)

from fim.graph.networkx_property_graph import NetworkXGraphImporter, NetworkXPropertyGraph
from fim.graph.abc_property_graph import GraphFormat
from fim.user.topology import ExperimentTopology
from fim.slivers.capacities_labels import Capacities

violations = 0

# ---- raw property graph -------------------------------------------------------------------
imp = NetworkXGraphImporter()
g = NetworkXPropertyGraph(graph_id='c01-d1-raw', importer=imp)
VAL = 'line1\r\nline2\rline3'
g.add_node(node_id='a', label='NetworkNode', props={'Name': 'a', 'Details': VAL})
g.add_node(node_id='b', label='Component', props={'Name': 'b'})
g.add_link(node_a='a', rel='has', node_b='b', props={'Note': VAL})

for fmt in (GraphFormat.GRAPHML, GraphFormat.JSON_NODELINK):
    text = g.serialize_graph(format=fmt)
    g2 = imp.import_graph_from_string(graph_string=text, graph_id='c01-d1-raw-copy-' + fmt.name)
    _, nprops = g2.get_node_properties(node_id='a')
    _, eprops = g2.get_link_properties(node_a='a', node_b='b')
    ok = nprops['Details'] == VAL and eprops['Note'] == VAL
    print(f'{fmt.name:14s} node value {nprops["Details"]!r} edge value {eprops["Note"]!r} '
          f'-> {"same" if ok else "CHANGED"}')
    g2.validate_graph()
    if not ok:
        violations += 1

# ---- model built through the topology API ----------------------------------------------------
t = ExperimentTopology()
SCRIPT = '#!/bin/bash\r\necho hello\r\n'
t.add_node(name='n1', site='RENC', capacities=Capacities(core=1, ram=2, disk=10), boot_script=SCRIPT)
t2 = ExperimentTopology()
t2.load(graph_string=t.serialize(), new_graph_id='c01-d1-topo-copy')
got = t2.nodes['n1'].get_property('boot_script')
print(f'topology boot_script written {SCRIPT!r} read back {got!r}')
if got != SCRIPT:
    violations += 1

if violations:
    print(f'VIOLATION: {violations} value(s) changed by the GraphML round trip')
    sys.exit(1)
print('property held')
sys.exit(0)
