import os, sys
FIM_ROOT = os.environ.get('FIM_ROOT') or os.path.abspath(os.path.join(os.path.dirname(os.path.abspath(__file__)), '..', '..'))
sys.path.insert(0, FIM_ROOT)
"""
C12: "A set of ... delegations (single-resource, pool definition, pool reference) encodes
to text and decodes back to the same delegations with the same ids, formats, pool names
and details".
The encoder marks a single-resource delegation by writing the reserved pool name "_"
into the same 'pool_id' field that carries the name of a pool definition, and the decoder
tells the two formats apart only by comparing that field with "_".  A pool definition
whose pool is called "_" (nothing rejects that name; a pool REFERENCE to "_" round-trips
fine) therefore comes back as a single-resource delegation without a pool name, and the
pool can no longer be rebuilt from the decoded delegations.
"""
from fim.slivers.delegations import (Delegations, Delegation, DelegationType, DelegationFormat, Pools)
from fim.slivers.capacities_labels import Capacities

C = DelegationType.CAPACITY
ds = Delegations(atype=C)
d = Delegation(atype=C, delegation_id='del1', aformat=DelegationFormat.PoolDefinition, pool_id='_')
d.set_details(Capacities(core=8))
ds.add_delegations(d)
ref = Delegations(atype=C)
ref.add_delegations(Delegation(atype=C, delegation_id='del1', aformat=DelegationFormat.PoolReference, pool_id='_'))

text = ds.to_json()
back = Delegations.from_json(json_str=text, atype=C)
b = back.get_by_delegation_id('del1')
ref_back = Delegations.from_json(json_str=ref.to_json(), atype=C).get_by_delegation_id('del1')
print('encoded definition :', text)
print('original  : format', d.get_format().name, 'pool', repr(d.get_pool_name()))
print('decoded   : format', b.get_format().name, 'pool', repr(b.get_pool_name()))
print('reference : encoded', ref.to_json(), '-> decoded format', ref_back.get_format().name, 'pool', repr(ref_back.get_pool_name()))

# consequence for pools: definition on A and reference on B no longer reconstruct the pool
pools = Pools(atype=C)
pools.incorporate_delegation(node_id='A', deleg=back)
pools.incorporate_delegation(node_id='B', deleg=Delegations.from_json(json_str=ref.to_json(), atype=C))
p = pools.get_pool_by_id(pool_id='_', strict=True)
print('pool "_" rebuilt from decoded delegations: defined_on', p.get_defined_on(), 'details', p.get_pool_details())

if b.get_format() != d.get_format() or b.get_pool_name() != d.get_pool_name():
    print('VIOLATION: format and pool name changed across encode/decode')
    sys.exit(1)
print('property held')
sys.exit(0)
