#!/usr/bin/env python
"""
C16-D2: numeric label formats are written with [\\d], which for str patterns matches every Unicode
decimal digit (Arabic-Indic, Devanagari, full-width ...), and the range predicates use int(), which
parses those digits too.  VLAN ids, VLAN ranges, ASNs and subnet prefix lengths written with non-ASCII
digits are therefore accepted and stored, although the documented formats ("1234", "100-200", "12345",
"192.168.1.0/24") are plain ASCII decimal numbers.  Exit 1 when the violation manifests.
"""
import os
import re
import sys
import json

HERE = os.path.dirname(os.path.abspath(__file__))
ROOT = os.environ.get('FIM_ROOT', os.path.dirname(os.path.dirname(HERE)))
sys.path.insert(0, ROOT)

from fim.slivers.capacities_labels import Labels

# independent recognisers of the documented formats (ASCII digits only)
ORACLE = {
    'vlan': lambda s: re.fullmatch(r'[0-9]{1,4}', s) is not None and 0 <= int(s) <= 4096,
    'inner_vlan': lambda s: re.fullmatch(r'[0-9]{1,4}', s) is not None and 0 <= int(s) <= 4096,
    'vlan_range': lambda s: re.fullmatch(r'[0-9]{1,4}-[0-9]{1,4}', s) is not None,
    'asn': lambda s: re.fullmatch(r'[0-9]+', s) is not None and 0 < int(s) < 2 ** 32,
    'ipv4_subnet': lambda s: re.fullmatch(r'[0-9.]+/[0-9]{1,2}', s) is not None,
    'ipv6_subnet': lambda s: re.fullmatch(r'[0-9a-fA-F:]*/[0-9]{1,2}', s) is not None,
}

CASES = [
    ('vlan', '١٢٣'),             # Arabic-Indic 123
    ('vlan', '１００'),             # full-width 100
    ('inner_vlan', '१२'),             # Devanagari 12
    ('vlan_range', '١-٢'),            # Arabic-Indic 1-2
    ('asn', '٤٢'),                    # Arabic-Indic 42
    ('ipv4_subnet', '192.168.1.0/٢٤'),  # /24 in Arabic-Indic digits
    ('ipv6_subnet', '2001:db8::/٣٢'),   # /32 in Arabic-Indic digits
]

violations = 0
for field, value in CASES:
    assert not ORACLE[field](value)
    for how, fn in (('constructor', lambda: Labels(**{field: value})),
                    ('list form', lambda: Labels(**{field: [value]})),
                    ('copy-with-changes', lambda: Labels.update(Labels(), **{field: value})),
                    ('from_json', lambda: Labels.from_json(json.dumps({field: value})))):
        try:
            lab = fn()
        except Exception as e:
            print(f'   rejected {field}={value!a} via {how}: {type(e).__name__}')
            continue
        stored = getattr(lab, field)
        print(f'   STORED   {field}={stored!a} via {how}  (ascii: {value.encode("ascii", "backslashreplace").decode()})')
        violations += 1

# the accepted value also survives encode/decode, so it reaches the graph and whoever consumes it
lab = Labels(vlan='١٢٣')
print('   to_json ->', ascii(lab.to_json()))

if violations:
    print(f'VIOLATION: {violations} label values written with non-ASCII digits were accepted and stored')
    sys.exit(1)
print('property held')
sys.exit(0)
