import os, sys
FIM_ROOT = os.environ.get('FIM_ROOT') or os.path.dirname(os.path.dirname(os.path.dirname(os.path.abspath(__file__))))
sys.path.insert(0, FIM_ROOT)
# C05-D1: merge_nodes raises half way and leaves the merged node without ANY property
from fim.graph.networkx_property_graph import NetworkXGraphImporter, NetworkXPropertyGraph

imp = NetworkXGraphImporter()
g1 = NetworkXPropertyGraph(graph_id='c05d1-g1', importer=imp)
g2 = NetworkXPropertyGraph(graph_id='c05d1-g2', importer=imp)
g1.delete_graph(); g2.delete_graph()

g1.add_node(node_id='a', label='NetworkNode', props={'Name': 'a', 'Type': 'Server', 'Site': 'RENC'})
g1.add_node(node_id='b', label='Component', props={'Name': 'b'})
g1.add_link(node_a='a', rel='has', node_b='b')
# the other graph's node 'a' simply does not carry the optional property 'Site'
g2.add_node(node_id='a', label='NetworkNode', props={'Name': 'a', 'Type': 'Server'})
g2.add_node(node_id='c', label='Component', props={'Name': 'c'})
g2.add_link(node_a='a', rel='has', node_b='c')

before_ids = sorted(g1.list_all_node_ids())
raised = None
try:
    g1.merge_nodes('a', g2, {'Site': 'overwrite'})
except BaseException as e:
    raised = e
print('merge_nodes raised:', type(raised).__name__ if raised else None, raised)

raw = [(n, dict(d)) for n, d in imp.storage.get_graph('c05d1-g1').nodes(data=True)]
print('raw store after the call:', raw)
after_ids = sorted(g1.list_all_node_ids())
print('g1 node ids before:', before_ids, 'after:', after_ids)
stripped = [n for n, d in raw if not all(k in d for k in ('GraphID', 'NodeID', 'Class'))]
try:
    props = g1.get_node_properties(node_id='a')
    print('g1 node a:', props)
    lost = False
except Exception as e:
    print('g1.get_node_properties(a) ->', type(e).__name__, e)
    lost = True
try:
    g2.get_node_properties(node_id='a')
    other_lost = False
except Exception as e:
    print('g2.get_node_properties(a) ->', type(e).__name__, e)
    other_lost = True

if raised is not None and (stripped or lost):
    print('VIOLATION: the call raised, yet node a of g1 lost GraphID/NodeID/Class/Name/Type '
          '(store nodes without identity: %s); node a of g2 consumed: %s' % (stripped, other_lost))
    sys.exit(1)
print('property held')
sys.exit(0)
