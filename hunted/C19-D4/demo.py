#!/usr/bin/env python3
"""
C19-D4: add_link() pastes every property value between single quotes without escaping.

No Neo4j server is needed: the real backend class is given a stand-in driver that records the
(statement, parameters) pairs it is handed. Each statement is then split by a small Cypher lexer into
its text outside string literals and the decoded literals. The property holds for a stored value when
  * the statement lexes (every literal is closed),
  * its text outside literals is the same as for a harmless value, and
  * the value is found among the parameters or among the decoded literals.
Exit status 1 = at least one value violates this on the tree under test, 0 = the property held.
"""
import json
import os
import sys
import logging

HERE = os.path.dirname(os.path.abspath(__file__))
FIM_ROOT = os.environ.get('FIM_ROOT', os.path.abspath(os.path.join(HERE, '..', '..')))
sys.path.insert(0, FIM_ROOT)

from fim.graph.neo4j_property_graph import Neo4jPropertyGraph, Neo4jGraphImporter  # noqa: E402


# ---------------------------------------------------------------- stand-in driver
class _Result:
    """Answers every accessor the backend uses with something harmless."""
    def single(self): return None
    def value(self): return [1]
    def values(self): return []
    def data(self): return [{'nodes': [], 'nodes1': []}]
    def peek(self): return 1
    def __iter__(self): return iter([])


class _Session:
    def __init__(self, log): self.log = log
    def __enter__(self): return self
    def __exit__(self, *a): return False

    def run(self, query, parameters=None, **kwparameters):
        self.log.append((query, dict(parameters or {}, **kwparameters)))
        return _Result()


class _Driver:
    def __init__(self): self.log = []
    def session(self): return _Session(self.log)
    def close(self): pass


def make_graph(cls=Neo4jPropertyGraph, graph_id='g1'):
    """A real backend object whose driver only records (statement, parameters)."""
    importer = Neo4jGraphImporter.__new__(Neo4jGraphImporter)   # no server: skip connecting
    importer.driver = _Driver()
    importer.log = logging.getLogger('demo')
    g = cls(graph_id=graph_id, importer=importer)
    return g, importer.driver.log


# ---------------------------------------------------------------- tiny Cypher lexer
_ESC = {'\\': '\\', "'": "'", '"': '"', 'n': '\n', 't': '\t', 'r': '\r', 'b': '\b', 'f': '\f'}


def lex(stmt):
    """Split a Cypher statement into its skeleton (text with every string literal replaced
    by '?') and the list of decoded string literals. Raises ValueError when a string
    literal or a back-quoted name is not terminated."""
    skeleton, literals, i, n = [], [], 0, len(stmt)
    while i < n:
        ch = stmt[i]
        if ch in ('"', "'"):
            quote, i, buf = ch, i + 1, []
            while True:
                if i >= n:
                    raise ValueError(f'unterminated string literal opened with {quote}')
                c = stmt[i]
                if c == '\\':
                    if i + 1 >= n:
                        raise ValueError('dangling backslash in string literal')
                    nxt = stmt[i + 1]
                    if nxt in ('u', 'U'):
                        width = 4 if nxt == 'u' else 8
                        buf.append(chr(int(stmt[i + 2:i + 2 + width], 16)))
                        i += 2 + width
                    else:
                        # Cypher only defines the escapes in _ESC; anything else is an error there,
                        # we keep the character so the comparison below still fails visibly
                        buf.append(_ESC.get(nxt, '<bad-escape:' + nxt + '>'))
                        i += 2
                elif c == quote:
                    i += 1
                    break
                else:
                    buf.append(c)
                    i += 1
            literals.append(''.join(buf))
            skeleton.append('?')
        elif ch == '`':
            j = stmt.find('`', i + 1)
            if j < 0:
                raise ValueError('unterminated back-quoted name')
            skeleton.append(stmt[i:j + 1])
            i = j + 1
        else:
            skeleton.append(ch)
            i += 1
    return ''.join(skeleton), literals


def judge(stmt, params, value, reference_stmt):
    """Return the list of ways in which stmt/params break the property for the stored value."""
    problems = []
    try:
        skeleton, literals = lex(stmt)
    except ValueError as e:
        return [f'statement is not well-formed: {e}']
    ref_skeleton, _ = lex(reference_stmt)
    if skeleton != ref_skeleton:
        problems.append('statement text outside string literals differs from the text built for a harmless '
                        'value: the stored value changed the statement')
    if value not in params.values() and value not in literals:
        problems.append('the stored value reaches the driver neither as a parameter nor as a literal that '
                        f'decodes back to it (literals decode to {literals!r})')
    return problems


def run_cases(title, build, values, benign='plain', cls=Neo4jPropertyGraph):
    """build(graph, value) performs the backend call; returns number of violating values."""
    print(title)
    bad = 0
    g, log = make_graph(cls)
    build(g, benign)
    reference_stmt = log[-1][0]
    print('  statement for a harmless value:')
    print('    ' + reference_stmt)
    for v in values:
        del log[:]
        build(g, v)
        stmt, params = log[-1]
        problems = judge(stmt, params, v, reference_stmt)
        print(f'  stored value {v!r}')
        print('    statement : ' + stmt.replace('\n', '\\n'))
        print(f'    parameters: {params}')
        if problems:
            bad += 1
            for p in problems:
                print('    VIOLATION : ' + p)
        else:
            print('    ok')
    return bad



VALUES = [
    "O'Brien-lab",                                   # apostrophe
    'say "hi"',                                      # double quotes
    json.dumps({"note": 'a "quoted" word'}),         # JSON text as the library stores it: contains \"
    'C:\\temp\\new',                                 # backslashes (decoded by Cypher as tab / newline)
    "x' }) DETACH DELETE s //",                      # closes the literal and appends a clause
]

def build(g, v):
    g.add_link(node_a='a', rel='connects', node_b='b', props={'Details': v, 'Layer': 'L2'})


bad = run_cases('Neo4jPropertyGraph.add_link(props={Details: <value>, ...})', build, VALUES)

print()
if bad:
    print(f'{bad} stored value(s) broke or changed the statement: property violated')
    sys.exit(1)
print('every stored value reached the driver intact: property held')
sys.exit(0)
