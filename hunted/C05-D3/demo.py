import os, sys
FIM_ROOT = os.environ.get('FIM_ROOT') or os.path.dirname(os.path.dirname(os.path.dirname(os.path.abspath(__file__))))
sys.path.insert(0, FIM_ROOT)
# C05-D3: NodeID / GraphID are writable through add_node(props=...) and update_node_*:
#   (a) two nodes of one graph end up with the same node id
#   (b) moving a node by rewriting GraphID gives different results in the two backends
from fim.graph.networkx_property_graph import NetworkXGraphImporter, NetworkXPropertyGraph
from fim.graph.networkx_property_graph_disjoint import NetworkXGraphImporterDisjoint, NetworkXPropertyGraphDisjoint

def mk(kind, gid):
    if kind == 'shared':
        g = NetworkXPropertyGraph(graph_id=gid, importer=NetworkXGraphImporter())
    else:
        g = NetworkXPropertyGraphDisjoint(graph_id=gid, importer=NetworkXGraphImporterDisjoint())
    g.delete_graph()
    return g

def attempt(f):
    try:
        return ('ok', f())
    except Exception as e:
        return ('raised', type(e).__name__)

bad = []
for kind in ('shared', 'disjoint'):
    # (a1) add_node with a NodeID smuggled in through props
    g = mk(kind, 'c05d3-a1-' + kind)
    g.add_node(node_id='n1', label='NetworkNode')
    r = attempt(lambda: g.add_node(node_id='n2', label='Component', props={'NodeID': 'n1'}))
    ids = g.list_all_node_ids()
    print(kind, "add_node(node_id='n2', props={'NodeID':'n1'}) ->", r, ' ids now:', ids,
          ' get_node_properties(n1) ->', attempt(lambda: g.get_node_properties(node_id='n1')))
    if len(ids) != len(set(ids)):
        bad.append('%s: add_node produced duplicate node ids %s' % (kind, ids))
    # (a2) update_node_property rewriting NodeID to an id already in use
    g = mk(kind, 'c05d3-a2-' + kind)
    g.add_node(node_id='n1', label='NetworkNode')
    g.add_node(node_id='n2', label='Component')
    r = attempt(lambda: g.update_node_property(node_id='n2', prop_name='NodeID', prop_val='n1'))
    ids = g.list_all_node_ids()
    print(kind, "update_node_property(n2, 'NodeID', 'n1') ->", r, ' ids now:', ids)
    if len(ids) != len(set(ids)):
        bad.append('%s: update_node_property produced duplicate node ids %s' % (kind, ids))

# (b) GraphID rewrite: compare the two backends
res = {}
for kind in ('shared', 'disjoint'):
    g = mk(kind, 'c05d3-b-g')
    h = mk(kind, 'c05d3-b-h')
    g.add_node(node_id='n1', label='NetworkNode')
    g.add_node(node_id='n2', label='NetworkNode')
    h.add_node(node_id='z', label='NetworkNode')
    r = attempt(lambda: g.update_node_property(node_id='n2', prop_name='GraphID', prop_val='c05d3-b-h'))
    res[kind] = (r, sorted(g.list_all_node_ids()), sorted(h.list_all_node_ids()))
    print(kind, "update_node_property(n2, 'GraphID', <h>) ->", r, ' g ids:', res[kind][1], ' h ids:', res[kind][2])
if res['shared'] != res['disjoint']:
    bad.append('backends disagree after a GraphID rewrite: %s vs %s' % (res['shared'], res['disjoint']))

if bad:
    for b in bad:
        print('VIOLATION:', b)
    sys.exit(1)
print('property held')
sys.exit(0)
