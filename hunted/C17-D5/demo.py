#!/usr/bin/env python3
"""C17-D5: NodeSliver.diff flags a SmartNIC component SUB_INTERFACES whenever *anything* in its OVS service differs
(service user data, a port's labels) although no sub-interface was added, removed or changed."""
import os, sys
HERE = os.path.dirname(os.path.abspath(__file__))
ROOT = os.environ.get('FIM_ROOT', os.path.abspath(os.path.join(HERE, '..', '..')))
sys.path.insert(0, ROOT)

import fim.user as f
from fim.user import ComponentType, Labels
from fim.slivers.topology_diff import WhatsModifiedFlag

violations = []


def fresh():
    t = f.ExperimentTopology()
    n = t.add_node(name='n1', site='UKY')
    nic = n.add_component(name='nic1', ctype=ComponentType.SmartNIC, model='ConnectX-6')
    return t, n, nic


# edit A: user data on the NIC's internal OVS service (component, ports, sub-interfaces untouched)
t, n, nic = fresh()
old = n.get_sliver()
nic.network_services['n1-nic1-l2ovs'].user_data = {'k': 1}
new = n.get_sliver()
d = old.diff(new)
got = [(c.resource_name, fl) for c, fl in d.modified.components] if d else None
print('edit: user_data of service n1-nic1-l2ovs      -> modified.components =', got)
if got and any(fl & WhatsModifiedFlag.SUB_INTERFACES for _, fl in got):
    violations.append(('service user_data', got))

# edit B: labels of a DedicatedPort of the NIC (no sub-interfaces exist at all)
t, n, nic = fresh()
old = n.get_sliver()
nic.interfaces['nic1-p1'].labels = Labels(local_name='p1', vlan='300')
new = n.get_sliver()
d = old.diff(new)
got = [(c.resource_name, fl) for c, fl in d.modified.components] if d else None
print('edit: labels of port nic1-p1 (no sub-interfaces) -> modified.components =', got)
if got and any(fl & WhatsModifiedFlag.SUB_INTERFACES for _, fl in got):
    violations.append(('port labels', got))

if violations:
    print('VIOLATION: SUB_INTERFACES reported although no sub-interface changed:', violations)
    sys.exit(1)
print('property held')
sys.exit(0)
