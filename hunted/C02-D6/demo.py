import os, sys
FIM_ROOT = os.environ.get('FIM_ROOT') or os.path.abspath(os.path.join(os.path.dirname(os.path.abspath(__file__)), '..', '..'))
sys.path.insert(0, FIM_ROOT)
"""
C02: a sliver "with any combination of its settable properties ... converted to the deep
dictionary / JSON form and back, comes back with ... the same value for every settable
property".  'name' is one of the settable properties; a sliver on which it has not been
set converts to a dictionary fine, but cannot be converted back: the reader always calls
set_name(None), whose own assertion allows None, and which then crashes in re.fullmatch.
Shown for all five sliver kinds.
"""
from fim.graph.abc_property_graph import ABCPropertyGraph as G
from fim.slivers.network_node import NodeSliver, NodeType
from fim.slivers.network_service import NetworkServiceSliver, ServiceType, NSLayer
from fim.slivers.interface_info import InterfaceSliver, InterfaceType
from fim.slivers.attached_components import ComponentSliver, ComponentType
from fim.slivers.network_link import NetworkLinkSliver, LinkType
from fim.slivers.capacities_labels import Capacities

cases = ((NodeSliver, NodeType.VM, G.build_deep_node_sliver_from_dict),
         (NetworkServiceSliver, ServiceType.L2Bridge, G.build_deep_ns_sliver_from_dict),
         (InterfaceSliver, InterfaceType.TrunkPort, G.build_deep_interface_sliver_from_dict),
         (ComponentSliver, ComponentType.GPU, G.build_deep_component_sliver_from_dict),
         (NetworkLinkSliver, LinkType.Patch, G.build_deep_link_sliver_from_dict))
bad = []
for cls, typ, rebuild in cases:
    s = cls()
    s.set_type(typ)
    s.set_capacities(Capacities(unit=1))
    s.set_details('no name given')
    d = G.sliver_to_dict(s)
    try:
        r = rebuild(props=d)
        ok = r.get_name() is None and r.get_details() == 'no name given' and r.get_capacities() == s.get_capacities()
        print(f'{cls.__name__:22s} dict {d} -> rebuilt, values equal: {ok}')
        if not ok:
            bad.append(cls.__name__)
    except Exception as e:
        print(f'{cls.__name__:22s} dict {d} -> {type(e).__name__}: {e}')
        bad.append(cls.__name__)

# the setter itself: its assertion says None is acceptable
try:
    NodeSliver().set_name(None)
    print('set_name(None) accepted')
except Exception as e:
    print('set_name(None) ->', type(e).__name__, e)

if bad:
    print('VIOLATION: slivers without a name cannot be rebuilt from their dictionary form:', bad)
    sys.exit(1)
print('property held')
sys.exit(0)
