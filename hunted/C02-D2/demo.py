import os, sys
FIM_ROOT = os.environ.get('FIM_ROOT') or os.path.abspath(os.path.join(os.path.dirname(os.path.abspath(__file__)), '..', '..'))
sys.path.insert(0, FIM_ROOT)
"""
C02: "Setting a property on a model element and reading it back returns an equal value"
and "a sliver ... with any combination of its settable properties ... comes back with
... the same value for every settable property".
image_ref and image_type are two separate settable properties of a node, but either of
them is silently dropped unless the other one is set in the very same call/sliver.
"""
from fim.user.topology import ExperimentTopology
from fim.graph.abc_property_graph import ABCPropertyGraph
from fim.slivers.network_node import NodeSliver, NodeType

bad = []

t = ExperimentTopology()
n = t.add_node(name='n1', site='RENC')

# (a) element API, nothing set before
n.set_property('image_type', 'qcow2')
got = n.get_property('image_type')
print("(a) set_property('image_type','qcow2') on fresh node -> get_property:", repr(got))
if got != 'qcow2':
    bad.append('a')

# (b) element API, both set, then change one of them
n.set_properties(image_ref='default_rocky_8', image_type='qcow2')
print('(b) after set_properties(both):', n.get_property('image_ref'), n.get_property('image_type'))
n.set_property('image_type', 'raw')
got = n.get_property('image_type')
print("    set_property('image_type','raw') -> get_property:", repr(got))
if got != 'raw':
    bad.append('b1')
n.set_property('image_ref', 'default_ubuntu_22')
got = n.get_property('image_ref')
print("    set_property('image_ref','default_ubuntu_22') -> get_property:", repr(got))
if got != 'default_ubuntu_22':
    bad.append('b2')

# (c) sliver <-> dict: only image_ref set
s = NodeSliver(); s.set_name('n2'); s.set_type(NodeType.VM); s.set_image_ref('default_rocky_8')
d = ABCPropertyGraph.sliver_to_dict(s)
r = ABCPropertyGraph.build_deep_node_sliver_from_dict(props=d)
print('(c) sliver with image_ref only -> dict keys', sorted(d.keys()), '-> rebuilt image_ref:', repr(r.get_image_ref()))
if r.get_image_ref() != s.get_image_ref():
    bad.append('c')

if bad:
    print('VIOLATION in cases', bad, ': value set is not the value read back')
    sys.exit(1)
print('property held')
sys.exit(0)
