import os, sys
FIM_ROOT = os.environ.get('FIM_ROOT') or os.path.dirname(os.path.dirname(os.path.dirname(os.path.abspath(__file__))))
sys.path.insert(0, FIM_ROOT)
# C15-D2: __eq__ is not symmetric for the very objects its comment says it caters for
# (Capacities unpickled from an older FIM that did not have every field yet)
import pickle
from fim.slivers.capacities_labels import Capacities

old = Capacities(core=2, ram=8)
del old.__dict__['mtu']                    # what an instance pickled before 'mtu' existed looks like
old = pickle.loads(pickle.dumps(old))      # unpickling does not run __init__, so the field stays absent
new = Capacities(core=2, ram=8, mtu=9000)
print('old fields:', old.list_fields())
print('new fields:', new.list_fields())
ab, ba = (old == new), (new == old)
print('old == new ->', ab)
print('new == old ->', ba)
if ab != ba:
    print('VIOLATION: equality is not symmetric (old == new is %s, new == old is %s)' % (ab, ba))
    sys.exit(1)
print('property held')
sys.exit(0)
