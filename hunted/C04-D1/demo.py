"""C04-D1: on the per-graph ("disjoint") in-memory store, cloning (or importing) onto a graph id that is in use is
silently skipped: clone_graph returns a handle whose content is the OLD graph of that id, not the content of the
source. The shared store replaces the graph, so the two in-memory flavours disagree."""
import os, sys
HERE = os.path.dirname(os.path.abspath(__file__))
ROOT = os.environ.get("FIM_ROOT", os.path.dirname(os.path.dirname(HERE)))
sys.path.insert(0, ROOT)

from fim.graph.networkx_property_graph import NetworkXPropertyGraph, NetworkXGraphImporter
from fim.graph.networkx_property_graph_disjoint import NetworkXPropertyGraphDisjoint, NetworkXGraphImporterDisjoint


def content(g):
    out = {}
    for n in sorted(g.list_all_node_ids()):
        labels, props = g.get_node_properties(node_id=n)
        props.pop('GraphID')
        out[n] = (labels[0], props)
    return out


def scenario(imp, cls):
    imp.delete_all_graphs()
    src = cls(graph_id='SRC', importer=imp)
    src.add_node(node_id='s1', label='NetworkNode', props={'Name': 'source-node-1'})
    src.add_node(node_id='s2', label='Component', props={'Name': 'source-node-2'})
    src.add_link(node_a='s1', rel='has', node_b='s2')
    other = cls(graph_id='DST', importer=imp)
    other.add_node(node_id='old', label='NetworkNode', props={'Name': 'previous-content'})

    clone = src.clone_graph(new_graph_id='DST')
    same = content(clone) == content(src)
    print(f"  source content: {sorted(content(src))}   clone (id DST) content: {sorted(content(clone))}   same={same}")

    # re-import of a serialised graph under the id in use behaves the same way
    text = src.serialize_graph()
    re = imp.import_graph_from_string(graph_string=text, graph_id='DST')
    same_imp = sorted(content(re)) == sorted(content(src))
    print(f"  re-import of SRC's serialisation under id DST gives: {sorted(content(re))}   same={same_imp}")
    return same and same_imp


print("shared store:")
ok_shared = scenario(NetworkXGraphImporter(), NetworkXPropertyGraph)
print("disjoint store:")
ok_disjoint = scenario(NetworkXGraphImporterDisjoint(), NetworkXPropertyGraphDisjoint)

if not (ok_shared and ok_disjoint):
    print("VIOLATION: the clone returned by clone_graph does not have the content of its source "
          f"(shared ok={ok_shared}, disjoint ok={ok_disjoint})")
    sys.exit(1)
sys.exit(0)
