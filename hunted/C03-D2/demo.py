#!/usr/bin/env python3
"""
C03-D2: MaintenanceInfo.from_json does not tolerate unknown fields inside an entry:
each entry dictionary is splatted into MaintenanceEntry(**v), so any extra key raises TypeError.
Exit 1 when the violation manifests.
"""
import os
import sys
import json
from datetime import datetime, timezone

ROOT = os.environ.get('FIM_ROOT') or os.path.dirname(os.path.dirname(os.path.dirname(os.path.abspath(__file__))))
sys.path.insert(0, ROOT)

from fim.slivers.maintenance_mode import MaintenanceInfo, MaintenanceEntry, MaintenanceState

mi = MaintenanceInfo()
mi.add('renc-w1', MaintenanceEntry(state=MaintenanceState.PreMaint,
                                   deadline=datetime(2030, 1, 2, 3, 4, 5, tzinfo=timezone.utc),
                                   expected_end=datetime(2030, 1, 3, 3, 4, 5, tzinfo=timezone.utc)))
mi.finalize()
own = mi.to_json()
print('own encoding      :', own)

# sanity: the unmodified text round-trips
back = MaintenanceInfo.from_json(own)
assert back.get('renc-w1') == mi.get('renc-w1') and back.to_json() == own

# the same text as a newer writer would produce it: one extra key in the entry
d = json.loads(own)
d['renc-w1']['reason'] = 'firmware upgrade'
newer = json.dumps(d)
print('with unknown field:', newer)

try:
    dec = MaintenanceInfo.from_json(newer)
except BaseException as e:
    print(f'VIOLATION: MaintenanceInfo.from_json RAISED {type(e).__name__}: {e}')
    sys.exit(1)

e = dec.get('renc-w1')
if e != mi.get('renc-w1'):
    print('VIOLATION: known fields were dropped/changed:', e)
    sys.exit(1)
print('property held: unknown field ignored, known fields kept:', e)
sys.exit(0)
