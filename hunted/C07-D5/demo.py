#!/usr/bin/env python3
"""C07-D5: NetworkService.interface_list / .interfaces of a live handle keep listing ServicePorts that were removed
from the model by remove_node()/remove_component()/disconnect through another handle."""
import os, sys
HERE = os.path.dirname(os.path.abspath(__file__))
ROOT = os.environ.get('FIM_ROOT', os.path.abspath(os.path.join(HERE, '..', '..')))
sys.path.insert(0, ROOT)

import fim.user as f
from fim.user import ComponentType, ServiceType

t = f.ExperimentTopology()
n1 = t.add_node(name='n1', site='UKY')
nic1 = n1.add_component(name='nic1', ctype=ComponentType.SharedNIC, model='ConnectX-6')
n2 = t.add_node(name='n2', site='UKY')
nic2 = n2.add_component(name='nic2', ctype=ComponentType.SharedNIC, model='ConnectX-6')
# the handle returned by add_network_service is what users keep working with
svc = t.add_network_service(name='br', nstype=ServiceType.L2Bridge,
                            interfaces=[nic1.interface_list[0], nic2.interface_list[0]])
print('before:', [i.name for i in svc.interface_list])

t.remove_node('n1')      # documented to 'Remove a matching ServicePort if connected to a NetworkService'

model_ids = set(t.graph_model.get_all_ns_or_link_connection_points(link_id=svc.node_id))
view_ids = {i.node_id for i in svc.interface_list}
dict_ids = {i.node_id for i in svc.interfaces.values()}
print('after remove_node("n1"):')
print('  model               :', sorted(t.graph_model.get_node_properties(node_id=i)[1]['Name'] for i in model_ids))
print('  svc.interface_list  :', [i.name for i in svc.interface_list])
print('  svc.interfaces      :', list(svc.interfaces.keys()))

violations = []
if view_ids != model_ids:
    violations.append('service.interface_list lists an interface that is not in the model')
if dict_ids != model_ids:
    violations.append('service.interfaces lists an interface that is not in the model')
ghost = view_ids - model_ids
for gid in ghost:
    try:
        [i for i in svc.interface_list if i.node_id == gid][0].type
    except Exception as e:
        print('  using the listed ghost interface raises:', type(e).__name__, str(e)[:80])

# second manifestation: connect through a second handle, first handle does not see the new port
svc2 = t.network_services['br']
n3 = t.add_node(name='n3', site='UKY')
nic3 = n3.add_component(name='nic3', ctype=ComponentType.SharedNIC, model='ConnectX-6')
svc2.connect_interface(nic3.interface_list[0])
model_ids = set(t.graph_model.get_all_ns_or_link_connection_points(link_id=svc.node_id))
if {i.node_id for i in svc.interface_list} != model_ids:
    print('after connect through another handle: svc.interface_list =', [i.name for i in svc.interface_list],
          'model has', len(model_ids))
    violations.append('service.interface_list misses an interface present in the model')

if violations:
    print('VIOLATION:', violations)
    sys.exit(1)
print('property held')
sys.exit(0)
