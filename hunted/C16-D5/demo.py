#!/usr/bin/env python
"""
C16-D5: the IPv6 label patterns make every part optional, so the empty string and other strings that
are no IPv6 address / range / subnet at all are accepted and stored for ipv6, ipv6_range, ipv6_subnet.
Checked against Python's ipaddress module as independent recogniser.  Exit 1 when the violation manifests.
"""
import os
import sys
import json
import ipaddress

HERE = os.path.dirname(os.path.abspath(__file__))
ROOT = os.environ.get('FIM_ROOT', os.path.dirname(os.path.dirname(HERE)))
sys.path.insert(0, ROOT)

from fim.slivers.capacities_labels import Labels


def is_addr(s):
    try:
        ipaddress.IPv6Address(s)
        return True
    except ValueError:
        return False


def is_range(s):
    parts = s.split('-')
    return len(parts) == 2 and is_addr(parts[0]) and is_addr(parts[1])


def is_subnet(s):
    if '/' not in s:
        return False
    try:
        ipaddress.IPv6Network(s, strict=False)
        return True
    except ValueError:
        return False


ORACLE = {'ipv6': is_addr, 'ipv6_range': is_range, 'ipv6_subnet': is_subnet}
CASES = [
    ('ipv6', ''), ('ipv6', ':'), ('ipv6', '1'), ('ipv6', ':::::::'), ('ipv6', '1:2'), ('ipv6', '2001:db8:1:'),
    ('ipv6', '1::2::3'),
    ('ipv6_range', '-'), ('ipv6_range', '1-2'), ('ipv6_range', '2001:db8::1-'),
    ('ipv6_subnet', '/1'), ('ipv6_subnet', ':/64'), ('ipv6_subnet', '1::2::3/64'),
]

violations = 0
for field, value in CASES:
    assert not ORACLE[field](value), (field, value)
    for how, fn in (('constructor', lambda: Labels(**{field: value})),
                    ('list form', lambda: Labels(**{field: ['2001:db8::1' if field == 'ipv6' else value, value]})),
                    ('from_json', lambda: Labels.from_json(json.dumps({field: value, 'vlan': '1'})))):
        try:
            lab = fn()
        except Exception as e:
            print(f'   rejected {field}={value!a} via {how}: {type(e).__name__}')
            continue
        print(f'   STORED   {field}={getattr(lab, field)!a} via {how}')
        violations += 1

# members are accepted (sanity)
for field, value in (('ipv6', '2001:0db8:85a3:0000:0000:8a2e:0370:7334'), ('ipv6', '2001:db8::1'),
                     ('ipv6_subnet', '2001:db8::/32')):
    assert ORACLE[field](value)
    Labels(**{field: value})

# the stored empty address survives encode/decode as well
print('   Labels(ipv6="").to_json() ->', Labels(ipv6='').to_json())

if violations:
    print(f'VIOLATION: {violations} strings that are not IPv6 addresses/ranges/subnets were accepted and stored')
    sys.exit(1)
print('property held')
sys.exit(0)
