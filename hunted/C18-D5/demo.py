import os, sys
HERE = os.path.dirname(os.path.abspath(__file__))
FIM_ROOT = os.environ.get("FIM_ROOT", os.path.dirname(os.path.dirname(HERE)))
sys.path.insert(0, FIM_ROOT)

import json
from fim.slivers.component_catalog import ComponentCatalog
from fim.slivers.attached_components import ComponentType
from fim.slivers.capacities_labels import Labels, Capacities
from fim.slivers.instance_catalog import InstanceCatalog

CATALOG = json.load(open(os.path.join(FIM_ROOT, "fim", "slivers", "data", "component_catalog.json")))


def entry(ctype, model):
    return next(c for c in CATALOG if c["Type"] == ctype and c["Model"] == model)


def interfaces_of(cs):
    ns = list(cs.network_service_info.network_services.values())[0]
    return ns.interface_info.interfaces


# catalogued speeds of SharedNIC models
cc = ComponentCatalog()
bad = False
for e in CATALOG:
    if 'Interfaces' not in e:
        continue
    cs = cc.generate_component(name='dev1', ctype=ComponentType[e['Type']], model=e['Model'])
    for name, isl in interfaces_of(cs).items():
        want = int(e['Interfaces'][name[len('dev1-'):]])
        got = isl.get_capacities().bw
        flag = '' if got == want else '   <-- differs'
        print(f"{e['Type']:10s} {e['Model']:24s} {name:8s} catalogued {want:4d} Gbps, generated bw={got}{flag}")
        bad |= got != want
if bad:
    print('VIOLATION: the interfaces of the SharedNIC models do not carry the catalogued speed (bw stays 0)')
    sys.exit(1)
print('property held')
sys.exit(0)
