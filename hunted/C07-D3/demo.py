#!/usr/bin/env python3
"""C07-D3: connect_interface() derives the ServicePort (and link) name as '<node>-<interface>' without a
uniqueness check: two different node interfaces can yield the same name inside one service."""
import os, sys, collections
HERE = os.path.dirname(os.path.abspath(__file__))
ROOT = os.environ.get('FIM_ROOT', os.path.abspath(os.path.join(HERE, '..', '..')))
sys.path.insert(0, ROOT)

import fim.user as f
from fim.user import ComponentType, ServiceType

t = f.ExperimentTopology()
na = t.add_node(name='aa', site='UKY')
nb = t.add_node(name='aa-bb', site='UKY')
ca = na.add_component(name='bb-cc', ctype=ComponentType.SharedNIC, model='ConnectX-6')   # interface 'bb-cc-p1'
cb = nb.add_component(name='cc', ctype=ComponentType.SharedNIC, model='ConnectX-6')      # interface 'cc-p1'
ia, ib = ca.interface_list[0], cb.interface_list[0]
print('node interfaces:', (na.name, ia.name), (nb.name, ib.name))

svc = t.add_network_service(name='br', nstype=ServiceType.L2Bridge, interfaces=[ia, ib])

g = t.graph_model.storage.extract_graph(t.graph_model.graph_id)
svc_real = [n for n, d in g.nodes(data=True) if d.get('NodeID') == svc.node_id][0]
port_names = [g.nodes[m]['Name'] for m in g.neighbors(svc_real) if g.nodes[m].get('Class') == 'ConnectionPoint']
link_names = [d['Name'] for _, d in g.nodes(data=True) if d.get('Class') == 'Link']
print('service port names inside service br:', port_names)
print('link names in topology              :', link_names)
print('svc.interfaces view has', len(svc.interfaces), 'entries, svc.interface_list has', len(svc.interface_list))
print('topology.links view has', len(t.links), 'entries, model has', len(link_names), 'links')

violations = []
if len(set(port_names)) != len(port_names):
    violations.append('duplicate interface names within one network service')
if len(set(link_names)) != len(link_names):
    violations.append('duplicate link names within the topology')
if len(svc.interfaces) != len(port_names):
    violations.append('service.interfaces view does not list every interface of the service')
if len(t.links) != len(link_names):
    violations.append('topology.links view does not list every link of the model')

if violations:
    print('VIOLATION:', violations)
    sys.exit(1)
print('property held')
sys.exit(0)
