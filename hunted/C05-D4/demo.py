import os, sys
FIM_ROOT = os.environ.get('FIM_ROOT') or os.path.dirname(os.path.dirname(os.path.dirname(os.path.abspath(__file__))))
sys.path.insert(0, FIM_ROOT)
# C05-D4: the two backends disagree when the other/own graph is empty (deleted):
#   find_matching_nodes, serialize_graph and clone_graph
from fim.graph.networkx_property_graph import NetworkXGraphImporter, NetworkXPropertyGraph
from fim.graph.networkx_property_graph_disjoint import NetworkXGraphImporterDisjoint, NetworkXPropertyGraphDisjoint

def mk(kind, gid):
    if kind == 'shared':
        g = NetworkXPropertyGraph(graph_id=gid, importer=NetworkXGraphImporter())
    else:
        g = NetworkXPropertyGraphDisjoint(graph_id=gid, importer=NetworkXGraphImporterDisjoint())
    g.delete_graph()
    return g

def attempt(f):
    try:
        r = f()
        if isinstance(r, str):
            r = 'str(len>0)' if r else "''"
        return ('ok', r if not hasattr(r, 'graph_id') else 'graph-object')
    except BaseException as e:
        return ('raised', type(e).__name__)

out = {}
for kind in ('shared', 'disjoint'):
    g = mk(kind, 'c05d4-g')
    h = mk(kind, 'c05d4-h')
    g.add_node(node_id='n1', label='NetworkNode')
    h.add_node(node_id='n1', label='NetworkNode')
    first = attempt(lambda: g.find_matching_nodes(other_graph=h))
    h.delete_graph()
    out[kind] = {
        'find_matching_nodes(before delete)': first,
        'find_matching_nodes(other deleted)': attempt(lambda: g.find_matching_nodes(other_graph=h)),
        'serialize_graph(deleted graph)': attempt(lambda: h.serialize_graph()),
        'clone_graph(deleted graph)': attempt(lambda: h.clone_graph(new_graph_id='c05d4-clone')),
    }
diff = []
for k in out['shared']:
    print('%-40s shared=%-32s disjoint=%s' % (k, out['shared'][k], out['disjoint'][k]))
    if out['shared'][k] != out['disjoint'][k]:
        diff.append(k)
if diff:
    print('VIOLATION: the two in-memory backends disagree on:', diff)
    sys.exit(1)
print('property held')
sys.exit(0)
