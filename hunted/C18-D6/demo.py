import os, sys
HERE = os.path.dirname(os.path.abspath(__file__))
FIM_ROOT = os.environ.get("FIM_ROOT", os.path.dirname(os.path.dirname(HERE)))
sys.path.insert(0, FIM_ROOT)

import json
from fim.slivers.component_catalog import ComponentCatalog
from fim.slivers.attached_components import ComponentType
from fim.slivers.capacities_labels import Labels, Capacities
from fim.slivers.instance_catalog import InstanceCatalog

CATALOG = json.load(open(os.path.join(FIM_ROOT, "fim", "slivers", "data", "component_catalog.json")))


def entry(ctype, model):
    return next(c for c in CATALOG if c["Type"] == ctype and c["Model"] == model)


def interfaces_of(cs):
    ns = list(cs.network_service_info.network_services.values())[0]
    return ns.interface_info.interfaces


# get_instance_capacities()/list_instances() hand out the catalogue's own Capacities objects
ic = InstanceCatalog()
name = 'fabric.c4.m4.d10'
cap = ic.get_instance_capacities(instance_type=name)
print(name, '->', cap)
# a caller derives a request from a catalogue size and bumps the disk
cap.disk = 2000
request = Capacities(core=2, ram=2, disk=1500)
got = ic.map_capacities_to_instance(cap=request)
now = InstanceCatalog().get_instance_capacities(instance_type=got)
print('request', request, '-> mapped to', got, 'whose capacities now read', now)
ok_name = (now.core, now.ram, now.disk) == (4, 4, 10)
if got == name or not ok_name:
    print('VIOLATION: after a caller modified the object returned by get_instance_capacities, the size named '
          'c4.m4.d10 reports disk=2000 and is returned for a 1500G request (no catalogue size has more '
          'than 1000G); name and capacities no longer agree for any later caller in the process')
    sys.exit(1)
print('property held')
sys.exit(0)
