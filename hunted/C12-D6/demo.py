import os, sys
FIM_ROOT = os.environ.get('FIM_ROOT') or os.path.abspath(os.path.join(os.path.dirname(os.path.abspath(__file__)), '..', '..'))
sys.path.insert(0, FIM_ROOT)
"""
C12: "Turning pools into per-node delegations and reading those back reconstructs the
same pools: one definition per pool ..., the same delegation id and details".
Pools.generate_delegations_by_node_id() does not work from the pool registry
(pool_by_id) but from the cached by-delegation index (pools_by_delegation), and takes the
delegation id from the KEY of that cache, not from the pool:
 (a) if the index has never been built it silently returns {} - every pool is dropped
     (all other users of the index raise PoolException in this state), and
     annotate_delegations_and_pools()/single_delegation() then write no pool at all;
 (b) if pools were added or re-delegated after the index was built, the new pool is
     silently omitted and the old delegation id is emitted.
"""
from fim.slivers.delegations import Pools, Pool, DelegationType, Delegations
from fim.slivers.capacities_labels import Capacities

C = DelegationType.CAPACITY


def mk(pool_id, del_id, on, for_):
    p = Pool(atype=C, pool_id=pool_id, delegation_id=del_id, defined_on=on, defined_for=for_)
    p.set_pool_details(Capacities(core=4))
    return p


def describe(ps):
    return {pid: (p.get_delegation_id(), p.get_defined_on(), sorted(p.get_defined_for()))
            for pid, p in ps.pool_by_id.items()}


def read_back(per_node):
    back = Pools(atype=C)
    for node, ds in per_node.items():
        back.incorporate_delegation(node_id=node, deleg=Delegations.from_json(json_str=ds.to_json(), atype=C))
    return back


bad = []

# (a) never indexed
ps = Pools(atype=C)
ps.add_pool(pool=mk('p1', 'del1', 'A', ['B']))
ps.validate_pools()
out = ps.generate_delegations_by_node_id()
print('(a) valid, validated pools, index never built -> generated delegations:', out)
if describe(read_back(out)) != describe(ps):
    bad.append('a')

# (b) index built, then the pools change
ps = Pools(atype=C)
p1 = mk('p1', 'del1', 'A', ['B'])
ps.add_pool(pool=p1)
ps.build_index_by_delegation_id()
p1.set_delegation_id(delegation_id='del2')          # re-delegated
ps.add_pool(pool=mk('p2', 'del3', 'X', ['Y']))      # new pool
ps.validate_pools()
out = ps.generate_delegations_by_node_id()
back = read_back(out)
print('(b) pools now      :', describe(ps))
print('    generated      :', {n: d.to_json() for n, d in out.items()})
print('    pools read back:', describe(back))
if describe(back) != describe(ps):
    bad.append('b')

if bad:
    print('VIOLATION: delegations generated from the pools do not reconstruct the same pools in cases', bad)
    sys.exit(1)
print('property held')
sys.exit(0)
