#!/usr/bin/env python
"""
C16-D3: a rejected name assignment on a model element still stores the rejected name on the element.

ModelElement.name's setter writes self._name = value *before* it calls set_property('name', value),
which validates against the sliver's NAME_REGEX and raises.  After the ValueError the graph still has
the old name, but element.name (and therefore hash()/== of the element, which are built on name)
returns the out-of-domain string.  rename() goes through the same setter.  Happens for every element
kind (Node, Component, Interface, NetworkService).  Exit 1 when the violation manifests.
"""
import os
import re
import sys

HERE = os.path.dirname(os.path.abspath(__file__))
ROOT = os.environ.get('FIM_ROOT', os.path.dirname(os.path.dirname(HERE)))
sys.path.insert(0, ROOT)

from fim.user.topology import ExperimentTopology
from fim.user.node import NodeType
from fim.user.component import ComponentType
from fim.user.network_service import ServiceType
from fim.graph.abc_property_graph import ABCPropertyGraph
from fim.slivers.network_node import NodeSliver
from fim.slivers.attached_components import ComponentSliver
from fim.slivers.network_service import NetworkServiceSliver
from fim.slivers.interface_info import InterfaceSliver

topo = ExperimentTopology()
node = topo.add_node(name='node1', site='RENC', ntype=NodeType.VM)
comp = node.add_component(name='nic1', ctype=ComponentType.SharedNIC, model='ConnectX-6')
iface = comp.interface_list[0]
ns = topo.add_network_service(name='net1', nstype=ServiceType.L2Bridge, interfaces=[iface])

BAD = 'bad name!\n'          # '!' and newline are in none of the NAME_REGEX alphabets

violations = 0
for how in ('assign', 'rename'):
    for elem, sliver_cls in ((node, NodeSliver), (comp, ComponentSliver), (iface, InterfaceSliver),
                             (ns, NetworkServiceSliver)):
        assert re.fullmatch(sliver_cls.NAME_REGEX, BAD) is None
        old = elem.name
        old_hash = hash(elem)
        try:
            if how == 'assign':
                elem.name = BAD
            else:
                elem.rename(BAD)
            raised = None
        except Exception as e:
            raised = type(e).__name__
        in_graph = topo.graph_model.get_node_properties(node_id=elem.node_id)[1][ABCPropertyGraph.PROP_NAME]
        kept = elem.name
        verdict = 'ok      ' if kept == old else 'STORED  '
        print(f'   {verdict}{type(elem).__name__:15s} {how:6s}: raised={raised}, graph Name={in_graph!a}, '
              f'element.name={kept!a}, hash changed={hash(elem) != old_hash}')
        if kept != old:
            violations += 1
        # restore for the next round (a valid assignment goes through)
        elem.name = old
        assert elem.name == old

if violations:
    print(f'VIOLATION: {violations} rejected name assignments left the out-of-domain name stored on the model element')
    sys.exit(1)
print('property held')
sys.exit(0)
