import os, sys
FIM_ROOT = os.environ.get('FIM_ROOT') or os.path.abspath(os.path.join(os.path.dirname(os.path.abspath(__file__)), '..', '..'))
sys.path.insert(0, FIM_ROOT)
"""
C02: "unsetting it makes it read as absent" / a sliver converted to dict/JSON or graph
and back "comes back with ... the same value for every settable property".
The gateway of a network service is never read back as absent: Gateway.from_json(None)
wraps the missing value into a Gateway object (with lab=None) instead of returning None,
unlike every other from_json in the family.
"""
from fim.user.topology import ExperimentTopology
from fim.user import ComponentModelType, ServiceType
from fim.graph.abc_property_graph import ABCPropertyGraph
from fim.slivers.json import JSONSliver
from fim.slivers.network_service import NetworkServiceSliver
from fim.slivers.network_service import ServiceType as ST, NSLayer
from fim.slivers.gateway import Gateway
from fim.slivers.capacities_labels import Labels

bad = []

# (a) sliver -> JSON -> sliver: gateway was never set
s = NetworkServiceSliver(); s.set_name('net1'); s.set_type(ST.FABNetv4); s.set_layer(NSLayer.L3)
r = JSONSliver.network_service_sliver_from_json(JSONSliver.sliver_to_json(s))
print('(a) original gateway:', repr(s.get_gateway()), '| rebuilt gateway is None:', r.get_gateway() is None,
      '| type:', type(r.get_gateway()).__name__)
if (s.get_gateway() is None) != (r.get_gateway() is None):
    bad.append('a')

# (b) element API: set, read, unset, read
t = ExperimentTopology()
n = t.add_node(name='n1', site='RENC')
c = n.add_component(name='nic1', model_type=ComponentModelType.SharedNIC_ConnectX_6)
ns = t.add_network_service(name='net1', nstype=ServiceType.FABNetv4, interfaces=[c.interface_list[0]])
ns.set_property('gateway', Gateway(Labels(ipv4_subnet='10.0.0.0/24', ipv4='10.0.0.1')))
print('(b) after set  :', repr(ns.get_property('gateway')))
ns.unset_property('gateway')
_, props = t.graph_model.get_node_properties(node_id=ns.node_id)
after = ns.get_property('gateway')
print('    after unset: graph has Gateway property:', ABCPropertyGraph.PROP_GATEWAY in props,
      '| get_property is None:', after is None, '| value:', repr(after), type(after).__name__,
      '| truthy:', bool(after))
if after is not None:
    bad.append('b')

if bad:
    print('VIOLATION in cases', bad, ': an absent gateway reads back as a Gateway object, not as absent')
    sys.exit(1)
print('property held')
sys.exit(0)
