#!/usr/bin/env python
"""C10-D3: for service types without a site limit (L2Multisite, L3VPN) the sites of the connected nodes are never
computed, so a declared site that disagrees with the connected nodes is accepted and nothing is inferred/recorded.
"""
import os, sys
sys.dont_write_bytecode = True
HERE = os.path.dirname(os.path.abspath(__file__))
ROOT = os.environ.get('FIM_ROOT', os.path.dirname(os.path.dirname(HERE)))
sys.path.insert(0, ROOT)

from fim.user.topology import ExperimentTopology
from fim.slivers.network_service import ServiceType, NetworkServiceSliver
from fim.slivers.component_catalog import ComponentModelType


def accepted(t):
    try:
        t.validate()
        return True, None
    except Exception as e:
        return False, f'{type(e).__name__}: {e}'


def vm(t, name, site):
    n = t.add_node(name=name, site=site)
    c = n.add_component(name='nic1', model_type=ComponentModelType.SmartNIC_ConnectX_6)
    return n, c


def case(nstype, node_sites, declared):
    t = ExperimentTopology()
    ifs = []
    for k, site in enumerate(node_sites):
        _, c = vm(t, f'n{k}', site)
        ifs.append(c.interface_list[0])
    s = t.add_network_service(name='svc', nstype=nstype, interfaces=ifs, site=declared)
    ok, why = accepted(t)
    return ok, why, s.site


violations = 0
rows = []
for nstype in (ServiceType.L2Bridge, ServiceType.L2STS, ServiceType.L2Multisite, ServiceType.L3VPN):
    lim = NetworkServiceSliver.ServiceConstraints[nstype].num_sites
    # (a) declared site Z, all connected nodes at A            -> disagreement, must be rejected
    ok_a, why_a, _ = case(nstype, ['A', 'A'], 'Z')
    # (b) declared site Z, nodes at A and B (where permitted)   -> multi-site with a declared site, rejected
    ok_b, why_b, _ = case(nstype, ['A', 'B'], 'Z') if lim != 1 else (None, None, None)
    # (c) nothing declared, all nodes at A                      -> accepted and site 'A' recorded
    ok_c, _, site_c = case(nstype, ['A', 'A'], None)
    print(f'{str(nstype):12} num_sites={lim}: declared Z/nodes A,A -> {"ACCEPTED" if ok_a else "rejected"}; '
          f'declared Z/nodes A,B -> {"n/a" if ok_b is None else ("ACCEPTED" if ok_b else "rejected")}; '
          f'undeclared/nodes A,A -> accepted={ok_c}, recorded site={site_c!r}')
    if ok_a:
        violations += 1
        print(f'   ^ declared site Z disagrees with the site A of every connected node, yet validate() succeeded')
    if ok_b:
        violations += 1
        print(f'   ^ same check that rejects L2STS (multi-site with a declared site) is skipped')

if violations:
    print(f'VIOLATION: {violations} declared-site disagreements accepted')
    sys.exit(1)
print('property held')
sys.exit(0)
