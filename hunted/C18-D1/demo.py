import os, sys
HERE = os.path.dirname(os.path.abspath(__file__))
FIM_ROOT = os.environ.get("FIM_ROOT", os.path.dirname(os.path.dirname(HERE)))
sys.path.insert(0, FIM_ROOT)

import json
from fim.slivers.component_catalog import ComponentCatalog
from fim.slivers.attached_components import ComponentType
from fim.slivers.capacities_labels import Labels, Capacities
from fim.slivers.instance_catalog import InstanceCatalog

CATALOG = json.load(open(os.path.join(FIM_ROOT, "fim", "slivers", "data", "component_catalog.json")))


def entry(ctype, model):
    return next(c for c in CATALOG if c["Type"] == ctype and c["Model"] == model)


def interfaces_of(cs):
    ns = list(cs.network_service_info.network_services.values())[0]
    return ns.interface_info.interfaces


# unit count of a dedicated port whose bdf label is a single PCI address (a string, not a list)
cc = ComponentCatalog()
cs = cc.generate_component(name='nic1', ctype=ComponentType.SmartNIC, model='ConnectX-6',
                           interface_node_ids=['id-p1', 'id-p2'],
                           interface_labels=[Labels(bdf='0000:41:00.0', mac='04:3F:72:B7:15:74'),
                                             Labels(bdf='0000:41:00.1', mac='04:3F:72:B7:15:75')])
bad = False
for name, isl in interfaces_of(cs).items():
    print(name, 'labels:', isl.get_labels(), 'capacities:', isl.get_capacities())
    # one PCI device behind the port -> one unit
    if isl.get_capacities().unit != 1:
        bad = True
if bad:
    print("VIOLATION: a port with ONE bdf gets unit=%d = len('0000:41:00.0'), the number of characters of the "
          "PCI address" % isl.get_capacities().unit)
    sys.exit(1)
print('property held')
sys.exit(0)
