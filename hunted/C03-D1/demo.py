#!/usr/bin/env python3
"""
C03-D1: JSONField.from_json does not tolerate an unknown key whose value is not of the
type the class expects for its *known* fields: the type assertions in _set_fields run
before the "is this field known?" test, so a forward-compatible JSON text makes decoding
raise AssertionError/TypeError instead of skipping the unknown key.
Exit 1 when the violation manifests, 0 when every text decodes and keeps its known fields.
"""
import os
import sys

ROOT = os.environ.get('FIM_ROOT') or os.path.dirname(os.path.dirname(os.path.dirname(os.path.abspath(__file__))))
sys.path.insert(0, ROOT)

from fim.slivers.capacities_labels import Capacities, CapacityHints, Labels, ReservationInfo, \
    StructuralInfo, Location, Flags
from fim.slivers.gateway import Gateway

# (class, own encoding of a constructible value with one extra unknown key added, known field, expected value)
CASES = [
    (Labels, '{"vlan": "100", "priority": 5}', 'vlan', '100'),
    (Labels, '{"vlan": "100", "shared": true}', 'vlan', '100'),
    (Labels, '{"vlan": "100", "extra": {"a": "b"}}', 'vlan', '100'),
    (Labels, '{"vlan": "100", "extra": null}', 'vlan', '100'),
    (Capacities, '{"cpu": 2, "gpu_model": "A100"}', 'cpu', 2),
    (Capacities, '{"cpu": 2, "clock_ghz": 2.5}', 'cpu', 2),
    (CapacityHints, '{"instance_type": "fabric.c4.m16.d10", "version": 2}', 'instance_type', 'fabric.c4.m16.d10'),
    (ReservationInfo, '{"reservation_id": "abc", "retries": 3}', 'reservation_id', 'abc'),
    (StructuralInfo, '{"sub_graph_id": "g1", "stitch": true}', 'sub_graph_id', 'g1'),
    (Location, '{"postal": "100 Europa Dr", "altitude": 120}', 'postal', '100 Europa Dr'),
    (Flags, '{"auto_config": false, "auto_mount": false, "ipv4_management": false, "ptp": true, "level": "high"}',
     'ptp', True),
]

failures = 0
for cls, text, field, expected in CASES:
    try:
        obj = cls.from_json(text)
        got = getattr(obj, field)
        ok = got == expected
        print(f'{cls.__name__}.from_json({text!r}) -> {field}={got!r} {"OK" if ok else "KNOWN FIELD LOST"}')
        if not ok:
            failures += 1
    except BaseException as e:
        failures += 1
        print(f'{cls.__name__}.from_json({text!r}) RAISED {type(e).__name__}: {e}')

# the same happens one level up for the gateway codec, which decodes through Labels
try:
    gw = Gateway.from_json('{"ipv4": "192.168.1.1", "ipv4_subnet": "192.168.1.0/24", "metric": 10}')
    print('Gateway.from_json with unknown int field ->', gw)
except BaseException as e:
    failures += 1
    print(f'Gateway.from_json with unknown int field RAISED {type(e).__name__}: {e}')

# control: an unknown key whose value happens to have the "right" type is tolerated
ctl = Labels.from_json('{"vlan": "100", "priority": "5"}')
print('control (unknown key with a string value):', ctl.to_json())

if failures:
    print(f'VIOLATION: {failures} JSON texts with an extra unknown key could not be decoded')
    sys.exit(1)
print('property held')
sys.exit(0)
