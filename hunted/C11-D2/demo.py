#!/usr/bin/env python
"""C11-D2: the in-slice exemption for port-mirror services compares port names only. A mirror service at
site RENC that mirrors port 'HundredGigE0/0/0/5' of the RENC switch (a port the slice does not use) is
exempted because the slice uses a port with the same name at another site (UKY)."""
import os
import sys

FIM_ROOT = os.environ.get('FIM_ROOT') or os.path.dirname(os.path.dirname(os.path.dirname(os.path.abspath(__file__))))
sys.path.insert(0, FIM_ROOT)

from fim.user.topology import ExperimentTopology
from fim.user import ComponentModelType, ServiceType
from fim.slivers.capacities_labels import Capacities, Labels
from fim.authz.attribute_collector import ResourceAuthZAttributes as R
from fim.graph.slices.networkx_asm import NetworkXGraphImporter, NetworkXASMFactory

PORT = 'HundredGigE0/0/0/5'     # every site's dataplane switch has a port with this name

t = ExperimentTopology()
n1 = t.add_node(name='n1', site='RENC', capacities=Capacities(core=2, ram=8, disk=10))
nic1 = n1.add_component(name='nic1', model_type=ComponentModelType.SmartNIC_ConnectX_6)
n2 = t.add_node(name='n2', site='UKY', capacities=Capacities(core=2, ram=8, disk=10))
nic2 = n2.add_component(name='nic1', model_type=ComponentModelType.SmartNIC_ConnectX_6)

# n2 (UKY) is attached to a bridge; the service port records the UKY switch port it is plugged into
t.add_network_service(name='br', nstype=ServiceType.L2Bridge, interfaces=[nic2.interface_list[0]])
nic2.interface_list[0].get_peers()[0].set_property('labels', Labels(local_name=PORT))

# a mirror service at RENC that taps the RENC switch port of the same name - a port the slice does NOT use
pm = t.add_port_mirror_service(name='pm', from_interface_name=PORT, to_interface=nic1.interface_list[0])
t.validate()
print(f'mirror service: site {pm.site}, mirrored port {pm.mirror_port}')

# ports of the slice, with their sites
in_slice = set()
for node in t.nodes.values():
    for ifs in node.interface_list:
        peers = ifs.get_peers()
        if peers and peers[0].labels and peers[0].labels.local_name:
            in_slice.add((node.site, peers[0].labels.local_name))
print('ports used by the slice (site, port):', in_slice)
expected = {pm.site} if (pm.site, pm.mirror_port) not in in_slice else set()

violations = 0
asm = NetworkXASMFactory.create(NetworkXGraphImporter().import_graph_from_string(graph_string=t.serialize()))
for name, src in (('topology', t), ('serialized model', asm)):
    az = R()
    az.collect_resource_attributes(source=src)
    got = set(az.attributes.get(R.RESOURCE_MIRROR_SITE, []))
    print(f'{name:17s} mirror sites expected {expected} request has {got}')
    if got != expected:
        violations += 1

if violations:
    print('VIOLATION: the site of a mirror service whose mirrored port is outside the slice is not named')
    sys.exit(1)
print('property held')
sys.exit(0)
