import os, sys
FIM_ROOT = os.environ.get('FIM_ROOT') or os.path.abspath(os.path.join(os.path.dirname(os.path.abspath(__file__)), '..', '..'))
sys.path.insert(0, FIM_ROOT)
"""
C02: a node sliver whose interface carries sub-interfaces is written into a model
graph with add_network_node_sliver() and rebuilt with build_deep_node_sliver().
The rebuilt sliver must have the same structure (sub-interfaces included).
"""
import uuid
from fim.graph.networkx_property_graph import NetworkXGraphImporter, NetworkXPropertyGraph
from fim.graph.abc_property_graph import ABCPropertyGraph
from fim.slivers.network_node import NodeSliver, NodeType
from fim.slivers.network_service import NetworkServiceSliver, NetworkServiceInfo, ServiceType, NSLayer
from fim.slivers.interface_info import InterfaceSliver, InterfaceInfo, InterfaceType
from fim.slivers.attached_components import ComponentSliver, ComponentType, AttachedComponentsInfo
from fim.slivers.capacities_labels import Labels


def nid():
    return str(uuid.uuid4())


def shape(s):
    """nested (class, name, [children]) description of a deep sliver"""
    kids = []
    for attr, lister in (('attached_components_info', 'list_devices'),
                         ('network_service_info', 'list_services'),
                         ('interface_info', 'list_interfaces')):
        info = getattr(s, attr, None)
        if info is not None:
            kids.extend(shape(c) for c in getattr(info, lister)())
    return type(s).__name__, s.get_name(), sorted(kids)


sub = InterfaceSliver(); sub.node_id = nid(); sub.set_name('p1.100'); sub.set_type(InterfaceType.SubInterface)
sub.set_labels(Labels(vlan='100'))
port = InterfaceSliver(); port.node_id = nid(); port.set_name('p1'); port.set_type(InterfaceType.DedicatedPort)
port.interface_info = InterfaceInfo(); port.interface_info.add_interface(sub)
ns = NetworkServiceSliver(); ns.node_id = nid(); ns.set_name('nic1-ns'); ns.set_type(ServiceType.OVS); ns.set_layer(NSLayer.L2)
ns.interface_info = InterfaceInfo(); ns.interface_info.add_interface(port)
comp = ComponentSliver(); comp.node_id = nid(); comp.set_name('nic1'); comp.set_type(ComponentType.SmartNIC); comp.set_model('ConnectX-6')
comp.network_service_info = NetworkServiceInfo(); comp.network_service_info.add_network_service(ns)
node = NodeSliver(); node.node_id = nid(); node.set_name('node1'); node.set_type(NodeType.VM); node.set_site('RENC')
node.attached_components_info = AttachedComponentsInfo(); node.attached_components_info.add_device(comp)

graph = NetworkXPropertyGraph(graph_id=nid(), importer=NetworkXGraphImporter())
graph.add_network_node_sliver(sliver=node)
rebuilt = graph.build_deep_node_sliver(node_id=node.node_id)

# the dictionary form keeps the sub-interface, so the two conversions disagree too
via_dict = ABCPropertyGraph.build_deep_node_sliver_from_dict(props=ABCPropertyGraph.sliver_to_dict(node))

print('original :', shape(node))
print('via graph:', shape(rebuilt))
print('via dict :', shape(via_dict))
cp_count = len(graph.get_all_nodes_by_class(label=ABCPropertyGraph.CLASS_ConnectionPoint))
print('ConnectionPoint nodes in graph:', cp_count, '(2 expected)')

if shape(rebuilt) != shape(node):
    print('VIOLATION: the sub-interface was not written into the graph, structure differs after rebuild')
    sys.exit(1)
print('property held')
sys.exit(0)
