#!/usr/bin/env python3
"""
C03-D3: an unknown JSON key that coincides with the name of a method or class attribute of the
codec class (to_json, update, list_fields, VALIDATORS, UNITS, ...) is not recognised as unknown.
It is stored on the decoded instance, where it (a) becomes part of the wire schema, so re-encoding
no longer gives the text of the known fields, and (b) shadows the method, so the decoded value can
no longer be encoded at all.
Exit 1 when the violation manifests.
"""
import os
import sys

ROOT = os.environ.get('FIM_ROOT') or os.path.dirname(os.path.dirname(os.path.dirname(os.path.abspath(__file__))))
sys.path.insert(0, ROOT)

from fim.slivers.capacities_labels import Capacities, Labels, Location

bad = 0

# reference: an ordinary unknown key is skipped and the known fields re-encode to the own text
ref = Labels.from_json('{"vlan": "100", "colour": "red"}')
print('reference, ordinary unknown key  ->', ref.to_json())
assert ref.to_json() == '{"vlan": "100"}'

# 1. unknown key named like a method: decoded object can no longer be encoded
lab = Labels.from_json('{"vlan": "100", "to_json": "v2"}')
print('Labels decoded fields            ->', {k: v for k, v in lab.__dict__.items() if v is not None})
try:
    print('Labels re-encoded                ->', lab.to_json())
    if lab.to_json() != '{"vlan": "100"}':
        bad += 1
except BaseException as e:
    bad += 1
    print(f'Labels re-encode RAISED {type(e).__name__}: {e}')

# 2. unknown key named like a class attribute: it leaks into the wire schema of the instance
cap = Capacities.from_json('{"cpu": 2, "UNITS": 7}')
enc = cap.to_json()
print('Capacities re-encoded            ->', enc)
if enc != '{"cpu": 2}':
    bad += 1
try:
    print('Capacities printed               ->', str(cap))
except BaseException as e:
    print(f'Capacities __str__ RAISED {type(e).__name__}: {e}')

# 3. same for another subclass / another method name; list_fields() (the schema listing) is destroyed
loc = Location.from_json('{"postal": "100 Europa Dr", "list_fields": "x"}')
enc = loc.to_json()
print('Location re-encoded              ->', enc)
if enc != '{"postal": "100 Europa Dr"}':
    bad += 1

if bad:
    print(f'VIOLATION: {bad} unknown keys were absorbed into the decoded value instead of being ignored')
    sys.exit(1)
print('property held')
sys.exit(0)
