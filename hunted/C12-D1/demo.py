import os, sys
FIM_ROOT = os.environ.get('FIM_ROOT') or os.path.abspath(os.path.join(os.path.dirname(os.path.abspath(__file__)), '..', '..'))
sys.path.insert(0, FIM_ROOT)
"""
C12: "... details on a reference are always rejected".
Delegation.set_details() refuses details on a PoolReference, but the decoder
Delegations.from_json() accepts a text in which a pool reference carries capacities or
labels: the details are silently thrown away and a plain reference is returned.
"""
import json
from fim.slivers.delegations import Delegations, DelegationType, DelegationFormat, Delegation, DelegationException
from fim.slivers.capacities_labels import Capacities, Labels

bad = []

# the object-level guard works
try:
    d = Delegation(atype=DelegationType.CAPACITY, delegation_id='del1',
                   aformat=DelegationFormat.PoolReference, pool_id='pool1')
    d.set_details(Capacities(core=4))
    print('set_details on a reference: accepted (unexpected)')
    bad.append('set_details')
except DelegationException as e:
    print('set_details on a reference: rejected with DelegationException (good)')

for atype, text in ((DelegationType.CAPACITY, {"del1": {"pool": "pool1", "capacities": {"core": 4, "ram": 16}}}),
                    (DelegationType.LABEL, {"del1": {"pool": "pool1", "labels": {"vlan_range": "100-200"}}})):
    s = json.dumps(text)
    try:
        ds = Delegations.from_json(json_str=s, atype=atype)
        d = ds.get_by_delegation_id('del1')
        print(f'from_json({s}) -> accepted: format={d.get_format().name} pool={d.get_pool_name()} '
              f'details={d.get_details()!r}; re-encoded: {ds.to_json()}')
        bad.append(atype.name)
    except Exception as e:
        print(f'from_json({s}) -> rejected with {type(e).__name__}: {e}')

if bad:
    print('VIOLATION: a pool reference carrying details was accepted (details silently dropped) for', bad)
    sys.exit(1)
print('property held')
sys.exit(0)
