#!/usr/bin/env python
"""
C06-D1: get_first_and_second_neighbor() ignores rel2.

The second hop is supposed to be restricted to edges of relation rel2, but the
per-relation drop list of the second hop is filled with the *first* neighbour (n)
instead of the offending second neighbour (k), so nothing is ever dropped and nodes
joined to the first neighbour by any other relation are returned as well.
Exit 1 when the violation manifests.
"""
import os
import sys

HERE = os.path.dirname(os.path.abspath(__file__))
ROOT = os.environ.get('FIM_ROOT', os.path.dirname(os.path.dirname(HERE)))
sys.path.insert(0, ROOT)

from fim.graph.networkx_property_graph import NetworkXGraphImporter, NetworkXPropertyGraph
from fim.graph.networkx_property_graph_disjoint import NetworkXGraphImporterDisjoint, \
    NetworkXPropertyGraphDisjoint

NODES = {'node': 'NetworkNode', 'ns': 'NetworkService', 'cp_ok': 'ConnectionPoint', 'cp_wrong': 'ConnectionPoint'}
EDGES = [('node', 'has', 'ns'),
         ('ns', 'connects', 'cp_ok'),      # the only legitimate second hop for rel2='connects'
         ('ns', 'depends', 'cp_wrong')]    # joined by another relation - must not be returned


def oracle(start, rel1, c1, rel2, c2):
    def rel(a, b):
        for x, r, y in EDGES:
            if {x, y} == {a, b}:
                return r
        return None
    out = set()
    for m in NODES:
        if m != start and rel(start, m) == rel1 and NODES[m] == c1:
            for k in NODES:
                if k not in (start, m) and rel(m, k) == rel2 and NODES[k] == c2:
                    out.add((m, k))
    return out


bad = False
for imp_cls, g_cls in ((NetworkXGraphImporter, NetworkXPropertyGraph),
                       (NetworkXGraphImporterDisjoint, NetworkXPropertyGraphDisjoint)):
    imp = imp_cls()
    imp.delete_all_graphs()
    g = g_cls(graph_id='c06d1', importer=imp)
    for nid, cls in NODES.items():
        g.add_node(node_id=nid, label=cls)
    for a, r, b in EDGES:
        g.add_link(node_a=a, rel=r, node_b=b)

    got = g.get_first_and_second_neighbor(node_id='node', rel1='has', node1_label='NetworkService',
                                          rel2='connects', node2_label='ConnectionPoint')
    exp = oracle('node', 'has', 'NetworkService', 'connects', 'ConnectionPoint')
    print(f'{g_cls.__name__}: two-hop has/NetworkService -> connects/ConnectionPoint')
    print('   returned :', sorted(tuple(x) for x in got))
    print('   expected :', sorted(exp))
    if {tuple(x) for x in got} != exp:
        bad = True

    # derived helper is affected as well
    cps = g.get_all_node_or_component_connection_points(parent_node_id='node')
    print('   get_all_node_or_component_connection_points:', sorted(cps), '(expected [\'cp_ok\'])')
    if sorted(cps) != ['cp_ok']:
        bad = True
    imp.delete_all_graphs()

if bad:
    print('VIOLATION: second hop is not restricted to the requested relation')
    sys.exit(1)
print('property held')
sys.exit(0)
