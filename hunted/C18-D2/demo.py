import os, sys
HERE = os.path.dirname(os.path.abspath(__file__))
FIM_ROOT = os.environ.get("FIM_ROOT", os.path.dirname(os.path.dirname(HERE)))
sys.path.insert(0, FIM_ROOT)

import json
from fim.slivers.component_catalog import ComponentCatalog
from fim.slivers.attached_components import ComponentType
from fim.slivers.capacities_labels import Labels, Capacities
from fim.slivers.instance_catalog import InstanceCatalog

CATALOG = json.load(open(os.path.join(FIM_ROOT, "fim", "slivers", "data", "component_catalog.json")))


def entry(ctype, model):
    return next(c for c in CATALOG if c["Type"] == ctype and c["Model"] == model)


def interfaces_of(cs):
    ns = list(cs.network_service_info.network_services.values())[0]
    return ns.interface_info.interfaces


# caller-supplied interface ids without interface labels
cc = ComponentCatalog()
bad = False
for ctype, model in ((ComponentType.SmartNIC, 'ConnectX-6'), (ComponentType.SharedNIC, 'ConnectX-6'),
                     (ComponentType.FPGA, 'Xilinx-U280')):
    e = entry(str(ctype), model)
    ids = ['id-' + p for p in e['Interfaces']]
    try:
        cs = cc.generate_component(name='dev1', ctype=ctype, model=model, interface_node_ids=ids)
        got = [i.node_id for i in interfaces_of(cs).values()]
        print(ctype, model, 'ids ->', got)
        bad |= got != ids
    except Exception as ex:
        print(ctype, model, 'interface_node_ids=%s ->' % ids, type(ex).__name__ + ':', ex)
        bad = True
if bad:
    print('VIOLATION: the right number of interface ids was supplied, labels are optional (default None), '
          'yet the ids never reach the interfaces: generate_component evaluates len(interface_labels) '
          'with interface_labels=None')
    sys.exit(1)
print('property held')
sys.exit(0)
