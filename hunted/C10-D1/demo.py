#!/usr/bin/env python
"""C10-D1: the forbidden node property 'attached_components_info' is never seen by Node.validate_constraints.

NodeSliver.NodeConstraints forbids 'attached_components_info' on Switch, NAS and Facility nodes,
yet a Switch / NAS / Facility that owns a component validates successfully.
"""
import os, sys
sys.dont_write_bytecode = True
HERE = os.path.dirname(os.path.abspath(__file__))
ROOT = os.environ.get('FIM_ROOT', os.path.dirname(os.path.dirname(HERE)))
sys.path.insert(0, ROOT)

from fim.user.topology import ExperimentTopology
from fim.slivers.network_node import NodeType, NodeSliver
from fim.slivers.component_catalog import ComponentModelType


def accepted(t):
    try:
        t.validate()
        return True, None
    except Exception as e:
        return False, f'{type(e).__name__}: {e}'


def build(kind):
    t = ExperimentTopology()
    if kind == NodeType.Switch:
        n = t.add_switch(name='sw1', site='A', nports=2)
    elif kind == NodeType.Facility:
        n = t.add_facility(name='fac1', site='A')
    else:
        n = t.add_node(name='nas1', site='A', ntype=NodeType.NAS)
    return t, n


violations = 0
for kind in (NodeType.Switch, NodeType.NAS, NodeType.Facility):
    forb = NodeSliver.NodeConstraints[kind].forbidden_properties
    assert 'attached_components_info' in forb, 'table changed'
    # control: another forbidden property of the same row IS enforced
    t, n = build(kind)
    n.set_properties(image_ref='img', image_type='qcow2')
    ok, why = accepted(t)
    print(f'{kind}: control (image_ref set)            -> {"ACCEPTED" if ok else "rejected: " + why}')
    # the case: node owns a component, i.e. its attached_components_info is set
    t, n = build(kind)
    n.add_component(name='gpu1', model_type=ComponentModelType.GPU_A30)
    deep = n.get_sliver()
    has_aci = deep.attached_components_info is not None and len(deep.attached_components_info.devices) > 0
    ok, why = accepted(t)
    print(f'{kind}: components={list(n.components.keys())} sliver.attached_components_info set={has_aci} '
          f'-> {"ACCEPTED" if ok else "rejected: " + why}')
    if has_aci and ok:
        violations += 1

if violations:
    print(f'VIOLATION: {violations} node type(s) with the forbidden property attached_components_info passed validate()')
    sys.exit(1)
print('property held')
sys.exit(0)
