#!/usr/bin/env python
"""C10-D2: the site that a successful validate() records on a service is afterwards treated as a user-declared
site, so a topology that meets every constraint is rejected once the node is re-sited / the service is re-homed.
"""
import os, sys
sys.dont_write_bytecode = True
HERE = os.path.dirname(os.path.abspath(__file__))
ROOT = os.environ.get('FIM_ROOT', os.path.dirname(os.path.dirname(HERE)))
sys.path.insert(0, ROOT)

from fim.user.topology import ExperimentTopology
from fim.slivers.network_service import ServiceType
from fim.slivers.component_catalog import ComponentModelType


def accepted(t):
    try:
        t.validate()
        return True, None
    except Exception as e:
        return False, f'{type(e).__name__}: {e}'


def vm(t, name, site):
    n = t.add_node(name=name, site=site)
    c = n.add_component(name='nic1', model_type=ComponentModelType.SmartNIC_ConnectX_6)
    return n, c


violations = 0

# --- scenario 1: one VM with a NIC, no site declared on any service, node re-sited after a validate()
t = ExperimentTopology()
n1, c1 = vm(t, 'n1', 'A')
ok1, _ = accepted(t)
n1.site = 'B'
ok2, why2 = accepted(t)
# oracle: build the very same end state from scratch
f = ExperimentTopology()
vm(f, 'n1', 'B')
okf, _ = accepted(f)
print(f'scenario 1: VM at A validates={ok1}; node.site="B"; validate again -> '
      f'{"ACCEPTED" if ok2 else "REJECTED: " + why2}')
print(f'            identical topology built directly at B -> {"ACCEPTED" if okf else "REJECTED"}')
if ok1 and okf and not ok2:
    violations += 1

# --- scenario 2: L2STS that first spans one site, later (legally) two sites; no site ever declared
t = ExperimentTopology()
n1, c1 = vm(t, 'n1', 'A')
n2, c2 = vm(t, 'n2', 'A')
n3, c3 = vm(t, 'n3', 'B')
s = t.add_network_service(name='sts', nstype=ServiceType.L2STS,
                          interfaces=[c1.interface_list[0], c2.interface_list[0]])
ok1, _ = accepted(t)
s.disconnect_interface(c2.interface_list[0])
s.connect_interface(c3.interface_list[0])
ok2, why2 = accepted(t)
f = ExperimentTopology()
m1, d1 = vm(f, 'n1', 'A')
vm(f, 'n2', 'A')
m3, d3 = vm(f, 'n3', 'B')
f.add_network_service(name='sts', nstype=ServiceType.L2STS, interfaces=[d1.interface_list[0], d3.interface_list[0]])
okf, _ = accepted(f)
print(f'scenario 2: L2STS within A validates={ok1}; one end moved to B; validate again -> '
      f'{"ACCEPTED" if ok2 else "REJECTED: " + why2}')
print(f'            identical topology built directly -> {"ACCEPTED" if okf else "REJECTED"}')
if ok1 and okf and not ok2:
    violations += 1

if violations:
    print(f'VIOLATION: {violations} topologies meeting all constraints (no site was ever declared) were rejected '
          f'because of the site recorded by the previous validate()')
    sys.exit(1)
print('property held')
sys.exit(0)
