#!/usr/bin/env python
"""C01-D2: JSON node-link serialization silently loses a node property named 'id' and edge
properties named 'source' / 'target' (GraphML keeps them)."""
import os
import sys

FIM_ROOT = os.environ.get('FIM_ROOT') or os.path.dirname(os.path.dirname(os.path.dirname(os.path.abspath(__file__))))
sys.path.insert(0, FIM_ROOT)

from fim.graph.networkx_property_graph import NetworkXGraphImporter, NetworkXPropertyGraph
from fim.graph.abc_property_graph import GraphFormat

imp = NetworkXGraphImporter()
g = NetworkXPropertyGraph(graph_id='c01-d2', importer=imp)
g.add_node(node_id='a', label='NetworkNode', props={'Name': 'a', 'id': 'serial-0042'})
g.add_node(node_id='b', label='Component', props={'Name': 'b'})
g.add_link(node_a='a', rel='has', node_b='b', props={'source': 'inventory', 'target': 7})


def view(graph):
    _, n = graph.get_node_properties(node_id='a')
    _, e = graph.get_link_properties(node_a='a', node_b='b')
    n.pop('GraphID')
    return n, e


before = view(g)
print('original       ', before)
violations = 0
for fmt in (GraphFormat.GRAPHML, GraphFormat.JSON_NODELINK):
    text = g.serialize_graph(format=fmt)
    g2 = imp.import_graph_from_string(graph_string=text, graph_id='c01-d2-copy-' + fmt.name)
    g2.validate_graph()
    after = view(g2)
    print(f'{fmt.name:15s}', after, '-> same' if after == before else '-> DIFFERENT')
    if after != before:
        violations += 1

if violations:
    print('VIOLATION: property values lost in the JSON node-link round trip')
    sys.exit(1)
print('property held')
sys.exit(0)
