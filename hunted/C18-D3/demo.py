import os, sys
HERE = os.path.dirname(os.path.abspath(__file__))
FIM_ROOT = os.environ.get("FIM_ROOT", os.path.dirname(os.path.dirname(HERE)))
sys.path.insert(0, FIM_ROOT)

import json
from fim.slivers.component_catalog import ComponentCatalog
from fim.slivers.attached_components import ComponentType
from fim.slivers.capacities_labels import Labels, Capacities
from fim.slivers.instance_catalog import InstanceCatalog

CATALOG = json.load(open(os.path.join(FIM_ROOT, "fim", "slivers", "data", "component_catalog.json")))


def entry(ctype, model):
    return next(c for c in CATALOG if c["Type"] == ctype and c["Model"] == model)


def interfaces_of(cs):
    ns = list(cs.network_service_info.network_services.values())[0]
    return ns.interface_info.interfaces


# caller-supplied interface labels without interface ids: the count is never checked
cc = ComponentCatalog()
bad = False
three = [Labels(mac='04:3F:72:B7:15:70'), Labels(mac='04:3F:72:B7:15:71'), Labels(mac='04:3F:72:B7:15:72')]
try:
    cs = cc.generate_component(name='nic1', ctype=ComponentType.SmartNIC, model='ConnectX-6',
                               interface_labels=three)
    macs = [i.get_labels().mac for i in interfaces_of(cs).values()]
    print('3 labels for the 2 ports of ConnectX-6 accepted; macs on the ports:', macs,
          '- label', three[2].mac, 'landed nowhere and nothing was reported')
    bad = True
except RuntimeError as ex:
    print('3 labels rejected:', ex)
try:
    cs = cc.generate_component(name='nic1', ctype=ComponentType.SmartNIC, model='ConnectX-6',
                               interface_labels=three[:1])
    print('1 label for 2 ports accepted')
    bad = True
except RuntimeError as ex:
    print('1 label rejected:', ex)
except IndexError as ex:
    print('1 label for the 2 ports: IndexError:', ex, '(no count check, the loop runs off the list)')
    bad = True
if bad:
    print('VIOLATION: the label-count check only runs when interface_node_ids is given too; with labels alone '
          'a surplus label is silently dropped and a missing one surfaces as IndexError')
    sys.exit(1)
print('property held')
sys.exit(0)
