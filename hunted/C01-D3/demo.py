#!/usr/bin/env python
"""C01-D3: with the disjoint NetworkX store, importing serialized text under a graph id that is
already in use is silently skipped - the returned graph holds the old content, not the imported one.
The single-store sibling replaces the content."""
import os
import sys

FIM_ROOT = os.environ.get('FIM_ROOT') or os.path.dirname(os.path.dirname(os.path.dirname(os.path.abspath(__file__))))
sys.path.insert(0, FIM_ROOT)

from fim.graph.networkx_property_graph import NetworkXGraphImporter
from fim.graph.networkx_property_graph_disjoint import NetworkXGraphImporterDisjoint
from fim.graph.abc_property_graph import GraphFormat


def content(graph):
    ret = dict()
    for nid in sorted(graph.list_all_node_ids()):
        labels, props = graph.get_node_properties(node_id=nid)
        props.pop('GraphID')
        ret[nid] = (labels, props)
    return ret


violations = 0
for imp_class in (NetworkXGraphImporter, NetworkXGraphImporterDisjoint):
    imp = imp_class()
    model = imp.graph_class(graph_id='model-' + imp_class.__name__, importer=imp)
    model.add_node(node_id='a', label='NetworkNode', props={'Name': 'a'})
    model.add_node(node_id='b', label='Component', props={'Name': 'b'})
    model.add_link(node_a='a', rel='has', node_b='b')
    saved = content(model)

    for fmt in (GraphFormat.GRAPHML, GraphFormat.JSON_NODELINK):
        text = model.serialize_graph(format=fmt)

        # 1. re-assign to an id that another graph uses
        other = imp.graph_class(graph_id='other-' + imp_class.__name__, importer=imp)
        if not other.graph_exists():
            other.add_node(node_id='x', label='Link', props={'Name': 'x'})
        copy1 = imp.import_graph_from_string(graph_string=text, graph_id=other.graph_id)
        ok1 = content(copy1) == saved

        # 2. keep the id: change the live model, then import the saved text again under the same id
        model.update_node_property(node_id='a', prop_name='Name', prop_val='changed-after-save')
        copy2 = imp.import_graph_from_string(graph_string=text, graph_id=model.graph_id)
        ok2 = content(copy2) == saved
        print(f'{imp_class.__name__:30s} {fmt.name:14s} import under an id in use equals the text: {ok1}; '
              f'import under its own id equals the text: {ok2}')
        if not ok1:
            print('    returned graph holds', content(copy1))
        if not ok2:
            print('    returned graph holds', content(copy2))
        if not (ok1 and ok2):
            violations += 1
        # restore for next round
        model.update_node_property(node_id='a', prop_name='Name', prop_val='a')
        other.delete_graph()

if violations:
    print('VIOLATION: the graph returned by the import is not the graph that was serialized')
    sys.exit(1)
print('property held')
sys.exit(0)
