#!/usr/bin/env python
"""
C06-D2: in the disjoint NetworkX store a graph loaded with import_graph_from_string_direct /
import_graph_from_file_direct from a GraphML document with edgedefault="directed" (what Neo4j/yEd
exports and most FIM model files use) is kept as an nx.DiGraph.  All neighbour and path queries then
follow edge direction: first/second neighbours on the source side of an edge are missing and
shortest-path / path-with-hops return [] although a path exists.  The sibling single-store
implementation and the non-direct import of the very same document answer correctly.
Exit 1 when the violation manifests.
"""
import os
import sys

HERE = os.path.dirname(os.path.abspath(__file__))
ROOT = os.environ.get('FIM_ROOT', os.path.dirname(os.path.dirname(HERE)))
sys.path.insert(0, ROOT)

import networkx as nx
from fim.graph.networkx_property_graph import NetworkXGraphImporter
from fim.graph.networkx_property_graph_disjoint import NetworkXGraphImporterDisjoint

# node -has-> comp -has-> ns   (edges written parent -> child, as FIM/Neo4j do)
src = nx.DiGraph()
src.add_node('1', NodeID='node', Class='NetworkNode', GraphID='c06d2', Name='node')
src.add_node('2', NodeID='comp', Class='Component', GraphID='c06d2', Name='comp')
src.add_node('3', NodeID='ns', Class='NetworkService', GraphID='c06d2', Name='ns')
src.add_edge('1', '2', Class='has')
src.add_edge('2', '3', Class='has')
graphml = '\n'.join(nx.generate_graphml(src))
assert 'edgedefault="directed"' in graphml

EXPECTED = {
    'first_neighbor(comp, has, NetworkNode)': ['node'],
    'first_and_second(ns, has/Component, has/NetworkNode)': [['comp', 'node']],
    'shortest_path(ns -> node)': ['ns', 'comp', 'node'],
    'shortest_path(ns -> node, rel=has)': ['ns', 'comp', 'node'],
    'path_with_hops(ns -> node, [comp])': ['ns', 'comp', 'node'],
    'get_parent(comp)': ('node', 'node'),
}


def run(pg):
    return {
        'first_neighbor(comp, has, NetworkNode)':
            pg.get_first_neighbor(node_id='comp', rel='has', node_label='NetworkNode'),
        'first_and_second(ns, has/Component, has/NetworkNode)':
            pg.get_first_and_second_neighbor(node_id='ns', rel1='has', node1_label='Component',
                                             rel2='has', node2_label='NetworkNode'),
        'shortest_path(ns -> node)': pg.get_nodes_on_shortest_path(node_a='ns', node_z='node'),
        'shortest_path(ns -> node, rel=has)': pg.get_nodes_on_shortest_path(node_a='ns', node_z='node', rel='has'),
        'path_with_hops(ns -> node, [comp])': pg.get_nodes_on_path_with_hops(node_a='ns', node_z='node',
                                                                               hops=['comp']),
        'get_parent(comp)': pg.get_parent(node_id='comp', rel='has', parent='NetworkNode'),
    }


bad = False
for imp_cls in (NetworkXGraphImporter, NetworkXGraphImporterDisjoint):
    imp = imp_cls()
    imp.delete_all_graphs()
    pg = imp.import_graph_from_string_direct(graph_string=graphml)
    stored = type(pg.storage.get_graph(pg.graph_id)).__name__
    print(f'{imp_cls.__name__}.import_graph_from_string_direct -> stored as nx.{stored}')
    res = run(pg)
    for k, v in res.items():
        ok = v == EXPECTED[k]
        print(f'   {"ok   " if ok else "WRONG"} {k} = {v}' + ('' if ok else f'   expected {EXPECTED[k]}'))
        bad = bad or not ok
    imp.delete_all_graphs()

if bad:
    print('VIOLATION: queries on a directly imported directed GraphML miss neighbours/paths in the disjoint store')
    sys.exit(1)
print('property held')
sys.exit(0)
