#!/usr/bin/env python
"""C11-D4: the collectors accept 'a member of topology' as a source, but a port-mirror service of the
slice (the object returned by add_port_mirror_service and by topology.network_services[...]) is refused,
so deriving the request service by service cannot name the mirror site."""
import os
import sys

FIM_ROOT = os.environ.get('FIM_ROOT') or os.path.dirname(os.path.dirname(os.path.dirname(os.path.abspath(__file__))))
sys.path.insert(0, FIM_ROOT)

from fim.user.topology import ExperimentTopology
from fim.user import ComponentModelType, ServiceType
from fim.slivers.capacities_labels import Capacities
from fim.authz.attribute_collector import ResourceAuthZAttributes as R
from fim.logging.log_collector import LogCollector

t = ExperimentTopology()
n1 = t.add_node(name='n1', site='RENC', capacities=Capacities(core=2, ram=8, disk=10))
nic = n1.add_component(name='nic1', model_type=ComponentModelType.SmartNIC_ConnectX_6)
t.add_network_service(name='br', nstype=ServiceType.L2Bridge, interfaces=[nic.interface_list[0]],
                      capacities=Capacities(bw=4))
t.add_port_mirror_service(name='pm', from_interface_name='HundredGigE0/0/0/9', to_interface=nic.interface_list[1])
t.validate()

# reference: the whole topology
whole = R()
whole.collect_resource_attributes(source=t)
print('whole topology : mirror sites', whole.attributes.get(R.RESOURCE_MIRROR_SITE))

# member by member, as an AM/broker would do
violations = 0
az, lc = R(), LogCollector()
for n in t.nodes.values():
    az.collect_resource_attributes(source=n)
    lc.collect_resource_attributes(source=n)
for name, ns in t.network_services.items():
    for coll in (az, lc):
        try:
            coll.collect_resource_attributes(source=ns)
        except Exception as e:
            print(f'{type(coll).__name__}: service {name} ({type(ns).__name__}) refused: {e}')
            violations += 1
print('member by member: mirror sites', az.attributes.get(R.RESOURCE_MIRROR_SITE),
      '; services counted', len(lc.attributes['services']), 'of', len(t.network_services))
if az.attributes.get(R.RESOURCE_MIRROR_SITE) != whole.attributes.get(R.RESOURCE_MIRROR_SITE):
    violations += 1

if violations:
    print('VIOLATION: the port-mirror service of the slice cannot be collected')
    sys.exit(1)
print('property held')
sys.exit(0)
