import os, sys
FIM_ROOT = os.environ.get('FIM_ROOT') or os.path.abspath(os.path.join(os.path.dirname(os.path.abspath(__file__)), '..', '..'))
sys.path.insert(0, FIM_ROOT)
"""
C12: "... duplicate ids ... are always rejected".
Delegations.add_delegations() rejects a second delegation with an id that is already
present, but the decoder Delegations.from_json() accepts a text in which the same
delegation id occurs twice: json.loads() silently keeps the last entry, the first
delegation is lost and no error is raised.
"""
from fim.slivers.delegations import Delegations, Delegation, DelegationType, DelegationException
from fim.slivers.capacities_labels import Capacities

C = DelegationType.CAPACITY
bad = []

ds = Delegations(atype=C)
d1 = Delegation(atype=C, delegation_id='del1'); d1.set_details(Capacities(core=4))
d2 = Delegation(atype=C, delegation_id='del1'); d2.set_details(Capacities(core=32))
try:
    ds.add_delegations(d1, d2)
    print('add_delegations with a duplicate id accepted (unexpected)')
    bad.append('add_delegations')
except DelegationException as e:
    print('add_delegations with a duplicate id: rejected with DelegationException (good)')

text = '{"del1": {"pool_id": "_", "capacities": {"core": 4}}, ' \
       '"del1": {"pool_id": "pool7", "capacities": {"core": 32}}}'
try:
    back = Delegations.from_json(json_str=text, atype=C)
    print('from_json(', text, ')')
    print('  -> accepted:', back.to_json())
    bad.append('from_json')
except Exception as e:
    print('from_json with a duplicate id: rejected with', type(e).__name__, e)

if bad:
    print('VIOLATION: duplicate delegation ids accepted by', bad)
    sys.exit(1)
print('property held')
sys.exit(0)
