#!/usr/bin/env python3
"""
C03-D6: JSONField.update (the copy-with-changes operation) copies list-valued fields by reference.
The returned "new value" shares its lists with the original, so completing the change on the new
value (e.g. adding one more element to a list-form label) alters the original as well.
Exit 1 when the violation manifests.
"""
import os
import sys

ROOT = os.environ.get('FIM_ROOT') or os.path.dirname(os.path.dirname(os.path.dirname(os.path.abspath(__file__))))
sys.path.insert(0, ROOT)

from fim.slivers.capacities_labels import Labels, ReservationInfo, StructuralInfo

bad = 0

orig = Labels(bdf=['0000:41:00.0', '0000:41:00.1'], vlan=['100', '101'])
before = orig.to_json()
new = Labels.update(orig, mac='00:11:22:33:44:55')
print('original before        :', before)
print('update() result        :', new.to_json())
print('distinct objects       :', new is not orig, '| list shared:', new.vlan is orig.vlan)
new.vlan.append('102')
new.bdf.remove('0000:41:00.1')
after = orig.to_json()
print('original after editing the new value:', after)
if after != before:
    bad += 1

si = StructuralInfo(adm_graph_ids=['adm-1'])
si_before = si.to_json()
si2 = StructuralInfo.update(si, sub_graph_id='g2')
si2.adm_graph_ids.append('adm-2')
print('StructuralInfo original:', si_before, '->', si.to_json())
if si.to_json() != si_before:
    bad += 1

# plain quasi-copy (no kwargs) has the same aliasing
ri = ReservationInfo(error_message=['e1'])
ri_before = ri.to_json()
ri2 = ReservationInfo.update(ri)
ri2.error_message.append('e2')
print('ReservationInfo original:', ri_before, '->', ri.to_json())
if ri.to_json() != ri_before:
    bad += 1

if bad:
    print(f'VIOLATION: {bad} originals changed through the value returned by update()')
    sys.exit(1)
print('property held')
sys.exit(0)
