import os, sys
FIM_ROOT = os.environ.get('FIM_ROOT') or os.path.dirname(os.path.dirname(os.path.dirname(os.path.abspath(__file__))))
sys.path.insert(0, FIM_ROOT)
# C05-D2: the class of a node can be changed through merge_nodes(..., {'Class': 'overwrite'})
from fim.graph.networkx_property_graph import NetworkXGraphImporter, NetworkXPropertyGraph
from fim.graph.abc_property_graph import PropertyGraphQueryException

imp = NetworkXGraphImporter()
g1 = NetworkXPropertyGraph(graph_id='c05d2-g1', importer=imp)
g2 = NetworkXPropertyGraph(graph_id='c05d2-g2', importer=imp)
g1.delete_graph(); g2.delete_graph()
g1.add_node(node_id='a', label='NetworkNode', props={'Name': 'a'})
g2.add_node(node_id='a', label='Link', props={'Name': 'a'})

# every other writer refuses to touch Class
for call in (lambda: g1.update_node_property(node_id='a', prop_name='Class', prop_val='Link'),
             lambda: g1.update_node_properties(node_id='a', props={'Class': 'Link'}),
             lambda: g1.update_nodes_property(prop_name='Class', prop_val='Link'),
             lambda: g1.unset_node_property(node_id='a', prop_name='Class')):
    try:
        call()
        print('unexpected: a guarded writer accepted Class')
    except PropertyGraphQueryException as e:
        print('guarded writer refused:', e)

before = g1.get_node_properties(node_id='a')[0]
g1.merge_nodes('a', g2, {'Class': 'overwrite'})
after = g1.get_node_properties(node_id='a')[0]
print('class before merge:', before, ' class after merge:', after)
print("node_exists(a, 'NetworkNode') =", g1.node_exists(node_id='a', label='NetworkNode'),
      "; node_exists(a, 'Link') =", g1.node_exists(node_id='a', label='Link'))
if before != after:
    print('VIOLATION: the class of node a was changed through the API')
    sys.exit(1)
print('property held')
sys.exit(0)
