#!/usr/bin/env python
"""C11-D5: a VM that is sized through capacity_hints (an instance type) and has no explicit capacities
contributes no CPU/RAM/disk to the authorization request and no cores to the accounting summary."""
import os
import sys

FIM_ROOT = os.environ.get('FIM_ROOT') or os.path.dirname(os.path.dirname(os.path.dirname(os.path.abspath(__file__))))
sys.path.insert(0, FIM_ROOT)

from fim.user.topology import ExperimentTopology
from fim.slivers.capacities_labels import Capacities, CapacityHints
from fim.slivers.instance_catalog import InstanceCatalog
from fim.authz.attribute_collector import ResourceAuthZAttributes as R
from fim.logging.log_collector import LogCollector

t = ExperimentTopology()
t.add_node(name='small', site='RENC', capacities=Capacities(core=2, ram=8, disk=10))
t.add_node(name='big', site='RENC', capacity_hints=CapacityHints(instance_type='fabric.c32.m128.d500'))
t.validate()

expected_cpu, expected_ram, expected_disk = [], [], []
for n in t.nodes.values():
    cap = n.capacities
    if cap is None and n.capacity_hints is not None:
        cap = InstanceCatalog().get_instance_capacities(instance_type=n.capacity_hints.instance_type)
    expected_cpu.append(cap.core)
    expected_ram.append(cap.ram)
    expected_disk.append(cap.disk)

az = R()
az.collect_resource_attributes(source=t)
lc = LogCollector()
lc.collect_resource_attributes(source=t)
got_cpu = list(az.attributes.get(R.RESOURCE_CPU, []))
got_ram = list(az.attributes.get(R.RESOURCE_RAM, []))
got_disk = list(az.attributes.get(R.RESOURCE_DISK, []))
print(f'nodes: {len(t.nodes)}')
print(f'cpu  expected {sorted(expected_cpu)} request has {sorted(got_cpu)}')
print(f'ram  expected {sorted(expected_ram)} request has {sorted(got_ram)}')
print(f'disk expected {sorted(expected_disk)} request has {sorted(got_disk)}')
print(f'accounting: vms {lc.attributes["vm_count"]} cores {lc.attributes["core_count"]} '
      f'(tally {sum(expected_cpu)})')

bad = sorted(got_cpu) != sorted(expected_cpu) or sorted(got_ram) != sorted(expected_ram) or \
    sorted(got_disk) != sorted(expected_disk) or lc.attributes['core_count'] != sum(expected_cpu)
if bad:
    print('VIOLATION: the CPU/RAM/disk of a node of the slice is not named')
    sys.exit(1)
print('property held')
sys.exit(0)
