#!/usr/bin/env python3
"""C07-D2: remove_node()/remove_component() do not disconnect sub-interfaces that are attached to a service:
the service keeps a ServicePort with no peer."""
import os, sys
HERE = os.path.dirname(os.path.abspath(__file__))
ROOT = os.environ.get('FIM_ROOT', os.path.abspath(os.path.join(HERE, '..', '..')))
sys.path.insert(0, ROOT)

import fim.user as f
from fim.user import ComponentType, ServiceType, Labels


def service_ports_without_single_peer(t):
    """transliteration of the published rule 'There should always be one peer for each ServicePort'"""
    g = t.graph_model.storage.extract_graph(t.graph_model.graph_id)
    bad = []
    for n, d in g.nodes(data=True):
        if d.get('Class') == 'ConnectionPoint' and d.get('Type') == 'ServicePort':
            peers = []
            for l in g.neighbors(n):
                if g.nodes[l].get('Class') == 'Link' and g.edges[(n, l)].get('Class') == 'connects':
                    peers += [m for m in g.neighbors(l)
                              if m != n and g.nodes[m].get('Class') == 'ConnectionPoint']
            if len(peers) != 1:
                bad.append((d['Name'], len(peers)))
    return bad


def build():
    t = f.ExperimentTopology()
    n1 = t.add_node(name='n1', site='UKY')
    nic1 = n1.add_component(name='nic1', ctype=ComponentType.SmartNIC, model='ConnectX-6')
    n2 = t.add_node(name='n2', site='UKY')
    nic2 = n2.add_component(name='nic2', ctype=ComponentType.SmartNIC, model='ConnectX-6')
    sub = nic1.interface_list[0].add_child_interface(name='sub1', labels=Labels(vlan='100'))
    t.add_network_service(name='br', nstype=ServiceType.L2Bridge,
                          interfaces=[sub, nic2.interface_list[0]])
    return t, n1


violations = []

t, n1 = build()
assert service_ports_without_single_peer(t) == [], 'unexpected: model broken before removal'
t.remove_node('n1')
bad = service_ports_without_single_peer(t)
print('after topology.remove_node("n1"): service ports with != 1 peer:', bad)
print('   service br now lists:', [i.name for i in t.network_services['br'].interface_list])
if bad:
    violations.append(('remove_node', bad))

t, n1 = build()
n1.remove_component('nic1')
bad = service_ports_without_single_peer(t)
print('after node.remove_component("nic1"): service ports with != 1 peer:', bad)
if bad:
    violations.append(('remove_component', bad))

if violations:
    print('VIOLATION: every service port must have exactly one peer:', violations)
    sys.exit(1)
print('property held')
sys.exit(0)
