import os, sys
FIM_ROOT = os.environ.get('FIM_ROOT') or os.path.dirname(os.path.dirname(os.path.dirname(os.path.abspath(__file__))))
sys.path.insert(0, FIM_ROOT)
# C15-D1: a capacity difference with a negative field prints and encodes fine, but its own
# JSON encoding cannot be decoded again (AssertionError in _set_fields)
from fim.slivers.capacities_labels import Capacities, JSONField

total = Capacities(core=4, ram=16)
allocated = Capacities(core=6, ram=8)
free = total - allocated
print('free =', str(free), ' negative fields:', free.negative_fields())
js = free.to_json()
print('to_json ->', js)
# copying through the quasi-copy-constructor is fine (values of the source are not re-checked) ...
print('JSONField.update(free) ->', JSONField.update(free))
err = None
try:
    back = Capacities.from_json(js)
    print('from_json ->', back)
except BaseException as e:
    err = e
    print('from_json ->', type(e).__name__, repr(e))
if err is not None or back != free:
    print('VIOLATION: the result with a negative field is printable but not representable: '
          'Capacities.from_json(free.to_json()) raises', type(err).__name__)
    sys.exit(1)
print('property held')
sys.exit(0)
