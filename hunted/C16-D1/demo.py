#!/usr/bin/env python
"""
C16-D1: the 'numa' label has a range predicate but no format check.

Labels.VALIDATORS has no entry for 'numa'; only LAMBDA_VALIDATORS['numa'] = -1 <= int(a) < 8 is applied.
Python's int() is very forgiving, so strings that are not '-1' or a single digit 0..7 are accepted
and stored verbatim - surrounding blanks, an embedded/trailing newline, '+', '_' digit separators,
non-ASCII digits, and (in list form) even non-string elements.  The same holds for every entry point:
constructor, Labels.update (copy-with-changes), list form, model-element update_labels, from_json.
Exit 1 when the violation manifests.
"""
import os
import re
import sys

HERE = os.path.dirname(os.path.abspath(__file__))
ROOT = os.environ.get('FIM_ROOT', os.path.dirname(os.path.dirname(HERE)))
sys.path.insert(0, ROOT)

import json
from fim.slivers.capacities_labels import Labels


def in_domain(v):
    """documented domain: '-1 or 0-7' written as a plain decimal string"""
    return isinstance(v, str) and re.fullmatch(r'-1|[0-7]', v, re.ASCII) is not None


NEAR_MISSES = ['3\n', ' 3', '3 ', '\t3', '+3', '0_3', '-0', '٣', '00000007', '3\r\n']


def attempt(desc, fn, value):
    """returns True when an out-of-domain value got stored"""
    try:
        lab = fn()
    except Exception as e:  # rejected, whatever the exception type
        print(f'   rejected  {desc}: {type(e).__name__}')
        return False
    stored = lab.numa
    elems = stored if isinstance(stored, list) else [stored]
    leaked = [x for x in elems if not in_domain(x)]
    print(f'   {"STORED   " if leaked else "ok       "} {desc}: numa={stored!a}')
    return bool(leaked)


violations = 0
print('constructor / scalar')
for v in NEAR_MISSES:
    violations += attempt(f'Labels(numa={v!a})', lambda: Labels(numa=v), v)
print('constructor / list')
violations += attempt("Labels(numa=['1', '7\\n'])", lambda: Labels(numa=['1', '7\n']), None)
violations += attempt('Labels(numa=[3])  (int element)', lambda: Labels(numa=[3]), None)
print('copy-with-changes')
violations += attempt("Labels.update(Labels(numa='1'), numa=' 2')", lambda: Labels.update(Labels(numa='1'), numa=' 2'), None)
print('decoding from text')
violations += attempt('Labels.from_json({"numa": "3\\n"})', lambda: Labels.from_json(json.dumps({'numa': '3\n'})), None)
print('model element update_labels')
from fim.user.topology import ExperimentTopology
from fim.user.node import NodeType
topo = ExperimentTopology()
node = topo.add_node(name='node1', site='RENC', ntype=NodeType.VM)


def via_element():
    node.update_labels(numa='5\n')
    return node.labels


violations += attempt("node.update_labels(numa='5\\n') then node.labels", via_element, None)
print('   graph property Labels =', ascii(topo.graph_model.get_node_properties(node_id=node.node_id)[1].get('Labels')))

# sanity: members of the domain are accepted, the range check itself works
for v in ['-1', '0', '7']:
    assert Labels(numa=v).numa == v
for v in ['8', '-2']:
    try:
        Labels(numa=v)
        raise SystemExit('range check unexpectedly absent')
    except Exception:
        pass

if violations:
    print(f'VIOLATION: {violations} out-of-domain numa values were accepted and stored')
    sys.exit(1)
print('property held')
sys.exit(0)
