#!/usr/bin/env python3
"""
C13-D1: on the per-graph ("disjoint") in-memory backend, partitioning an ARM a second time with the
same delegation_guids does not produce sound per-delegation models. clone_graph() relies on
storage.add_graph() replacing an existing graph id (the single-store backend does that), but the
disjoint store silently skips the insert, so generate_adms() edits and returns the STALE previous
partition instead of a clone of the current model:
  A. when nothing was deleted the first time, the returned model silently carries the old "other
     properties" (here: the node's Capacities) -> not a sub-model of the original;
  B. otherwise the second run raises PropertyGraphQueryException (node already deleted in the stale graph).
The single-store backend is run on the same input as a control.
Exit 1 when the violation manifests.
"""
import os
import sys
import json

ROOT = os.environ.get('FIM_ROOT') or os.path.dirname(os.path.dirname(os.path.dirname(os.path.abspath(__file__))))
sys.path.insert(0, ROOT)

import fim.user as f
from fim.graph.abc_property_graph import ABCPropertyGraph as PG
from fim.graph.networkx_property_graph import NetworkXGraphImporter
from fim.graph.networkx_property_graph_disjoint import NetworkXGraphImporterDisjoint
from fim.graph.resources.networkx_arm import NetworkXARMFactory
from fim.slivers.delegations import Delegation, Delegations, DelegationType


def site_model(with_undelegated_node: bool) -> str:
    t = f.SubstrateTopology()
    t.add_node(name='w1', node_id='w1', site='S1', ntype=f.NodeType.Server,
               capacities=f.Capacities(core=32, ram=128, unit=1))
    t.add_node(name='w2', node_id='w2', site='S1', ntype=f.NodeType.Server,
               capacities=f.Capacities(core=16, ram=64, unit=1))
    if with_undelegated_node:
        t.add_node(name='nas', node_id='nas', site='S1', ntype=f.NodeType.NAS)
    s = t.serialize()
    t.graph_model.importer.delete_all_graphs()
    return s


def delegate(arm, node_id, caps):
    d = Delegation(atype=DelegationType.CAPACITY, delegation_id='primary')
    d.set_details(caps)
    ds = Delegations(atype=DelegationType.CAPACITY)
    ds.add_delegations(d)
    arm.update_node_property(node_id=node_id, prop_name=PG.PROP_CAPACITY_DELEGATIONS, prop_val=ds.to_json())


def run(importer, with_undelegated_node):
    g = importer.import_graph_from_string(graph_string=site_model(with_undelegated_node))
    arm = NetworkXARMFactory.create(g)
    delegate(arm, 'w1', f.Capacities(core=32, ram=128, unit=1))
    delegate(arm, 'w2', f.Capacities(core=16, ram=64, unit=1))
    guids = {'primary': 'adm-guid-' + importer.__class__.__name__ + str(with_undelegated_node)}
    adm = arm.generate_adms(delegation_guids=guids)['primary']
    print('   1st partition nodes:', sorted(adm.list_all_node_ids()))
    # the aggregate is upgraded: w1 gets more RAM, the delegation is updated accordingly
    new_caps = f.Capacities(core=32, ram=512, unit=1)
    arm.update_node_property(node_id='w1', prop_name=PG.PROP_CAPACITIES, prop_val=new_caps.to_json())
    delegate(arm, 'w1', new_caps)
    adm = arm.generate_adms(delegation_guids=guids)['primary']
    _, arm_props = arm.get_node_properties(node_id='w1')
    _, adm_props = adm.get_node_properties(node_id='w1')
    print('   ARM w1 Capacities          :', arm_props[PG.PROP_CAPACITIES])
    print('   2nd partition w1 Capacities:', adm_props[PG.PROP_CAPACITIES])
    print('   2nd partition w1 delegation:', adm_props[PG.PROP_CAPACITY_DELEGATIONS])
    return json.loads(arm_props[PG.PROP_CAPACITIES]) == json.loads(adm_props[PG.PROP_CAPACITIES])


bad = 0
for label, imp_cls in (('single-store backend (control)', NetworkXGraphImporter),
                       ('disjoint backend', NetworkXGraphImporterDisjoint)):
    for variant, undel in (('A: every node delegated', False), ('B: one undelegated node', True)):
        print(f'{label} / {variant}')
        try:
            same = run(imp_cls(), undel)
            if same:
                print('   OK: partition node has the same other properties as the original')
            else:
                bad += 1
                print('   VIOLATION: partition is not a sub-model of the current original (stale properties)')
        except BaseException as e:
            bad += 1
            print(f'   VIOLATION: second generate_adms RAISED {type(e).__name__}: {e}')

if bad:
    print(f'{bad} violations')
    sys.exit(1)
print('property held')
sys.exit(0)
