#!/usr/bin/env python3
"""C17-D6: InterfaceSliver.diff files the interface's own property changes under modified.services (as if the
interface were a network service) instead of modified.interfaces."""
import os, sys, copy
HERE = os.path.dirname(os.path.abspath(__file__))
ROOT = os.environ.get('FIM_ROOT', os.path.abspath(os.path.join(HERE, '..', '..')))
sys.path.insert(0, ROOT)

from fim.slivers.interface_info import InterfaceSliver, InterfaceType
from fim.slivers.network_service import NetworkServiceSliver
from fim.slivers.capacities_labels import Labels
from fim.slivers.topology_diff import WhatsModifiedFlag

old = InterfaceSliver()
old.node_id = 'p-1'
old.set_name('nic1-p1')
old.set_type(InterfaceType.DedicatedPort)
old.set_labels(Labels(local_name='p1'))
new = copy.deepcopy(old)
assert old.diff(new) is None
new.set_labels(Labels(local_name='p1', vlan='100'))         # the only edit: labels of the interface

d = old.diff(new)
print('modified.interfaces:', [(type(s).__name__, s.resource_name, fl) for s, fl in d.modified.interfaces])
print('modified.services  :', [(type(s).__name__, s.resource_name, fl) for s, fl in d.modified.services])

wrong = [s for s, _ in d.modified.services if not isinstance(s, NetworkServiceSliver)]
missing = not any(s.resource_name == 'nic1-p1' and fl == WhatsModifiedFlag.LABELS for s, fl in d.modified.interfaces)
if wrong or missing:
    print('VIOLATION: the modified interface is reported in the services bucket '
          f'({[type(s).__name__ for s in wrong]}) and is absent from modified.interfaces')
    sys.exit(1)
print('property held')
sys.exit(0)
