#!/usr/bin/env python
"""
deda97f made PathInfo.to_json()/ERO.to_json() return '' whenever payload is None.
That is right for the default Path representation (the old code raised AttributeError there),
but a Graph-typed PathInfo/ERO whose graph id is not filled in yet never raised: it encoded to
{"type": "Graph", ["strict": ...,] "payload": null} and decoded back to an object of the same
type with the same strict flag. Now it encodes to '' and decodes to None, so the representation
type and the ERO 'strict' flag are silently lost, also through NetworkService.ero.

exit 0: type/strict survive encode/decode (parent behaviour); exit 1: they are lost (HEAD).
"""
import os
import sys

here = os.path.dirname(os.path.abspath(__file__))
root = os.environ.get('FIM_ROOT', os.path.normpath(os.path.join(here, '..', '..')))
sys.path.insert(0, root)

from fim.slivers.path_info import PathInfo, ERO, PathRepresentationType

bad = []

# 1. plain encode/decode
e = ERO(PathRepresentationType.Graph, strict=True)
back = ERO.from_json(e.to_json())
if back is None or back.type != PathRepresentationType.Graph or back.strict is not True:
    bad.append(f'ERO(Graph, strict=True) -> {e.to_json()!r} -> {back!r}')

p = PathInfo(PathRepresentationType.Graph)
back = PathInfo.from_json(p.to_json())
if back is None or back.type != PathRepresentationType.Graph:
    bad.append(f'PathInfo(Graph) -> {p.to_json()!r} -> {back!r}')

# 2. the same through the user API
import fim.user as f
from fim.user.topology import ExperimentTopology

topo = ExperimentTopology()
n1 = topo.add_node(name='n1', site='RENC')
n2 = topo.add_node(name='n2', site='UKY')
c1 = n1.add_component(name='c1', model_type=f.ComponentModelType.SmartNIC_ConnectX_6)
c2 = n2.add_component(name='c1', model_type=f.ComponentModelType.SmartNIC_ConnectX_6)
ns = topo.add_network_service(name='s1', nstype=f.ServiceType.L2PTP,
                              interfaces=[c1.interface_list[0], c2.interface_list[0]])
ns.ero = ERO(PathRepresentationType.Graph, strict=True)
got = ns.ero
if got is None or got.type != PathRepresentationType.Graph or got.strict is not True:
    bad.append(f'NetworkService.ero = ERO(Graph, strict=True) reads back as {got!r}')

if bad:
    print('REGRESSION: Graph-typed PathInfo/ERO without a payload no longer survives encoding:')
    for b in bad:
        print('  ', b)
    sys.exit(1)
print('OK: Graph-typed PathInfo/ERO without a payload keeps its type and strict flag')
sys.exit(0)
