#!/usr/bin/env python3
"""
84b4990 regression: unpeer() now refuses two network services that ARE joined by
service - port - link - port - service when the two ports are not typed ServicePort
(e.g. the TrunkPorts every substrate/advertisement model uses to join switch services,
or ports added with NetworkService.add_interface(), whose default itype is TrunkPort).

Before the commit unpeer() removed exactly those two ports and the link between them;
now it raises TopologyException("... do not peer!").

exit 0: unpeer() removed the two joining ports and the link (parent behaviour)
exit 1: unpeer() refused the joined services (HEAD behaviour)
"""
import os
import sys

HERE = os.path.dirname(os.path.abspath(__file__))
ROOT = os.environ.get('FIM_ROOT', os.path.dirname(os.path.dirname(HERE)))
sys.path.insert(0, ROOT)

import fim.user as f                                            # noqa: E402
from fim.user.topology import SubstrateTopology, ExperimentTopology, TopologyException   # noqa: E402


def substrate_case():
    t = SubstrateTopology()
    sw1 = t.add_node(name='sw1', node_id='sw1-id', site='AA', ntype=f.NodeType.Switch)
    sw2 = t.add_node(name='sw2', node_id='sw2-id', site='BB', ntype=f.NodeType.Switch)
    ns1 = sw1.add_network_service(name='sw1-ns', node_id='sw1-ns-id', nstype=f.ServiceType.MPLS)
    ns2 = sw2.add_network_service(name='sw2-ns', node_id='sw2-ns-id', nstype=f.ServiceType.MPLS)
    # a port that must survive
    ns1.add_interface(name='keep', node_id='sw1-keep', itype=f.InterfaceType.TrunkPort)
    p1 = ns1.add_interface(name='to-sw2', node_id='sw1-to-sw2', itype=f.InterfaceType.TrunkPort)
    p2 = ns2.add_interface(name='to-sw1', node_id='sw2-to-sw1', itype=f.InterfaceType.TrunkPort)
    t.add_link(name='sw1-sw2', node_id='sw1-sw2-link', ltype=f.LinkType.L2Path, interfaces=[p1, p2])
    ns1.unpeer(ns2)
    h1 = t.nodes['sw1'].network_services['sw1-ns']
    h2 = t.nodes['sw2'].network_services['sw2-ns']
    assert sorted(h1.interfaces.keys()) == ['keep'], h1.interfaces.keys()
    assert len(h2.interface_list) == 0
    assert 'sw1-sw2' not in t.links


def experiment_case():
    t = ExperimentTopology()
    n1 = t.add_node(name='n1', site='MASS')
    n1.add_component(name='nic1', model_type=f.ComponentModelType.SharedNIC_ConnectX_6)
    fac = t.add_facility(name='DTN', site='RENC', capacities=f.Capacities(bw=10), labels=f.Labels(vlan='100'))
    ns1 = t.add_network_service(name='ns1', nstype=f.ServiceType.L3VPN, interfaces=[n1.interface_list[0]])
    ns2 = t.add_network_service(name='al2s', nstype=f.ServiceType.L3VPN, interfaces=[fac.interface_list[0]])
    # add_interface() defaults to itype=TrunkPort
    a = ns1.add_interface(name='ns1-al2s')
    b = ns2.add_interface(name='al2s-ns1')
    t.add_link(name='ns1-al2s-link', ltype=f.LinkType.L2Path, interfaces=[a, b])
    ns1.unpeer(ns2)
    assert len(t.network_services['ns1'].interface_list) == 1
    assert len(t.network_services['al2s'].interface_list) == 1
    assert 'ns1-al2s-link' not in t.links


rc = 0
for case in (substrate_case, experiment_case):
    try:
        case()
        print(f'{case.__name__}: unpeer() removed the two joining ports and their link')
    except TopologyException as e:
        print(f'{case.__name__}: REGRESSION unpeer() refused services joined by port-link-port: {e}')
        rc = 1
sys.exit(rc)
