#!/usr/bin/env python
"""
365017e (minor): JSONField.from_json now walks the decoded value before it knows it is an object.
A JSON document that is a string ('"abc"') used to be refused with TypeError like every other
non-object document (number, list, null, true still give TypeError); it now logs
'Ignoring unknown field a' and raises AttributeError ('str' object has no attribute 'pop').
exit 0: TypeError (parent), exit 1: a different exception class (HEAD)
"""
import os
import sys

here = os.path.dirname(os.path.abspath(__file__))
root = os.environ.get('FIM_ROOT') or os.path.abspath(os.path.join(here, '..', '..'))
sys.path.insert(0, root)

from fim.slivers.capacities_labels import Capacities, Labels, Location, Flags

rc = 0
for cls in (Capacities, Labels, Location, Flags):
    try:
        cls.from_json('"abc"')
        print(cls.__name__, 'accepted a JSON string?')
        rc = 1
    except TypeError as e:
        print(cls.__name__, 'TypeError', e)
    except Exception as e:
        print(cls.__name__, 'raised', type(e).__name__, e)
        rc = 1
sys.exit(rc)
