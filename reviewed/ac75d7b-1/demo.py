#!/usr/bin/env python3
"""
ac75d7b regression (NetworkX backends only): add_node(props=...) used to hand props to
dict.update(), which takes any mapping *or an iterable of key/value pairs*. The fix
filters with props.items(), so an iterable of pairs now fails with AttributeError -
after the blank node has already been added (a half-made node without properties stays
in the graph). The Neo4j flavour of the same fix uses dict(props) and still accepts pairs.

exit 0: node is added with the property (parent behaviour)
exit 1: AttributeError and/or a property-less node left behind (HEAD behaviour)
"""
import os
import sys

HERE = os.path.dirname(os.path.abspath(__file__))
ROOT = os.environ.get('FIM_ROOT', os.path.dirname(os.path.dirname(HERE)))
sys.path.insert(0, ROOT)

from fim.graph.networkx_property_graph import NetworkXGraphImporter, NetworkXPropertyGraph
from fim.graph.networkx_property_graph_disjoint import NetworkXGraphImporterDisjoint, NetworkXPropertyGraphDisjoint
from fim.graph.abc_property_graph import ABCPropertyGraph

failures = []
for cls, imp in ((NetworkXPropertyGraph, NetworkXGraphImporter()),
                 (NetworkXPropertyGraphDisjoint, NetworkXGraphImporterDisjoint())):
    g = cls(graph_id='demo-ac75d7b-' + cls.__name__, importer=imp)
    pairs = [(ABCPropertyGraph.PROP_NAME, 'n1'), (ABCPropertyGraph.PROP_TYPE, 'VM')]
    try:
        g.add_node(node_id='n1', label=ABCPropertyGraph.CLASS_NetworkNode, props=pairs)
    except Exception as e:
        failures.append(f"{cls.__name__}: add_node(props=<list of pairs>): {type(e).__name__}: {e}")
    try:
        _, props = g.get_node_properties(node_id='n1')
        if props.get(ABCPropertyGraph.PROP_NAME) != 'n1':
            failures.append(f"{cls.__name__}: node n1 is in the graph without its properties: {props}")
    except Exception as e:
        failures.append(f"{cls.__name__}: node n1 cannot be read: {type(e).__name__}: {e}")

if failures:
    print("REGRESSION: add_node() no longer accepts props as an iterable of pairs")
    for f in failures:
        print("  " + f)
    sys.exit(1)
print("ok: add_node() accepts props as an iterable of pairs")
sys.exit(0)
