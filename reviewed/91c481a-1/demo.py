#!/usr/bin/env python3
"""
91c481a regression: clearing the stitch_node flag of an element on which it is not set
(never set, or already cleared) used to be a harmless no-op; it now raises
PropertyGraphQueryException "Unable to unset property StitchNode".

get_property('stitch_node') reads False both for "explicitly False" and for "not set",
so a caller has no way to find out beforehand whether the call will raise.

exit 0: every clearing call returns and the flag reads False (parent behaviour)
exit 1: a clearing call raises (HEAD behaviour)
"""
import os
import sys

HERE = os.path.dirname(os.path.abspath(__file__))
ROOT = os.environ.get('FIM_ROOT', os.path.dirname(os.path.dirname(HERE)))
sys.path.insert(0, ROOT)

from fim.user.topology import ExperimentTopology
from fim.user.component import ComponentModelType
from fim.graph.networkx_property_graph import NetworkXGraphImporter
from fim.graph.networkx_property_graph_disjoint import NetworkXGraphImporterDisjoint

failures = []

for importer_cls in (NetworkXGraphImporter, NetworkXGraphImporterDisjoint):
    topo = ExperimentTopology(importer=importer_cls())
    node = topo.add_node(name='n1', site='RENC')
    assert node.get_property('stitch_node') is False

    # 1. the flag was never set: "make sure it is off" must not fail
    try:
        node.set_property('stitch_node', None)
    except Exception as e:
        failures.append(f"{importer_cls.__name__}: set_property('stitch_node', None) on a fresh node: "
                        f"{type(e).__name__}: {e}")
    try:
        node.unset_property('stitch_node')
    except Exception as e:
        failures.append(f"{importer_cls.__name__}: unset_property('stitch_node') on a fresh node: "
                        f"{type(e).__name__}: {e}")
    if node.get_property('stitch_node') is not False:
        failures.append(f"{importer_cls.__name__}: flag of a fresh node does not read False")

    # 2. the same call sequence on an element that is not a node (shared code path)
    node2 = topo.add_node(name='n2', site='RENC')
    comp = node2.add_component(name='c1', model_type=ComponentModelType.SmartNIC_ConnectX_6)
    try:
        comp.set_property('stitch_node', None)
    except Exception as e:
        failures.append(f"{importer_cls.__name__}: component.set_property('stitch_node', None): "
                        f"{type(e).__name__}: {e}")

if failures:
    print("REGRESSION: clearing an unset stitch_node flag raises")
    for f in failures:
        print("  " + f)
    sys.exit(1)
print("ok: clearing an unset stitch_node flag is a no-op")
sys.exit(0)
