#!/usr/bin/env python3
"""
ae942e7 regression: enumerate_graph_nodes_to_string() now raises AttributeError for a GraphML
file in which some edge (or node) carries no Class property. Before the commit the string
variant returned the GraphML with node ids filled in and the NetworkX importers loaded it.
The repository ships such a file: test/models/site-3-am-1broker-ad.graphml (edge e16 has no
data at all).

exit 0: the string is produced and both NetworkX importers load it (parent behaviour)
exit 1: enumerate_graph_nodes_to_string() raises (HEAD behaviour)
"""
import os
import sys
import tempfile

HERE = os.path.dirname(os.path.abspath(__file__))
ROOT = os.environ.get('FIM_ROOT', os.path.dirname(os.path.dirname(HERE)))
sys.path.insert(0, ROOT)

from fim.graph.networkx_property_graph import NetworkXGraphImporter
from fim.graph.networkx_property_graph_disjoint import NetworkXGraphImporterDisjoint

# two nodes drawn by hand (no NodeID yet - that is what the enumerate_* helpers are for),
# one edge with a Class and one edge that was drawn without any property
GRAPHML = """<?xml version="1.0" encoding="UTF-8"?>
<graphml xmlns="http://graphml.graphdrawing.org/xmlns">
  <key id="d0" for="node" attr.name="Class" attr.type="string"/>
  <key id="d1" for="node" attr.name="Name" attr.type="string"/>
  <key id="d2" for="node" attr.name="Type" attr.type="string"/>
  <key id="d3" for="edge" attr.name="Class" attr.type="string"/>
  <graph id="G" edgedefault="undirected">
    <node id="n0"><data key="d0">NetworkNode</data><data key="d1">worker1</data><data key="d2">Server</data></node>
    <node id="n1"><data key="d0">Component</data><data key="d1">gpu1</data><data key="d2">GPU</data></node>
    <node id="n2"><data key="d0">Component</data><data key="d1">gpu2</data><data key="d2">GPU</data></node>
    <edge id="e0" source="n0" target="n1"><data key="d3">has</data></edge>
    <edge id="e1" source="n0" target="n2"/>
  </graph>
</graphml>
"""


def main() -> int:
    inputs = []
    with tempfile.TemporaryDirectory() as d:
        inline = os.path.join(d, 'drawn.graphml')
        with open(inline, 'w') as f:
            f.write(GRAPHML)
        inputs.append(('inline graph (edge e1 without Class)', inline, 3))
        shipped = os.path.join(ROOT, 'test', 'models', 'site-3-am-1broker-ad.graphml')
        if os.path.exists(shipped):
            inputs.append(('test/models/site-3-am-1broker-ad.graphml', shipped, 16))

        rc = 0
        for what, path, n_nodes in inputs:
            try:
                graph_string = NetworkXGraphImporter.enumerate_graph_nodes_to_string(graph_file=path)
            except Exception as e:
                print(f'FAIL {what}: enumerate_graph_nodes_to_string raised {type(e).__name__}: {e}')
                rc = 1
                continue
            for importer_class in (NetworkXGraphImporter, NetworkXGraphImporterDisjoint):
                imp = importer_class()
                try:
                    g = imp.import_graph_from_string(graph_string=graph_string)
                    ids = g.list_all_node_ids()
                    assert len(ids) == n_nodes, ids
                    print(f'ok   {what}: {importer_class.__name__} loaded {len(ids)} nodes')
                except Exception as e:
                    print(f'FAIL {what}: {importer_class.__name__} {type(e).__name__}: {e}')
                    rc = 1
                finally:
                    imp.delete_all_graphs()
    return rc


if __name__ == '__main__':
    sys.exit(main())
