#!/usr/bin/env python
"""
22ebcb5: Gateway.from_json returns None instead of Gateway(None) when nothing is encoded.
The Gateway class is written as a null object (every accessor guards 'self.lab is not None'),
and reading through it - service.gateway.subnet / .gateway / .mac, str(service.gateway) - was
the way to ask a service without a gateway for its gateway: it returned None / ''.
Since the commit the same read raises AttributeError on NoneType.
exit 0: null-object reads work (parent), exit 1: they raise (HEAD)
"""
import os
import sys

here = os.path.dirname(os.path.abspath(__file__))
root = os.environ.get('FIM_ROOT') or os.path.abspath(os.path.join(here, '..', '..'))
sys.path.insert(0, root)

import fim.user as f

t = f.ExperimentTopology()
ns = t.add_network_service(name='ns1', nstype=f.ServiceType.L2Bridge)
rc = 0
try:
    vals = (ns.gateway.subnet, ns.gateway.gateway, ns.gateway.mac)
    assert vals == (None, None, None), vals
    print('user API: service.gateway.subnet/.gateway/.mac ->', vals)
except AttributeError as e:
    print('user API: reading service.gateway.subnet raised AttributeError:', e)
    rc = 1
try:
    sl = ns.get_sliver()
    print('sliver: get_gateway().gateway ->', sl.get_gateway().gateway)
except AttributeError as e:
    print('sliver: get_gateway().gateway raised AttributeError:', e)
    rc = 1
sys.exit(rc)
