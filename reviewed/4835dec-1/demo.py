#!/usr/bin/env python
"""
4835dec made NodeSliver.diff look into the network service of FPGA components, too, but it
dereferences component.network_service_info unconditionally. An FPGA component that has no
ports/network service (hand-built sliver, sliver decoded from an older model in which the FPGA
catalog entries had no 'Interfaces', component added through graph_model.add_component_sliver)
diffed fine before and now raises AttributeError.
exit 0: diff works (parent behaviour), exit 1: diff raises (HEAD behaviour)
"""
import os
import sys

here = os.path.dirname(os.path.abspath(__file__))
root = os.environ.get('FIM_ROOT') or os.path.abspath(os.path.join(here, '..', '..'))
sys.path.insert(0, root)

import fim.user as f
from fim.slivers.attached_components import ComponentSliver, ComponentType, AttachedComponentsInfo
from fim.slivers.network_node import NodeSliver
from fim.slivers.capacities_labels import Capacities

rc = 0


def hand_built(core):
    ns = NodeSliver()
    ns.set_name('n1')
    ns.node_id = 'N1'
    ns.set_capacities(Capacities(core=core))
    cs = ComponentSliver()
    cs.set_name('fpga1')
    cs.set_type(ComponentType.FPGA)
    cs.set_model('Xilinx-U280')
    cs.node_id = 'C1'
    ns.attached_components_info = AttachedComponentsInfo()
    ns.attached_components_info.add_device(cs)
    return ns


try:
    d = hand_built(2).diff(hand_built(4))
    assert d is not None and len(d.modified.nodes) == 1, d
    print('hand-built slivers: diff ok')
except AttributeError as e:
    print('hand-built slivers: diff raised AttributeError:', e)
    rc = 1


def from_model(core):
    t = f.ExperimentTopology()
    n = t.add_node(name='n1', site='RENC', capacities=Capacities(core=core))
    cs = ComponentSliver()
    cs.set_name('fpga1')
    cs.set_type(ComponentType.FPGA)
    cs.set_model('Xilinx-U280')
    cs.node_id = 'C1'
    t.graph_model.add_component_sliver(parent_node_id=n.node_id, component=cs)
    # round trip through GraphML, as a stored slice model would be
    t2 = f.ExperimentTopology(graph_string=t.serialize())
    return t2.nodes['n1'].get_sliver()


try:
    a, b = from_model(2), from_model(4)
    b.node_id = a.node_id
    d = a.diff(b)
    print('slivers read from a model: diff ok')
except AttributeError as e:
    print('slivers read from a model: diff raised AttributeError:', e)
    rc = 1

sys.exit(rc)
