#!/usr/bin/env python3
"""
0cbe260 regression: entries of a NOT finalized MaintenanceInfo can no longer be edited in place.

get() / list_details() now return copies unconditionally, also while the record is still
open for modification (fresh object, or the result of copy() whose docstring says "don't
finalize" so that it can be changed).  The usual way of changing one node's state

    work = record.copy()
    work.get('node1').state = MaintenanceState.Maint
    work.finalize()

worked before the commit and is now silently ignored: no exception, the serialized record
still carries the old state.

exit 0: the edit is reflected in to_json() (parent behaviour)
exit 1: the edit is silently lost (HEAD behaviour)
"""
import os
import sys

here = os.path.dirname(os.path.abspath(__file__))
root = os.environ.get('FIM_ROOT', os.path.dirname(os.path.dirname(here)))
sys.path.insert(0, root)

import json
from datetime import datetime, timezone

from fim.slivers.maintenance_mode import MaintenanceInfo, MaintenanceEntry, MaintenanceState

bad = []

# 1. fresh, unfinalized record: edit through get()
rec = MaintenanceInfo()
rec.add('node1', MaintenanceEntry(MaintenanceState.Active))
rec.add('node2', MaintenanceEntry(MaintenanceState.Active))
rec.get('node1').state = MaintenanceState.PreMaint
rec.get('node1').deadline = datetime(2030, 1, 1, tzinfo=timezone.utc)
rec.finalize()
d = json.loads(rec.to_json())
print('fresh record after get().state = PreMaint      :', d['node1'])
if d['node1']['state'] != 'PreMaint' or d['node1']['deadline'] is None:
    bad.append('edit through get() on an unfinalized record was lost')

# 2. the record decoded from the model is finalized; copy() gives the modifiable working copy
stored = MaintenanceInfo.from_json(rec.to_json())
work = stored.copy()
for name, entry in work.list_details():
    entry.state = MaintenanceState.Maint
work.finalize()
d2 = json.loads(work.to_json())
print('working copy after list_details() entry edits  :', {k: v['state'] for k, v in d2.items()})
if any(v['state'] != 'Maint' for v in d2.values()):
    bad.append('edit through list_details() on an unfinalized copy() was lost')

# the finalized original must of course stay as it was (that part of the commit is fine)
d3 = json.loads(stored.to_json())
print('finalized original                              :', {k: v['state'] for k, v in d3.items()})

if bad:
    print('REGRESSION:', '; '.join(bad))
    sys.exit(1)
print('OK: unfinalized records are editable in place')
sys.exit(0)
