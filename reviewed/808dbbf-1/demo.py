#!/usr/bin/env python
"""
808dbbf: validate() itself stores the inferred site in the service's 'site' property when none was declared.
After the commit every later validation treats that stored value as a site "originally specified" by the
user, so a service whose site was never declared cannot be moved to another site once the topology has
been validated (or has been through validate() + serialize()/load, e.g. a slice that is being modified).

exit 0: validate / re-home the service to another site / validate again succeeds (parent commit behaviour)
exit 1: the second validate() raises TopologyException (HEAD behaviour)
"""
import os
import sys

HERE = os.path.dirname(os.path.abspath(__file__))
ROOT = os.environ.get('FIM_ROOT', os.path.abspath(os.path.join(HERE, '..', '..')))
sys.path.insert(0, ROOT)

import fim.user as f
from fim.user.topology import TopologyException

t = f.ExperimentTopology()
n1 = t.add_node(name='n1', site='RENC')
n2 = t.add_node(name='n2', site='RENC')
n3 = t.add_node(name='n3', site='UKY')
i1 = n1.add_component(name='nic1', ctype=f.ComponentType.SharedNIC, model='ConnectX-6').interface_list[0]
i2 = n2.add_component(name='nic2', ctype=f.ComponentType.SharedNIC, model='ConnectX-6').interface_list[0]
i3 = n3.add_component(name='nic3', ctype=f.ComponentType.SharedNIC, model='ConnectX-6').interface_list[0]

# no site is declared for the service
s = t.add_network_service(name='br', nstype=f.ServiceType.L2Bridge, interfaces=[i1, i2])
assert s.site is None
t.validate()
print('site after the first validate():', s.site)

# the same thing happens to a topology that was validated, serialized and loaded again
t = f.ExperimentTopology(graph_string=t.serialize())
s = t.network_services['br']
for name in ('n1', 'n2'):
    s.disconnect_interface(t.nodes[name].interface_list[0])
s.connect_interface(t.nodes['n3'].interface_list[0])

try:
    t.validate()
except TopologyException as e:
    print('second validate() fails:', e)
    sys.exit(1)
print('second validate() passes')
sys.exit(0)
