#!/usr/bin/env python3
"""
0cbe260 regression: entries are copied with dataclasses.replace(), i.e. by calling the
entry's constructor again with state= / deadline= / expected_end=.  That is not a copy:

 * an entry of a MaintenanceEntry subclass with its own constructor makes add() (and get(),
   copy(), list_details(), iter()) raise TypeError - before the commit it was stored and
   serialized like any other entry;
 * whatever else the entry carries (an attribute set on it) is dropped from the stored entry
   and from everything handed out.

exit 0: both entries are accepted, serialized, and come back complete (parent behaviour)
exit 1: TypeError / attribute lost (HEAD behaviour)
"""
import os
import sys

here = os.path.dirname(os.path.abspath(__file__))
root = os.environ.get('FIM_ROOT', os.path.dirname(os.path.dirname(here)))
sys.path.insert(0, root)

import json
from datetime import datetime, timezone, timedelta

from fim.slivers.maintenance_mode import MaintenanceInfo, MaintenanceEntry, MaintenanceState


class PlannedOutage(MaintenanceEntry):
    """Convenience entry: pre-maintenance starting at 'start', lasting 'hours'"""
    def __init__(self, start: datetime, hours: int):
        super().__init__(MaintenanceState.PreMaint, deadline=start,
                         expected_end=start + timedelta(hours=hours))


bad = []
start = datetime(2030, 1, 1, tzinfo=timezone.utc)

# 1. subclass entry
rec = MaintenanceInfo()
try:
    rec.add('node1', PlannedOutage(start, 4))
    rec.finalize()
    d = json.loads(rec.to_json())
    print('subclass entry serialized:', d)
    e = rec.get('node1')
    assert e.state == MaintenanceState.PreMaint and e.deadline == start
    assert [n for n, _ in rec.iter()] == ['node1']
    assert len(rec.copy().list_details()) == 1
except TypeError as ex:
    print('subclass entry: TypeError:', ex)
    bad.append(f'entry of a MaintenanceEntry subclass refused with TypeError ({ex})')

# 2. entry carrying one more attribute
rec2 = MaintenanceInfo()
entry = MaintenanceEntry(MaintenanceState.Maint, deadline=start)
entry.ticket = 'FIP-1234'
rec2.add('node2', entry)
rec2.finalize()
got = rec2.get('node2')
print('attributes of the entry handed out:', sorted(got.__dict__))
if getattr(got, 'ticket', None) != 'FIP-1234':
    bad.append("attribute 'ticket' of the entry is gone after add()/get()")

if bad:
    print('REGRESSION:', '; '.join(bad))
    sys.exit(1)
print('OK')
sys.exit(0)
