"""
72627f4: generate_adms() now skips a delegation type whenever the node's delegation property
does not parse into a Delegations object.  That is also the case when the property IS on the node
but is blank ('' or the 'None' placeholder Neo4j-originated graphs carry).  Before the commit such a
blank property was unset in every ADM; now it is copied into the ADM, and a '' value makes
ABCADMPropertyGraph.rewrite_delegations() (the next step of the ARM->ADM->CBM pipeline) crash.
exit 0: blank property is dropped from the ADM and rewrite_delegations() works; exit 1 otherwise.
"""
import os
import sys

root = os.environ.get('FIM_ROOT', os.path.abspath(os.path.join(os.path.dirname(os.path.abspath(__file__)), '..', '..')))
sys.path.insert(0, root)

import fim.user as f
from fim.graph.networkx_property_graph import NetworkXGraphImporter
from fim.graph.resources.networkx_arm import NetworkXARMGraph
from fim.graph.resources.networkx_adm import NetworkXADMFactory


def run(blank):
    t = f.SubstrateTopology()
    n = t.add_node(name='w1', model='R7525', site='RENC', node_id='W1', ntype=f.NodeType.Server,
                   capacities=f.Capacities(core=4, ram=16, disk=100))
    t.single_delegation(delegation_id='primary', label_pools=f.Pools(atype=f.DelegationType.LABEL),
                        capacity_pools=f.Pools(atype=f.DelegationType.CAPACITY))
    imp = NetworkXGraphImporter()
    g = imp.import_graph_from_string(graph_string=t.serialize())
    arm = NetworkXARMGraph(graph=g)
    _, props = arm.get_node_properties(node_id='W1')
    assert props.get('CapacityDelegations'), props
    assert 'LabelDelegations' not in props or props['LabelDelegations'] in ('', 'None'), props
    # the node carries a blank label delegation property, as graphs that went through Neo4j do
    arm.update_node_property(node_id='W1', prop_name='LabelDelegations', prop_val=blank)
    adms = arm.generate_adms()
    adm_graph = adms['primary']
    _, aprops = adm_graph.get_node_properties(node_id='W1')
    bad = False
    if 'LabelDelegations' in aprops:
        print(f'blank={blank!r}: ADM node still carries LabelDelegations={aprops["LabelDelegations"]!r}')
        bad = True
    try:
        NetworkXADMFactory.create(adm_graph).rewrite_delegations()
    except Exception as e:
        print(f'blank={blank!r}: rewrite_delegations() on the ADM raised {type(e).__name__}: {e}')
        bad = True
    return bad


if __name__ == '__main__':
    results = [run(''), run('None')]
    sys.exit(1 if any(results) else 0)
