#!/usr/bin/env python3
"""
52c9450 "sliver types are taken from the vocabulary of the sliver kind":
set_type() now asserts isinstance(value, <Enum>), so a type given by its published *name*
(a plain string such as 'VM' or 'TrunkPort', which is inside the vocabulary) is rejected with a
bare AssertionError. Before the commit these spellings were stored, written to the graph as the
same text the enum member produces, and read back as the enum member.

exit 0: string spellings of valid types are accepted and read back as the enum member (parent tree)
exit 1: they raise (HEAD tree)
"""
import os
import sys

here = os.path.dirname(os.path.abspath(__file__))
root = os.environ.get('FIM_ROOT', os.path.dirname(os.path.dirname(here)))
sys.path.insert(0, root)

from fim.user.topology import ExperimentTopology
from fim.user import NodeType, ServiceType, InterfaceType

bad = []


def check(label, fn, expected):
    try:
        got = fn()
    except BaseException as e:
        bad.append(f'{label}: raised {type(e).__name__}({e})')
        return
    if got != expected:
        bad.append(f'{label}: got {got!r}, expected {expected!r}')


t = ExperimentTopology()
# 1. node type given by name
check("add_node(ntype='VM')",
      lambda: t.add_node(name='n1', site='S1', ntype='VM').type, NodeType.VM)
# 2. interface type given by name
ns = t.add_network_service(name='ns1', nstype=ServiceType.L2Bridge, interfaces=[])
check("ns.add_interface(itype='TrunkPort')",
      lambda: ns.add_interface(name='i1', itype='TrunkPort').type, InterfaceType.TrunkPort)
# 3. set_property('type', <name>) on an existing node
n2 = t.add_node(name='n2', site='S1', ntype=NodeType.Server)


def setprop():
    n2.set_property('type', 'VM')
    return n2.type


check("node.set_property('type', 'VM')", setprop, NodeType.VM)

if bad:
    print('REGRESSION:')
    for b in bad:
        print('  ', b)
    sys.exit(1)
print('ok: string spellings of vocabulary types accepted and read back as enum members')
sys.exit(0)
