#!/usr/bin/env python3
"""
503cf6d regression (cost): NetworkService.add_interface() now reads the name of EVERY
existing port of the service from the model on every call. With the NetworkX store each
get_node_properties() is a linear search of the whole graph, so one add_interface() on a
service with k ports went from O(1) lookups to k lookups (k * |V| node comparisons), and
building a k-port switch service went from ~quadratic to ~cubic:
    400 TrunkPorts on one service: 1.8 s before the commit, 64-67 s after it
    (100 ports: 0.13 s -> 1.7 s; 200 ports: 0.5 s -> 8 s).

The demo is deterministic: it counts the graph_model.get_node_properties() calls made by
ONE add_interface() when the service already has 5 ports and when it already has 45.

exit 0: the number of lookups does not depend on the number of existing ports (parent)
exit 1: the number of lookups grows with the number of existing ports (HEAD)
"""
import os
import sys
import time

HERE = os.path.dirname(os.path.abspath(__file__))
ROOT = os.environ.get('FIM_ROOT', os.path.dirname(os.path.dirname(HERE)))
sys.path.insert(0, ROOT)

import fim.user as f                                   # noqa: E402
from fim.user.topology import SubstrateTopology        # noqa: E402

t = SubstrateTopology()
sw = t.add_node(name='sw', node_id='sw-id', site='AA', ntype=f.NodeType.Switch)
ns = sw.add_network_service(name='sw-ns', node_id='sw-ns-id', nstype=f.ServiceType.MPLS)

gm = t.graph_model
calls = [0]
orig = gm.get_node_properties


def counting(*args, **kwargs):
    calls[0] += 1
    return orig(*args, **kwargs)


gm.get_node_properties = counting


def add(i):
    calls[0] = 0
    ns.add_interface(name=f'p{i}', node_id=f'sw-p{i}', itype=f.InterfaceType.TrunkPort)
    return calls[0]


for i in range(5):
    add(i)
at5 = add(5)
for i in range(6, 45):
    add(i)
at45 = add(45)
print(f'get_node_properties() calls in one add_interface(): {at5} with 5 existing ports, '
      f'{at45} with 45 existing ports')

# informational: wall time of building a wide service
gm.get_node_properties = orig
t0 = time.time()
for i in range(46, 200):
    ns.add_interface(name=f'p{i}', node_id=f'sw-p{i}', itype=f.InterfaceType.TrunkPort)
print(f'adding ports 46..199 took {time.time() - t0:.2f} s')

# the duplicate check itself must of course still work
try:
    ns.add_interface(name='p7', node_id='sw-p7-again', itype=f.InterfaceType.TrunkPort)
    print('duplicate name accepted?!')
    sys.exit(2)
except Exception:
    pass

if at45 > at5:
    print('REGRESSION: the cost of add_interface() now grows with the number of ports the service has')
    sys.exit(1)
sys.exit(0)
