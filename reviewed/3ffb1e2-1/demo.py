#!/usr/bin/env python
"""
3ffb1e2: the new isinstance(interfaces, (list, tuple)) check in the NetworkService constructor also rejects
every other sized iterable of Interface objects (dict views, sets), which the constructor accepted before
(it only ever used len() and a for loop on the argument).

exit 0: a service created from a dict view / a set of interfaces connects them (parent commit behaviour)
exit 1: TopologyException "interfaces must be specified as a list" (HEAD behaviour)
"""
import os
import sys

HERE = os.path.dirname(os.path.abspath(__file__))
ROOT = os.environ.get('FIM_ROOT', os.path.abspath(os.path.join(HERE, '..', '..')))
sys.path.insert(0, ROOT)

import fim.user as f
from fim.user.topology import TopologyException

t = f.ExperimentTopology()
n1 = t.add_node(name='n1', site='RENC')
n2 = t.add_node(name='n2', site='RENC')
n1.add_component(name='nic1', ctype=f.ComponentType.SharedNIC, model='ConnectX-6')
n2.add_component(name='nic2', ctype=f.ComponentType.SharedNIC, model='ConnectX-6')
by_node = {'n1': n1.interface_list[0], 'n2': n2.interface_list[0]}

failed = False
for label, arg in (('dict view', by_node.values()),
                   ('ViewOnlyDict view', n1.interfaces.values()),
                   ('set', set(by_node.values()))):
    try:
        s = t.add_network_service(name='br', nstype=f.ServiceType.L2Bridge, interfaces=arg)
    except TopologyException as e:
        print(f'{label}: rejected: {e}')
        failed = True
        continue
    names = sorted(i.name for i in s.interface_list)
    print(f'{label}: service created with ports {names}')
    if len(names) != len(arg):
        failed = True
    t.remove_network_service('br')

sys.exit(1 if failed else 0)
