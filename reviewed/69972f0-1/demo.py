#!/usr/bin/env python
"""
69972f0 (minor): MaintenanceInfo.from_json now calls v.items() on every entry; an entry that is
not an object (null, a string, a list) used to be refused with TypeError, now AttributeError.
exit 0: TypeError (parent), exit 1: a different exception class (HEAD)
"""
import os
import sys

here = os.path.dirname(os.path.abspath(__file__))
root = os.environ.get('FIM_ROOT') or os.path.abspath(os.path.join(here, '..', '..'))
sys.path.insert(0, root)

from fim.slivers.maintenance_mode import MaintenanceInfo

rc = 0
for js in ('{"w1": null}', '{"w1": "PreMaint"}', '{"w1": ["PreMaint"]}'):
    try:
        MaintenanceInfo.from_json(js)
        print(js, 'accepted?')
        rc = 1
    except TypeError as e:
        print(js, 'TypeError', e)
    except Exception as e:
        print(js, 'raised', type(e).__name__, e)
        rc = 1
sys.exit(rc)
