#!/usr/bin/env python3
"""
C08-D1: NetworkService.disconnect_interface() never checks that the interface is connected to
*this* service. It removes whatever single peer the interface has: the ServicePort of another
service, or even the port of another node joined by a plain Link.
"""
import os
import sys

HERE = os.path.dirname(os.path.abspath(__file__))
ROOT = os.environ.get('FIM_ROOT', os.path.abspath(os.path.join(HERE, '..', '..')))
sys.path.insert(0, ROOT)

from fim.user.topology import ExperimentTopology
from fim.user import ComponentModelType, ServiceType, LinkType


def snapshot(t):
    """ {node_id: properties} and the set of edges of the model """
    g = t.graph_model.storage.get_graph(t.graph_model.graph_id)
    gid = t.graph_model.graph_id
    nodes = {d['NodeID']: dict(d) for _, d in g.nodes(data=True) if d.get('GraphID') == gid}
    edges = {(frozenset((g.nodes[a]['NodeID'], g.nodes[b]['NodeID'])), d.get('Class'))
             for a, b, d in g.edges(data=True) if g.nodes[a].get('GraphID') == gid}
    return nodes, edges


def describe(nodes, ids):
    return sorted(f"{nodes[i]['Class']}:{nodes[i].get('Name')}" for i in ids)


violations = 0

# ---- case A: disconnect through a service the interface is NOT connected to
t = ExperimentTopology()
n1 = t.add_node(name='n1', site='RENC')
n2 = t.add_node(name='n2', site='RENC')
nic1 = n1.add_component(name='nic1', model_type=ComponentModelType.SmartNIC_ConnectX_6)
nic2 = n2.add_component(name='nic1', model_type=ComponentModelType.SmartNIC_ConnectX_6)
p1 = nic1.interfaces['nic1-p1']
q1 = nic2.interfaces['nic1-p1']
s1 = t.add_network_service(name='s1', nstype=ServiceType.L2Bridge, interfaces=[p1])
s2 = t.add_network_service(name='s2', nstype=ServiceType.L2Bridge, interfaces=[q1])

before = snapshot(t)
s2.disconnect_interface(p1)      # p1 is connected to s1, not to s2
after = snapshot(t)
gone = [i for i in before[0] if i not in after[0]]
print('A: s2.disconnect_interface(<interface connected to s1>) removed:', describe(before[0], gone))
print('A: s1 handle reports      ', [i.name for i in s1.interface_list])
print('A: fresh s1 handle reports', [i.name for i in t.network_services['s1'].interface_list])
if gone:
    print('A: VIOLATION - elements of service s1 were deleted through service s2')
    violations += 1

# ---- case B: the only peer of the interface is another node's port (joined by a Link)
t = ExperimentTopology()
n1 = t.add_node(name='n1', site='RENC')
n2 = t.add_node(name='n2', site='RENC')
nic1 = n1.add_component(name='nic1', model_type=ComponentModelType.SmartNIC_ConnectX_6)
nic2 = n2.add_component(name='nic1', model_type=ComponentModelType.SmartNIC_ConnectX_6)
p1 = nic1.interfaces['nic1-p1']
q1 = nic2.interfaces['nic1-p1']
t.add_link(name='l1', ltype=LinkType.Patch, interfaces=[p1, q1])
s3 = t.add_network_service(name='s3', nstype=ServiceType.L2Bridge)

before = snapshot(t)
s3.disconnect_interface(p1)      # p1 is not connected to any service
after = snapshot(t)
gone = [i for i in before[0] if i not in after[0]]
print('B: s3.disconnect_interface(<interface linked to n2 nic1-p1>) removed:', describe(before[0], gone))
print('B: interfaces of n2 now:', sorted(i.name for i in t.nodes['n2'].interface_list))
if gone:
    print("B: VIOLATION - another node's port and the link were deleted by a disconnect on an "
          "unrelated service")
    violations += 1

sys.exit(1 if violations else 0)
