#!/usr/bin/env python3
"""
C14: the empty combined model (before the first merge, or after the last contributing model was
unmerged) is a legitimate point of every merge/unmerge/snapshot/rollback history, but on the
in-memory shared store
  * snapshot() dies with AttributeError ('NoneType' object has no attribute 'copy') because
    clone_graph() does not expect extract_graph() to return None for a graph without nodes, so
    "rolling back to a snapshot taken before" the first merge is impossible;
  * unmerge_adm() raises "Unable to find graph nodes" instead of removing nothing.
Exit 1 when the violation manifests, 0 otherwise.
"""
import json
import logging
import os
import sys

HERE = os.path.dirname(os.path.abspath(__file__))
ROOT = os.environ.get('FIM_ROOT', os.path.dirname(os.path.dirname(HERE)))
sys.path.insert(0, ROOT)

from fim.graph.networkx_property_graph import NetworkXPropertyGraph, NetworkXGraphImporter
from fim.graph.resources.networkx_adm import NetworkXADMGraph
from fim.graph.resources.abc_cbm import ABCCBMPropertyGraph
import fim.graph.resources.neo4j_cbm as neo4j_cbm

# The library has no NetworkX flavour of the combined model. As the property says, the merge
# code (written against the abstract graph interface) is run on the in-memory shared store:
# the unchanged functions of Neo4jCBMGraph / ABCCBMPropertyGraph on top of NetworkXPropertyGraph.
# The only adaptation is the "crude typecasting" of the temporary clone inside merge_adm,
# which has to produce the NetworkX ADM class instead of the Neo4j one.
neo4j_cbm.Neo4jADMGraph = NetworkXADMGraph


class NetworkXCBMGraph(NetworkXPropertyGraph, ABCCBMPropertyGraph):
    _update_node_delegations = neo4j_cbm.Neo4jCBMGraph._update_node_delegations
    merge_adm = neo4j_cbm.Neo4jCBMGraph.merge_adm
    unmerge_adm = neo4j_cbm.Neo4jCBMGraph.unmerge_adm
    get_delegations = neo4j_cbm.Neo4jCBMGraph.get_delegations
    # snapshot() / rollback() are inherited from ABCCBMPropertyGraph

    def get_bqm(self, **kwargs):
        raise NotImplementedError

    def get_matching_nodes_with_components(self, **kwargs):
        raise NotImplementedError

    def get_intersite_links(self):
        raise NotImplementedError

    def get_sites(self):
        raise NotImplementedError

    def get_disconnected_sites(self):
        raise NotImplementedError

    def get_connected_sites(self):
        raise NotImplementedError

    def get_facility_ports(self):
        raise NotImplementedError


LOG = logging.getLogger('demo')
LOG.addHandler(logging.NullHandler())
LOG.propagate = False
IMPORTER = NetworkXGraphImporter()


def make_adm(graph_id, nodes, links):
    """build a delegation model with ordinary add_node / add_link calls"""
    adm = NetworkXADMGraph(graph_id=graph_id, importer=IMPORTER, logger=LOG)
    for node_id, (label, props) in nodes.items():
        adm.add_node(node_id=node_id, label=label, props=dict(props))
    for a, rel, b in links:
        adm.add_link(node_a=a, rel=rel, node_b=b)
    return adm


def cap_delegation(delegation_id, **caps):
    return json.dumps({delegation_id: {"pool_id": "_", "capacities": caps}})


def label_delegation(delegation_id, **labels):
    return json.dumps({delegation_id: {"pool_id": "_", "labels": labels}})


def canonical(graph):
    """canonical snapshot of a graph: nodes by NodeID with their properties (adm_graph_ids as a
    sorted list), links as (NodeID, NodeID, properties); a link leaving the graph is marked"""
    store = graph.storage.get_graph(graph.graph_id)
    nodes = dict()
    for _, d in store.nodes(data=True):
        if d.get('GraphID') != graph.graph_id:
            continue
        props = {k: v for k, v in d.items() if k != 'GraphID'}
        if props.get('StructuralInfo'):
            si = json.loads(props['StructuralInfo'])
            if isinstance(si.get('adm_graph_ids'), list):
                si['adm_graph_ids'] = sorted(si['adm_graph_ids'])
            props['StructuralInfo'] = json.dumps(si, sort_keys=True)
        nodes.setdefault(d['NodeID'], []).append(props)
    links = set()
    for u, v, d in store.edges(data=True):
        du, dv = store.nodes[u], store.nodes[v]
        if graph.graph_id not in (du.get('GraphID'), dv.get('GraphID')):
            continue
        ends = sorted(('' if x.get('GraphID') == graph.graph_id else f'<in graph {x.get("GraphID")}>') +
                      str(x.get('NodeID')) for x in (du, dv))
        links.add((ends[0], ends[1], json.dumps(d, sort_keys=True)))
    return nodes, links


def stored_graph_ids():
    store = IMPORTER.storage.get_graph('any')
    return sorted(set(str(d.get('GraphID')) for _, d in store.nodes(data=True)))

IMPORTER.delete_all_graphs()
a = make_adm('ADM-A',
             {'a-node': ('NetworkNode', {'Name': 'a-node', 'CapacityDelegations': cap_delegation('primary', core=4)}),
              'stitch-1': ('ConnectionPoint', {'Name': 'stitch-1', 'StitchNode': 'true'})},
             [('a-node', 'connects', 'stitch-1')])
cbm = NetworkXCBMGraph(graph_id='CBM', importer=IMPORTER, logger=LOG)
problems = []

# history 1: snapshot, merge A, rollback -> should be the (empty) previous model
try:
    snap_id = cbm.snapshot()
    print(f'snapshot of the combined model before the first merge: {snap_id}')
    cbm.merge_adm(adm=a)
    cbm.rollback(graph_id=snap_id)
    print(f'after rollback the model has elements: {sorted(canonical(cbm)[0])}')
    if canonical(cbm)[0]:
        problems.append('rollback to the snapshot taken before the first merge did not restore the empty model')
except BaseException as e:
    print(f'snapshot() before the first merge RAISED {type(e).__name__}: {e}')
    problems.append('no snapshot can be taken of the combined model before the first merge')

# history 2: merge A, unmerge A (back to the previous, empty model), snapshot
IMPORTER.delete_graph(graph_id='CBM')
cbm.merge_adm(adm=a)
cbm.unmerge_adm(graph_id='ADM-A')
print(f'merge A, unmerge A: elements left {sorted(canonical(cbm)[0])}')
try:
    cbm.snapshot()
    print('snapshot after merge+unmerge: ok')
except BaseException as e:
    print(f'snapshot() after merge A, unmerge A RAISED {type(e).__name__}: {e}')
    problems.append('no snapshot can be taken after merge followed by unmerge')

# history 3: unmerge of a model that contributed nothing (model is empty)
try:
    cbm.unmerge_adm(graph_id='ADM-A')
    print('second unmerge of A on the empty model: nothing to remove, ok')
except BaseException as e:
    print(f'unmerge_adm() on the empty combined model RAISED {type(e).__name__}: {e}')
    problems.append('unmerge on the empty model raises instead of removing nothing')

IMPORTER.delete_all_graphs()
if problems:
    for p in problems:
        print('VIOLATION:', p)
    sys.exit(1)
print('property held')
sys.exit(0)
