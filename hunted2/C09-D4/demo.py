#!/usr/bin/env python3
"""
C09-D4: Topology.remove_node() (the same loop is in Node.remove_component(),
Node.remove_network_service() and Topology.remove_facility()) disconnects the interfaces of the
node from their network services one by one and only afterwards removes the node.  When the
k-th interface cannot be disconnected (it has a second peer, here because it was also joined to
another port with Topology.add_link(), which accepts an already connected interface) the call
raises TopologyException - but interfaces 1..k-1 have already lost their ServicePort and link.
The node is still there, the services it was connected to are not what they were.

exit 1 = violation observed (model changed by a call that raised), exit 0 = property held.
"""
import os
import sys

HERE = os.path.dirname(os.path.abspath(__file__))
FIM_ROOT = os.environ.get('FIM_ROOT', os.path.abspath(os.path.join(HERE, '..', '..')))
sys.path.insert(0, FIM_ROOT)

from fim.user.topology import ExperimentTopology
from fim.user import ComponentType, ServiceType, LinkType


def snapshot(topo):
    gid = topo.graph_model.graph_id
    g = topo.graph_model.storage.get_graph(gid)
    mine = {n: d for n, d in g.nodes(data=True) if d.get('GraphID') == gid}
    nodes = sorted((str(d.get('NodeID')), sorted((k, str(v)) for k, v in d.items())) for d in mine.values())
    edges = sorted((sorted([str(mine[a]['NodeID']), str(mine[b]['NodeID'])]), sorted((k, str(v)) for k, v in d.items()))
                   for a, b, d in g.edges(data=True) if a in mine and b in mine)
    return nodes, edges


t = ExperimentTopology()
n1 = t.add_node(name='n1', site='RENC')
n2 = t.add_node(name='n2', site='RENC')
nic1 = n1.add_component(name='nic1', ctype=ComponentType.SmartNIC, model='ConnectX-6')
nic2 = n2.add_component(name='nic2', ctype=ComponentType.SmartNIC, model='ConnectX-6')

# remove_node() walks the interfaces in model order; the first one is the good one, the last one
# gets the second peer
order = list(t.nodes['n1'].interface_list)
good, bad = order[0], order[-1]
svc_good = t.add_network_service(name='br-good', nstype=ServiceType.L2Bridge, interfaces=[good])
svc_bad = t.add_network_service(name='br-bad', nstype=ServiceType.L2Bridge, interfaces=[bad])
t.add_link(name='direct', ltype=LinkType.L2Path, interfaces=[bad, nic2.interface_list[0]])
assert [i.name for i in t.nodes['n1'].interface_list] == [i.name for i in order]

print(f'n1 ports in model order: {[i.name for i in order]}; {bad.name} has peers {[p.name for p in bad.get_peers()]}')
print(f'before: br-good ports = {[i.name for i in t.network_services["br-good"].interface_list]}, '
      f'links = {sorted(t.links.keys())}')

before = snapshot(t)
try:
    t.remove_node('n1')
    print('remove_node() did not raise')
    sys.exit(0)
except BaseException as e:
    print(f'remove_node("n1") raised {type(e).__name__}: {str(e)[:60]}... has more than one peer ...')
after = snapshot(t)

print(f'after : br-good ports = {[i.name for i in t.network_services["br-good"].interface_list]}, '
      f'links = {sorted(t.links.keys())}, nodes = {sorted(t.nodes.keys())}')
if after != before:
    b = {n[0]: dict(n[1]) for n in before[0]}
    a = {n[0]: dict(n[1]) for n in after[0]}
    print('VIOLATION: the model changed although the call raised:')
    for k in sorted(set(b) - set(a)):
        print(f'   removed: {b[k].get("Class")} {b[k].get("Name")}')
    for k in sorted(set(a) - set(b)):
        print(f'   added: {a[k].get("Class")} {a[k].get("Name")}')
    sys.exit(1)
print('model unchanged: property held')
sys.exit(0)
