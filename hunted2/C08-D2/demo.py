#!/usr/bin/env python3
"""
C08-D2: ExperimentTopology.prune() collects nodes, components, network services and interfaces in
the given reservation state and removes them in that order. When an element and one of the elements
it owns are both in that state (a failed node and its failed component - the usual outcome of a
failed VM), the owner is removed first and the removal of the already deleted owned element raises.
prune() aborts half way: everything after it in the order (here an unrelated failed service) stays
in the model.
"""
import os
import sys

HERE = os.path.dirname(os.path.abspath(__file__))
ROOT = os.environ.get('FIM_ROOT', os.path.abspath(os.path.join(HERE, '..', '..')))
sys.path.insert(0, ROOT)

from fim.user.topology import ExperimentTopology
from fim.user import ComponentModelType, ServiceType, ReservationInfo


def classes_and_names(t):
    g = t.graph_model.storage.get_graph(t.graph_model.graph_id)
    return sorted(f"{d['Class']}:{d.get('Name')}" for _, d in g.nodes(data=True)
                  if d.get('GraphID') == t.graph_model.graph_id)


failed = ReservationInfo()
failed.reservation_state = 'Failed'

t = ExperimentTopology()
n1 = t.add_node(name='n1', site='RENC')
n2 = t.add_node(name='n2', site='RENC')
nic1 = n1.add_component(name='nic1', model_type=ComponentModelType.SmartNIC_ConnectX_6)
nic2 = n2.add_component(name='nic1', model_type=ComponentModelType.SmartNIC_ConnectX_6)
s1 = t.add_network_service(name='s1', nstype=ServiceType.L2Bridge,
                           interfaces=[nic1.interfaces['nic1-p1'], nic2.interfaces['nic1-p1']])
s2 = t.add_network_service(name='s2', nstype=ServiceType.L2Bridge,
                           interfaces=[nic2.interfaces['nic1-p2']])

# node n1 failed, and so did its component; service s2 (unrelated to n1) failed as well
n1.reservation_info = failed
nic1.reservation_info = failed
s2.reservation_info = failed

print('before:', classes_and_names(t))
raised = None
try:
    t.prune(reservation_state='Failed')
except Exception as e:
    raised = e
    print(f'prune() raised {type(e).__name__}: {e}')
left = classes_and_names(t)
print('after: ', left)

still_failed = []
for ns in t.network_services.values():
    ri = ns.reservation_info
    if ri is not None and ri.reservation_state == 'Failed':
        still_failed.append(ns.name)
print('services still in state Failed after prune():', still_failed)

if raised is not None or still_failed:
    print('VIOLATION - prune() removed the failed node, then tripped over its (already removed) '
          'failed component and left the rest of the failed elements in the model')
    sys.exit(1)
sys.exit(0)
