#!/usr/bin/env python3
"""
C14: a merge that is refused is not all-or-nothing. merge_adm() checks "only one side may speak
for a resource" (_update_node_delegations) node by node INSIDE the loop that already merges the
common nodes. When the check fails on the k-th common node, the k-1 nodes before it have been
merged for good: they list the refused model in adm_graph_ids, carry its delegations, and hold
links to nodes of the temporary clone, which itself is left behind in the store under a random
id. The combined model is neither the previous one nor the union.
The order in which the common nodes are visited is a set order, so the demo moves the conflict
over every shared node; a refusal is atomic only when the conflicting node happens to be first.
Exit 1 when the violation manifests, 0 otherwise.
"""
import json
import logging
import os
import sys

HERE = os.path.dirname(os.path.abspath(__file__))
ROOT = os.environ.get('FIM_ROOT', os.path.dirname(os.path.dirname(HERE)))
sys.path.insert(0, ROOT)

from fim.graph.networkx_property_graph import NetworkXPropertyGraph, NetworkXGraphImporter
from fim.graph.resources.networkx_adm import NetworkXADMGraph
from fim.graph.resources.abc_cbm import ABCCBMPropertyGraph
import fim.graph.resources.neo4j_cbm as neo4j_cbm

# The library has no NetworkX flavour of the combined model. As the property says, the merge
# code (written against the abstract graph interface) is run on the in-memory shared store:
# the unchanged functions of Neo4jCBMGraph / ABCCBMPropertyGraph on top of NetworkXPropertyGraph.
# The only adaptation is the "crude typecasting" of the temporary clone inside merge_adm,
# which has to produce the NetworkX ADM class instead of the Neo4j one.
neo4j_cbm.Neo4jADMGraph = NetworkXADMGraph


class NetworkXCBMGraph(NetworkXPropertyGraph, ABCCBMPropertyGraph):
    _update_node_delegations = neo4j_cbm.Neo4jCBMGraph._update_node_delegations
    merge_adm = neo4j_cbm.Neo4jCBMGraph.merge_adm
    unmerge_adm = neo4j_cbm.Neo4jCBMGraph.unmerge_adm
    get_delegations = neo4j_cbm.Neo4jCBMGraph.get_delegations
    # snapshot() / rollback() are inherited from ABCCBMPropertyGraph

    def get_bqm(self, **kwargs):
        raise NotImplementedError

    def get_matching_nodes_with_components(self, **kwargs):
        raise NotImplementedError

    def get_intersite_links(self):
        raise NotImplementedError

    def get_sites(self):
        raise NotImplementedError

    def get_disconnected_sites(self):
        raise NotImplementedError

    def get_connected_sites(self):
        raise NotImplementedError

    def get_facility_ports(self):
        raise NotImplementedError


LOG = logging.getLogger('demo')
LOG.addHandler(logging.NullHandler())
LOG.propagate = False
IMPORTER = NetworkXGraphImporter()


def make_adm(graph_id, nodes, links):
    """build a delegation model with ordinary add_node / add_link calls"""
    adm = NetworkXADMGraph(graph_id=graph_id, importer=IMPORTER, logger=LOG)
    for node_id, (label, props) in nodes.items():
        adm.add_node(node_id=node_id, label=label, props=dict(props))
    for a, rel, b in links:
        adm.add_link(node_a=a, rel=rel, node_b=b)
    return adm


def cap_delegation(delegation_id, **caps):
    return json.dumps({delegation_id: {"pool_id": "_", "capacities": caps}})


def label_delegation(delegation_id, **labels):
    return json.dumps({delegation_id: {"pool_id": "_", "labels": labels}})


def canonical(graph):
    """canonical snapshot of a graph: nodes by NodeID with their properties (adm_graph_ids as a
    sorted list), links as (NodeID, NodeID, properties); a link leaving the graph is marked"""
    store = graph.storage.get_graph(graph.graph_id)
    nodes = dict()
    for _, d in store.nodes(data=True):
        if d.get('GraphID') != graph.graph_id:
            continue
        props = {k: v for k, v in d.items() if k != 'GraphID'}
        if props.get('StructuralInfo'):
            si = json.loads(props['StructuralInfo'])
            if isinstance(si.get('adm_graph_ids'), list):
                si['adm_graph_ids'] = sorted(si['adm_graph_ids'])
            props['StructuralInfo'] = json.dumps(si, sort_keys=True)
        nodes.setdefault(d['NodeID'], []).append(props)
    links = set()
    for u, v, d in store.edges(data=True):
        du, dv = store.nodes[u], store.nodes[v]
        if graph.graph_id not in (du.get('GraphID'), dv.get('GraphID')):
            continue
        ends = sorted(('' if x.get('GraphID') == graph.graph_id else f'<in graph {x.get("GraphID")}>') +
                      str(x.get('NodeID')) for x in (du, dv))
        links.add((ends[0], ends[1], json.dumps(d, sort_keys=True)))
    return nodes, links


def stored_graph_ids():
    store = IMPORTER.storage.get_graph('any')
    return sorted(set(str(d.get('GraphID')) for _, d in store.nodes(data=True)))

SHARED = ['stitch-%d' % i for i in range(1, 6)]


def build(conflict_on):
    IMPORTER.delete_all_graphs()
    models = dict()
    for name, vlans in (('ADM-A', '100-200'), ('ADM-B', '300-400')):
        nodes = {f'{name}-node': ('NetworkNode', {'Name': f'{name}-node',
                                                  'CapacityDelegations': cap_delegation('primary', core=4)})}
        links = []
        for s in SHARED:
            props = {'Name': s, 'StitchNode': 'true'}
            if s == conflict_on:
                # both models claim to speak for this shared element - not allowed
                props['LabelDelegations'] = label_delegation('primary', vlan_range=vlans)
            nodes[s] = ('ConnectionPoint', props)
            links.append((f'{name}-node', 'connects', s))
        models[name] = make_adm(name, nodes, links)
    return models, NetworkXCBMGraph(graph_id='CBM', importer=IMPORTER, logger=LOG)


violations = 0
leaks_only = 0
for conflict_on in SHARED:
    models, cbm = build(conflict_on)
    cbm.merge_adm(adm=models['ADM-A'])
    before = canonical(cbm)
    ids_before = stored_graph_ids()
    try:
        cbm.merge_adm(adm=models['ADM-B'])
        print(f'conflict on {conflict_on}: merge of ADM-B was accepted?!')
        continue
    except Exception as e:
        refusal = f'{type(e).__name__}: {e}'
    after = canonical(cbm)
    leaked = [g for g in stored_graph_ids() if g not in ids_before]
    print(f'conflict on {conflict_on}: merge of ADM-B refused ({refusal[:95]}...)')
    if after == before and not leaked:
        print('     combined model unchanged, nothing left behind')
        continue
    if after != before:
        violations += 1
    else:
        leaks_only += 1
    for node_id in sorted(after[0]):
        if after[0][node_id] != before[0].get(node_id):
            print(f'     node {node_id} now records {after[0][node_id][0].get("StructuralInfo")}')
    for link in sorted(after[1] - before[1]):
        print(f'     new link {link[0]} -- {link[1]}')
    if leaked:
        print(f'     temporary clone left in the store: {leaked}')
    # the refused model was never merged, yet elements say it contributed them
    claimed = [n for n, p in after[0].items() if 'ADM-B' in json.loads(p[0]['StructuralInfo'])['adm_graph_ids']]
    print(f'     elements claiming ADM-B as a contributor after the refusal: {sorted(claimed)}')
IMPORTER.delete_all_graphs()

if violations:
    print(f'VIOLATION: in {violations} of {len(SHARED)} placements the refused merge left the combined model '
          f'half merged (in {leaks_only} more only the temporary clone was left behind)')
    sys.exit(1)
print('property held')
sys.exit(0)
