#!/usr/bin/env python3
"""
C16-D3: a component name that is inside the documented domain of component names
(ComponentSliver.NAME_REGEX = ^[\\w\\-_\\.\\ ]{2,255}$ - the blank is explicitly allowed) is
accepted for a GPU but rejected for every component that carries interfaces (SharedNIC,
SmartNIC, FPGA): the catalog derives the name of the component's network service from the
component name and validates it against NetworkServiceSliver.NAME_REGEX, which has no blank.
Exit 1 = violation observed, exit 0 = property held.
"""
import os
import re
import sys

HERE = os.path.dirname(os.path.abspath(__file__))
FIM_ROOT = os.environ.get('FIM_ROOT', os.path.dirname(os.path.dirname(HERE)))
sys.path.insert(0, FIM_ROOT)

from fim.user.topology import ExperimentTopology
from fim.user import ComponentModelType
from fim.slivers.attached_components import ComponentSliver
from fim.slivers.component_catalog import ComponentCatalog

name = 'my nic'
print('ComponentSliver.NAME_REGEX =', ComponentSliver.NAME_REGEX)
print(f'{name!r} matches it:', re.fullmatch(ComponentSliver.NAME_REGEX, name) is not None)

cs = ComponentSliver()
cs.set_name(name)
print(f'ComponentSliver.set_name({name!r}): accepted')

violated = False
topo = ExperimentTopology()
node = topo.add_node(name='n1', site='RENC')

node.add_component(name='my gpu', model_type=ComponentModelType.GPU_RTX6000)
print("node.add_component(name='my gpu', GPU_RTX6000): accepted")

for mt in (ComponentModelType.SharedNIC_ConnectX_6, ComponentModelType.SmartNIC_ConnectX_6,
           ComponentModelType.FPGA_Xilinx_U280):
    try:
        node.add_component(name=name, model_type=mt)
        print(f'node.add_component(name={name!r}, {mt.name}): accepted')
        node.remove_component(name=name)
    except ValueError as e:
        print(f'[VIOLATED] node.add_component(name={name!r}, {mt.name}): rejected: {e}')
        violated = True

# the sliver level generator on its own
try:
    ComponentCatalog().generate_component(name=name, model_type=ComponentModelType.SharedNIC_ConnectX_6)
    print('ComponentCatalog.generate_component: accepted')
except ValueError as e:
    print('[VIOLATED] ComponentCatalog.generate_component: rejected:', e)
    violated = True

sys.exit(1 if violated else 0)
