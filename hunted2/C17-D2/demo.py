#!/usr/bin/env python
"""
C17-D2: the sliver diffs decide "present in both" by dictionary key (the name) alone, although a sliver's
identity (BaseSliver.__eq__/__hash__, and the model) is name AND node_id. If a component is removed and a
different component is added under the same name between the two versions (GPU 'dev1' -> NVME 'dev1',
other node_id, other type and model), NodeSliver.diff() reports neither a removed nor an added component
and - because only labels/capacities/user data are looked at - returns None: "no difference".
Exit 1 = violation observed.
"""
import os
import sys

HERE = os.path.dirname(os.path.abspath(__file__))
ROOT = os.environ.get('FIM_ROOT', os.path.dirname(os.path.dirname(HERE)))
sys.path.insert(0, ROOT)

from fim.user.topology import ExperimentTopology
from fim.user import ComponentType

violations = []

t = ExperimentTopology()
n1 = t.add_node(name='n1', site='RENC')
n1.add_component(name='dev1', ctype=ComponentType.GPU, model='RTX6000')
old = n1.get_sliver()
n1.remove_component('dev1')
n1.add_component(name='dev1', ctype=ComponentType.NVME, model='P4510')
new = n1.get_sliver()

co = old.attached_components_info.get_device('dev1')
cn = new.attached_components_info.get_device('dev1')
print('old component:', co.get_type(), co.get_model(), co.node_id)
print('new component:', cn.get_type(), cn.get_model(), cn.node_id)
print('old component == new component (sliver identity):', co == cn)
d = old.diff(new)
print('old.diff(new) =', d)
if co != cn and (d is None or (cn not in d.added.components and co not in d.removed.components)):
    violations.append('component dev1 (GPU) was removed and another dev1 (NVME) added; '
                      'diff reports no added and no removed component'
                      + (' and no difference at all' if d is None else ''))

# same with a SmartNIC swapped for another SmartNIC model: interfaces and their ids are all new
t = ExperimentTopology()
n1 = t.add_node(name='n1', site='RENC')
n1.add_component(name='nic1', ctype=ComponentType.SmartNIC, model='ConnectX-5')
old = n1.get_sliver()
n1.remove_component('nic1')
n1.add_component(name='nic1', ctype=ComponentType.SmartNIC, model='ConnectX-6')
new = n1.get_sliver()
d = old.diff(new)
print('SmartNIC ConnectX-5 nic1 replaced by ConnectX-6 nic1: old.diff(new) =', d)
if d is None:
    violations.append('SmartNIC nic1 replaced by another model with new ports: diff is None')

for v in violations:
    print('VIOLATION:', v)
sys.exit(1 if violations else 0)
