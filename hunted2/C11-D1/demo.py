#!/usr/bin/env python3
"""
C11-D1: a slice-wide network service whose name is later re-used by a service nested in a
component (the OVS service FIM creates for every NIC is called <node>-<component>-l2ovs and is
added without any uniqueness check) disappears from Topology.network_services, which is a
dictionary keyed by service NAME. Both collectors iterate over that dictionary, so the bandwidth
and the external-site of the slice-wide service never reach the authorization request and the
service is not counted by the accounting summary.

exit 1 = violation observed, exit 0 = property held
"""
import os
import sys

HERE = os.path.dirname(os.path.abspath(__file__))
FIM_ROOT = os.environ.get('FIM_ROOT', os.path.abspath(os.path.join(HERE, '..', '..')))
sys.path.insert(0, FIM_ROOT)

from fim.user.topology import ExperimentTopology
from fim.user import ComponentModelType
from fim.user.network_service import ServiceType
from fim.slivers.capacities_labels import Capacities
from fim.authz.attribute_collector import ResourceAuthZAttributes as RA
from fim.logging.log_collector import LogCollector

t = ExperimentTopology()
n1 = t.add_node(name='n1', site='RENC', capacities=Capacities(core=2, ram=8, disk=10))
nic1 = n1.add_component(name='nic1', model_type=ComponentModelType.SmartNIC_ConnectX_6)
# an externally routed service with 25G of bandwidth; the name is legal and, at this point, unique
ext = t.add_network_service(name='n1-nic2-l2ovs', nstype=ServiceType.FABNetv4Ext,
                            interfaces=[nic1.interface_list[0]], capacities=Capacities(bw=25))
# adding a second NIC creates the nested OVS service 'n1-nic2-l2ovs' - accepted silently
nic2 = n1.add_component(name='nic2', model_type=ComponentModelType.SharedNIC_ConnectX_6)
# the slice is valid as far as the library is concerned
t.validate()

# ---- direct tally of the slice, straight from the model graph
gm = t.graph_model
tally_bw, tally_ext_sites, tally_services = [], set(), []
for nsid in gm.get_all_network_service_nodes():
    sl = gm.build_deep_ns_sliver(node_id=nsid)
    tally_services.append((sl.get_name(), str(sl.get_type())))
    if sl.capacities is not None:
        tally_bw.append(sl.capacities.bw)
    if sl.get_type() == ServiceType.FABNetv4Ext:
        # the site of an externally routed service is the site of the node(s) it attaches to
        for sp in t._get_ns_by_id(nsid).interface_list:
            for peer in sp.get_peers() or []:
                tally_ext_sites.add(t.get_owner_node(peer).site)
print('services in the model        :', sorted(tally_services))
print('Topology.network_services    :', sorted((k, str(v.type)) for k, v in t.network_services.items()))

bad = False
for label, source in (('topology object', t), ('ASM (serialized model)', t.graph_model)):
    a = RA()
    a.collect_resource_attributes(source=source)
    attrs = dict(a.attributes)
    got_bw = sorted(attrs.get(RA.RESOURCE_BW, []))
    got_ext = set(attrs.get(RA.RESOURCE_FABNETV4_EXT, []))
    print(f'[{label}] resource-bw {got_bw} (tally {sorted(tally_bw)}), '
          f'fabnetv4-ext-site {sorted(got_ext)} (tally {sorted(tally_ext_sites)})')
    if got_bw != sorted(tally_bw) or got_ext != tally_ext_sites:
        bad = True
    lc = LogCollector()
    lc.collect_resource_attributes(source=source)
    got_services = sorted(lc.attributes['services'])
    want_services = sorted((ty, bw) for ty, bw in
                           [(str(gm.build_deep_ns_sliver(node_id=i).get_type()),
                             (gm.build_deep_ns_sliver(node_id=i).capacities.bw
                              if gm.build_deep_ns_sliver(node_id=i).capacities else 0))
                            for i in gm.get_all_network_service_nodes()])
    print(f'[{label}] accounting services {got_services} (tally {want_services})')
    if got_services != want_services:
        bad = True

if bad:
    print('VIOLATION: the bandwidth / external site of service n1-nic2-l2ovs (FABNetv4Ext, 25G) is missing '
          'from the authorization attributes and the service is missing from the accounting summary')
    sys.exit(1)
print('property held')
sys.exit(0)
