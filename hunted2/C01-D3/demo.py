#!/usr/bin/env python3
"""
C01-D3: NetworkXPropertyGraph.merge_nodes(..., merge_properties={'<prop>': 'combine'}) - the
documented 'make a list of properties' policy - stores a Python list as a node property. The
graph still validates, serializes to JSON node-link and re-imports with the list intact, but
serialize_graph(GRAPHML) (the default format, also used by clone_graph of the abstract class and
by the authz / log collectors) raises: a model held by the library cannot be written as GraphML.

exit 1 = violation observed, exit 0 = property held
"""
import os
import sys

HERE = os.path.dirname(os.path.abspath(__file__))
FIM_ROOT = os.environ.get('FIM_ROOT', os.path.abspath(os.path.join(HERE, '..', '..')))
sys.path.insert(0, FIM_ROOT)

from fim.graph.abc_property_graph import GraphFormat
from fim.graph.networkx_property_graph import NetworkXGraphImporter, NetworkXPropertyGraph

imp = NetworkXGraphImporter()
a = NetworkXPropertyGraph(graph_id='c01-d3-A', importer=imp)
b = NetworkXPropertyGraph(graph_id='c01-d3-B', importer=imp)
for g, other in ((a, 'gpu-a'), (b, 'gpu-b')):
    g.add_node(node_id='site-node', label='NetworkNode', props={'Name': 'worker', 'Type': 'Server',
                                                                 'Site': 'RENC' if g is a else 'RENC-2'})
    g.add_node(node_id=other, label='Component', props={'Name': other, 'Type': 'GPU'})
    g.add_link(node_a='site-node', rel='has', node_b=other)

a.merge_nodes('site-node', b, merge_properties={'Site': 'combine'})
print('merged node:', a.get_node_properties(node_id='site-node'))
a.validate_graph()

bad = False
for fmt in (GraphFormat.JSON_NODELINK, GraphFormat.GRAPHML):
    try:
        text = a.serialize_graph(format=fmt)
        copy = imp.import_graph_from_string(graph_string=text, graph_id='c01-d3-copy-' + fmt.name)
        print(f'{fmt.name}: ok, Site after round trip = {copy.get_node_properties(node_id="site-node")[1]["Site"]!r}')
    except Exception as e:
        print(f'{fmt.name}: FAILED with {e!r}')
        bad = True
imp.delete_all_graphs()
if bad:
    print('VIOLATION: the merged graph cannot be serialized to GraphML (JSON node-link works)')
    sys.exit(1)
print('property held')
sys.exit(0)
