#!/usr/bin/env python3
"""
C12-D1: mixing label and capacity content is not rejected at the place where delegations are attached to a
sliver / model element: set_capacity_delegations (and set_label_delegations) only check isinstance(Delegations),
not the DelegationType. A LABEL Delegations object is accepted as capacity_delegations, is encoded into the
CapacityDelegations graph property with "labels" content, and from then on the element cannot be decoded at all
(KeyError 'capacities' from Delegations.from_json for ANY get_property / get_sliver call).
Exit 1 when the violation shows, 0 otherwise.
"""
import os
import sys

ROOT = os.environ.get('FIM_ROOT') or os.path.abspath(
    os.path.join(os.path.dirname(os.path.abspath(__file__)), '..', '..'))
sys.path.insert(0, ROOT)

from fim.user.topology import SubstrateTopology
from fim.user import NodeType
from fim.slivers.delegations import Delegations, Delegation, DelegationType, DelegationException
from fim.slivers.capacities_labels import Labels
from fim.slivers.network_node import NodeSliver
from fim.graph.abc_property_graph import ABCPropertyGraph

label_dels = Delegations(atype=DelegationType.LABEL)
d = Delegation(atype=DelegationType.LABEL, delegation_id='primary')
d.set_details(Labels(vlan_range='100-200'))
label_dels.add_delegations(d)

violations = []

# sliver level
s = NodeSliver()
try:
    s.set_capacity_delegations(label_dels)
    print('NodeSliver.set_capacity_delegations(<LABEL delegations>): accepted')
    violations.append('sliver setter accepts LABEL delegations as capacity delegations')
except (AssertionError, DelegationException) as e:
    print('NodeSliver.set_capacity_delegations(<LABEL delegations>): rejected', type(e).__name__)

# model element level
t = SubstrateTopology()
n = t.add_node(name='worker1', node_id='worker1-id', site='RENC', ntype=NodeType.Server)
try:
    n.set_property('capacity_delegations', label_dels)
    _, props = t.graph_model.get_node_properties(node_id=n.node_id)
    print('Node.set_property("capacity_delegations", <LABEL delegations>): accepted, graph now has')
    print('   CapacityDelegations =', props[ABCPropertyGraph.PROP_CAPACITY_DELEGATIONS])
    violations.append('model element accepts LABEL delegations as capacity delegations')
except (AssertionError, DelegationException) as e:
    print('Node.set_property rejected', type(e).__name__)

# consequence: nothing on that element can be read any more
for p in ('capacity_delegations', 'site'):
    try:
        print(f'   get_property({p!r}) ->', n.get_property(p))
    except Exception as e:
        print(f'   get_property({p!r}) raises {type(e).__name__}: {e}')
        violations.append(f'element unreadable after the mixed assignment ({p})')

if violations:
    print('VIOLATION:', '; '.join(violations))
    sys.exit(1)
print('property held')
sys.exit(0)
