#!/usr/bin/env python3
"""
C10-D1: Topology.validate() walks self.network_services, a dictionary keyed by the service NAME.
Service names only have to be unique within their node (Node.add_network_service) or among the
slice-wide services (add_network_service_sliver checks only parent_node_id is None), so two services
of one topology can legally carry the same name. The dictionary then keeps only the one that was
created last and validate() never looks at the other one: a topology containing a service that breaks
the constraint table is accepted.
Exit 1 = violation observed, exit 0 = property held.
"""
import os
import sys

HERE = os.path.dirname(os.path.abspath(__file__))
ROOT = os.environ.get('FIM_ROOT', os.path.dirname(os.path.dirname(HERE)))
sys.path.insert(0, ROOT)

from fim.user.topology import ExperimentTopology
from fim.user import ComponentModelType, InterfaceType
from fim.user.model_element import TopologyException
from fim.slivers.network_service import ServiceType
from fim.slivers.network_node import NodeType


def outcome(t):
    try:
        t.validate()
        return 'ACCEPTED'
    except TopologyException as e:
        return f'REJECTED ({e})'


def variant_a(order):
    """two switches, each with a node-owned P4 service called 'ns'; the one on 'bad' carries the
    forbidden property mirror_port"""
    t = ExperimentTopology()
    for nm in order:
        n = t.add_node(name=nm, site='RENC', ntype=NodeType.Switch)
        kw = dict(mirror_port='p1') if nm == 'bad' else {}
        s = n.add_network_service(name='ns', nstype=ServiceType.P4, **kw)
        s.add_interface(name='p1', itype=InterfaceType.DedicatedPort)
    return t


def variant_b(with_shadow):
    """slice-wide L2PTP service with 3 interfaces (max is 2) whose name equals the name the NIC of a
    node added later gives to its built-in OVS service"""
    t = ExperimentTopology()
    ifs = []
    for i, site in enumerate(['RENC', 'UKY', 'LBNL']):
        n = t.add_node(name=f'n{i}', site=site)
        c = n.add_component(name='nic1', model_type=ComponentModelType.SmartNIC_ConnectX_6)
        ifs.append(c.interface_list[0])
    t.add_network_service(name='n9-nic1-l2ovs', nstype=ServiceType.L2PTP, interfaces=ifs)
    if with_shadow:
        n9 = t.add_node(name='n9', site='RENC')
        n9.add_component(name='nic1', model_type=ComponentModelType.SmartNIC_ConnectX_6)
    return t


violated = False

print('Variant A: same-named services owned by two different nodes')
ref = outcome(variant_a(['bad']))
print(f"  only the bad service present          : {ref}")
for order in (['good', 'bad'], ['bad', 'good']):
    t = variant_a(order)
    res = outcome(t)
    n_model = len(t.graph_model.get_all_network_service_nodes())
    print(f"  nodes created in order {order!s:16}: {res}   "
          f"[services in model: {n_model}, in topology.network_services: {len(t.network_services)}]")
    if ref.startswith('REJECTED') and res == 'ACCEPTED':
        violated = True

print('Variant B: slice-wide service shadowed by the built-in service of a NIC added later')
ref = outcome(variant_b(False))
res = outcome(variant_b(True))
print(f"  invalid L2PTP (3 interfaces) alone     : {ref}")
print(f"  plus node n9 with component nic1       : {res}")
if ref.startswith('REJECTED') and res == 'ACCEPTED':
    violated = True

if violated:
    print('VIOLATION: validate() succeeded although a service of the topology breaks the constraint table')
    sys.exit(1)
print('property held')
sys.exit(0)
