#!/usr/bin/env python3
"""
C16-D2: a Capacities object with a negative field (the ordinary result of Capacities.__sub__,
e.g. 'total - requested') is accepted by set_capacities / model-element assignment and is
encoded into the model, but Capacities.from_json() refuses to decode it (assert v >= 0).
Since every property read decodes the whole sliver, the element - and with it the topology -
becomes unreadable.
Exit 1 = violation observed, exit 0 = property held.
"""
import os
import sys

HERE = os.path.dirname(os.path.abspath(__file__))
FIM_ROOT = os.environ.get('FIM_ROOT', os.path.dirname(os.path.dirname(HERE)))
sys.path.insert(0, FIM_ROOT)

from fim.slivers.capacities_labels import Capacities
from fim.slivers.network_node import NodeSliver
from fim.graph.abc_property_graph import ABCPropertyGraph
from fim.user.topology import ExperimentTopology

violated = False

# the direct constructor refuses negative values ...
try:
    Capacities(core=-2)
    print('Capacities(core=-2) accepted by the constructor (unexpected)')
except AssertionError:
    print('Capacities(core=-2): rejected by the constructor, as documented (non-negative ints)')

# ... but the library's own operator produces them
free = Capacities(core=2, ram=8) - Capacities(core=4, ram=2)
print('Capacities(core=2, ram=8) - Capacities(core=4, ram=2) =', free.to_json(), 'negative:', free.negative_fields())

# 1. sliver level: setter -> encode -> decode
sliver = NodeSliver()
sliver.set_name('n1')
accepted = True
try:
    sliver.set_capacities(free)
    sliver.set_capacity_allocations(free)
except Exception as e:
    accepted = False
    print('sliver.set_capacities(free) rejected:', type(e).__name__)
if accepted:
    props = ABCPropertyGraph.node_sliver_to_graph_properties_dict(sliver)
    print('sliver setter accepted it; encoded Capacities property =', props['Capacities'])
    try:
        ABCPropertyGraph.node_sliver_from_graph_properties_dict(props)
        print('decoded again without complaint')
    except AssertionError:
        print('[VIOLATED] decoding what was just encoded raises AssertionError (Capacities.from_json)')
        violated = True

# 2. model element level
topo = ExperimentTopology()
node = topo.add_node(name='n1', site='RENC', capacities=Capacities(core=2, ram=8))
try:
    node.capacities = free
    print('node.capacities = free: accepted and written to the model')
    stored = True
except Exception as e:
    print('node.capacities = free rejected:', type(e).__name__)
    stored = False
if stored:
    for what, fn in (('node.capacities', lambda: node.capacities),
                     ('node.site', lambda: node.site),
                     ("topo.add_node(name='n2', ...)", lambda: topo.add_node(name='n2', site='RENC')),
                     ('reload of topo.serialize()',
                      lambda: ExperimentTopology(graph_string=topo.serialize()).nodes['n1'].capacities)):
        try:
            fn()
            print(f'   {what}: ok')
        except AssertionError:
            print(f'[VIOLATED] {what}: AssertionError - the stored value cannot be decoded')
            violated = True

sys.exit(1 if violated else 0)
