#!/usr/bin/env python
"""
C07-D1: NetworkService.connect_interface() names the service port '<owner node>-<interface>' and the
link '<that>-link' without checking that the names are free. Two interfaces of one node that carry
the same name in different scopes (sub-interfaces 'vlan100' of two different dedicated ports - names
of sub-interfaces only have to be unique within their parent port) therefore produce two ServicePorts
with the same name inside ONE service and two Links with the same name inside the topology.
The views ns.interfaces and topology.links (dictionaries by name) then list fewer elements than the model has.
Exit 1 = violation observed.
"""
import os
import sys
from collections import Counter

HERE = os.path.dirname(os.path.abspath(__file__))
ROOT = os.environ.get('FIM_ROOT', os.path.dirname(os.path.dirname(HERE)))
sys.path.insert(0, ROOT)

from fim.user.topology import ExperimentTopology
from fim.user import ComponentType, ServiceType
from fim.slivers.capacities_labels import Labels

t = ExperimentTopology()
n1 = t.add_node(name='n1', site='RENC')
nic = n1.add_component(name='nic1', ctype=ComponentType.SmartNIC, model='ConnectX-6')
p1, p2 = nic.interface_list
# the same sub-interface name under two different parent ports: legal, the scope is the parent port
s1 = p1.add_child_interface(name='vlan100', labels=Labels(vlan='100'))
s2 = p2.add_child_interface(name='vlan100', labels=Labels(vlan='100'))
ns = t.add_network_service(name='br', nstype=ServiceType.L2Bridge, interfaces=[s1, s2])

g = t.graph_model.storage.extract_graph(t.graph_model.graph_id)
ns_int = [n for n, d in g.nodes(data=True) if d['NodeID'] == ns.node_id][0]
port_names = [g.nodes[m]['Name'] for m in g.neighbors(ns_int) if g.nodes[m]['Class'] == 'ConnectionPoint']
link_names = [d['Name'] for _, d in g.nodes(data=True) if d['Class'] == 'Link']

print('service ports of service br in the model :', port_names)
print('links in the model                       :', link_names)
print('view ns.interfaces (fresh handle)        :', list(t.network_services['br'].interfaces.keys()))
print('view topology.links                      :', list(t.links.keys()))

violations = []
dup_ports = [k for k, v in Counter(port_names).items() if v > 1]
dup_links = [k for k, v in Counter(link_names).items() if v > 1]
if dup_ports:
    violations.append(f'service br has several ServicePorts named {dup_ports} (names not unique in their scope)')
if dup_links:
    violations.append(f'topology has several Links named {dup_links} (names not unique in their scope)')
if len(t.network_services['br'].interfaces) != len(port_names):
    violations.append(f'ns.interfaces lists {len(t.network_services["br"].interfaces)} of {len(port_names)} ports')
if len(t.links) != len(link_names):
    violations.append(f'topology.links lists {len(t.links)} of {len(link_names)} links')

for v in violations:
    print('VIOLATION:', v)
sys.exit(1 if violations else 0)
