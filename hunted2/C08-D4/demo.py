#!/usr/bin/env python3
"""
C08-D4: Topology.remove_network_service(name) and Node.remove_network_service(name) are sibling
implementations that disagree. The node-level one disconnects the service's ports AND their
sub-interfaces from the services they are connected to; the topology-level one only looks at the
top-level ports. Removing a node-owned (switch) or component-owned service by name through the
topology deletes a connected sub-interface and its link, but leaves the ServicePort that was
created for it in the other service - a port with no link and no peer.
"""
import os
import sys

HERE = os.path.dirname(os.path.abspath(__file__))
ROOT = os.environ.get('FIM_ROOT', os.path.abspath(os.path.join(HERE, '..', '..')))
sys.path.insert(0, ROOT)

from fim.user.topology import ExperimentTopology
from fim.user import ServiceType, Labels


def names(t):
    g = t.graph_model.storage.get_graph(t.graph_model.graph_id)
    return sorted(f"{d['Class']}:{d.get('Name')}" for _, d in g.nodes(data=True)
                  if d.get('GraphID') == t.graph_model.graph_id)


def dangling_service_ports(t):
    ret = []
    for ns in t.network_services.values():
        for i in ns.interface_list:
            if str(i.type) == 'ServicePort' and not i.get_peers():
                ret.append(f'{ns.name}/{i.name}')
    return sorted(ret)


def build():
    t = ExperimentTopology()
    sw = t.add_switch(name='sw', site='RENC', nports=2)
    ch1 = sw.interfaces['p1'].add_child_interface(name='ch1', labels=Labels(vlan='100'))
    # the sub-interface and a plain port of the switch are connected to service s1
    t.add_network_service(name='s1', nstype=ServiceType.L2Bridge, interfaces=[ch1, sw.interfaces['p2']])
    return t


t = build()
t.nodes['sw'].remove_network_service('sw-ns')
ref = names(t)
print('Node.remove_network_service(sw-ns)     leaves', ref, 'dangling:', dangling_service_ports(t))

t = build()
t.remove_network_service('sw-ns')
got = names(t)
d = dangling_service_ports(t)
print('Topology.remove_network_service(sw-ns) leaves', got, 'dangling:', d)

if got != ref or d:
    print('VIOLATION - the ServicePort created for sub-interface ch1 survives its removal '
          '(the one created for port p2 was removed)')
    sys.exit(1)
sys.exit(0)
