#!/usr/bin/env python3
"""
C10-D2: the check that a declared site agrees with the site(s) of the connected nodes lives in
NetworkService.__validate_nstype_constraints, but the set of sites is only computed inside
`if ServiceConstraints[nstype].num_sites != NO_LIMIT:`. For the service types without a site limit
(L2Multisite, L3VPN) the set stays empty, the "disconnected service" branch is taken and neither
  - "originally specified site X does not match the site Y inferred from connected interfaces" nor
  - "service is multi-site, but site X was specified"
is ever raised - the sibling types (L2STS, L2Bridge, ...) reject exactly the same placements. Also the
inferred site is never recorded for them.
Exit 1 = violation observed, exit 0 = property held.
"""
import os
import sys

HERE = os.path.dirname(os.path.abspath(__file__))
ROOT = os.environ.get('FIM_ROOT', os.path.dirname(os.path.dirname(HERE)))
sys.path.insert(0, ROOT)

from fim.user.topology import ExperimentTopology
from fim.user import ComponentModelType
from fim.user.model_element import TopologyException
from fim.slivers.network_service import ServiceType

t = ExperimentTopology()
n1 = t.add_node(name='n1', site='RENC')
n2 = t.add_node(name='n2', site='UKY')
c1 = n1.add_component(name='nic1', model_type=ComponentModelType.SmartNIC_ConnectX_6)
c2 = n2.add_component(name='nic1', model_type=ComponentModelType.SmartNIC_ConnectX_6)

violated = False


def run(nstype, interfaces, label):
    s = t.add_network_service(name='net', nstype=nstype, interfaces=interfaces, site='LBNL')
    try:
        t.validate()
        res = f'ACCEPTED (service.site={s.site})'
        ok = True
    except TopologyException as e:
        res = f'REJECTED ({e})'
        ok = False
    print(f'  {str(nstype):12} declared site LBNL, {label}: {res}')
    t.remove_network_service('net')
    return ok


print('All connected nodes are at RENC, the service declares LBNL:')
ref = run(ServiceType.L2STS, [c1.interface_list[0], c1.interface_list[1]], 'nodes at RENC     ')
for ty in (ServiceType.L2Multisite, ServiceType.L3VPN):
    if run(ty, [c1.interface_list[0], c1.interface_list[1]], 'nodes at RENC     ') and not ref:
        violated = True

print('Connected nodes are at RENC and UKY, the service declares LBNL:')
ref = run(ServiceType.L2STS, [c1.interface_list[0], c2.interface_list[0]], 'nodes at RENC, UKY')
for ty in (ServiceType.L2Multisite, ServiceType.L3VPN):
    if run(ty, [c1.interface_list[0], c2.interface_list[0]], 'nodes at RENC, UKY') and not ref:
        violated = True

if violated:
    print('VIOLATION: a declared site that disagrees with the site of every connected node is accepted '
          'for the service types without a site limit')
    sys.exit(1)
print('property held')
sys.exit(0)
