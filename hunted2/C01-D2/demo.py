#!/usr/bin/env python3
"""
C01-D2: a model reachable through the public topology API cannot be serialized to GraphML at all,
while the JSON node-link serializer accepts it - the two text formats disagree.

NetworkService.gateway = Gateway(None) (a Gateway without labels is explicitly supported by the
Gateway constructor) stores the graph property Gateway = None, because Gateway.to_json() returns
None where every other *.to_json() of the library returns '' for 'nothing set', and because
update_node_properties() - unlike its sibling update_node_property() - does not refuse None.
nx.generate_graphml() then raises on the None value. The same happens for a raw property graph
via update_node_properties(props={'X': None}) / add_node(props={'X': None}).

exit 1 = violation observed, exit 0 = property held
"""
import os
import sys

HERE = os.path.dirname(os.path.abspath(__file__))
FIM_ROOT = os.environ.get('FIM_ROOT', os.path.abspath(os.path.join(HERE, '..', '..')))
sys.path.insert(0, FIM_ROOT)

from fim.user.topology import ExperimentTopology
from fim.user import ComponentModelType
from fim.user.network_service import ServiceType
from fim.slivers.capacities_labels import Capacities
from fim.slivers.gateway import Gateway
from fim.graph.abc_property_graph import GraphFormat
from fim.graph.networkx_property_graph import NetworkXGraphImporter, NetworkXPropertyGraph

bad = False

# ---- 1. through the topology-building API
t = ExperimentTopology()
n1 = t.add_node(name='n1', site='RENC', capacities=Capacities(core=1, ram=2, disk=10))
nic = n1.add_component(name='nic1', model_type=ComponentModelType.SharedNIC_ConnectX_6)
svc = t.add_network_service(name='net1', nstype=ServiceType.FABNetv4, interfaces=[nic.interface_list[0]])
svc.gateway = Gateway(None)
t.validate()
t.graph_model.validate_graph()
print('graph properties of net1:', t.graph_model.get_node_properties(node_id=svc.node_id)[1])
print('svc.gateway reads back as:', repr(svc.gateway))

for fmt in (GraphFormat.JSON_NODELINK, GraphFormat.GRAPHML):
    try:
        text = t.serialize(fmt=fmt)
        t2 = ExperimentTopology()
        t2.load(graph_string=text, new_graph_id='c01-d2-' + fmt.name)
        print(f'topology, {fmt.name}: serialized and re-imported, {len(t2.graph_model.list_all_node_ids())} nodes')
    except Exception as e:
        print(f'topology, {fmt.name}: FAILED with {e!r}')
        bad = True

# ---- 2. raw property graph: the two sibling writers disagree about None
imp = NetworkXGraphImporter()
g = NetworkXPropertyGraph(graph_id='c01-d2-raw', importer=imp)
g.add_node(node_id='x', label='NetworkNode', props={'Name': 'x', 'Type': 'VM'})
try:
    g.update_node_property(node_id='x', prop_name='Details', prop_val=None)
    print('update_node_property(None) accepted')
except AssertionError:
    print('update_node_property(prop_val=None): refused (assert)')
g.update_node_properties(node_id='x', props={'Details': None})
print('update_node_properties(props={"Details": None}): accepted')
g.validate_graph()
for fmt in (GraphFormat.JSON_NODELINK, GraphFormat.GRAPHML):
    try:
        g.serialize_graph(format=fmt)
        print(f'raw graph, {fmt.name}: serialized')
    except Exception as e:
        print(f'raw graph, {fmt.name}: FAILED with {e!r}')
        bad = True

if bad:
    print('VIOLATION: a model held (and validated) by the library cannot be serialized to GraphML')
    sys.exit(1)
print('property held')
sys.exit(0)
