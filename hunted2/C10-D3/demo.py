#!/usr/bin/env python3
"""
C10-D3: a topology in which every node and service meets the constraint table cannot be validated once
two site-limited services peer with each other (NetworkService.peer(), "supported in ASMs").
Topology.validate() replaces every ServicePort of a service by the interface on the other side of its
link, assuming that this is a node interface. For a peering the other side is the ServicePort of the
other (slice-wide) service, which has no owner node: __validate_nstype_constraints prints a message and
then dereferences owner.site -> AttributeError. The very same pair of services validates fine before
peer() is called, and peered services of a type without site limit (L3VPN) validate fine as well.
Exit 1 = violation observed, exit 0 = property held.
"""
import os
import sys
import io
import contextlib

HERE = os.path.dirname(os.path.abspath(__file__))
ROOT = os.environ.get('FIM_ROOT', os.path.dirname(os.path.dirname(HERE)))
sys.path.insert(0, ROOT)

from fim.user.topology import ExperimentTopology
from fim.user import ComponentModelType
from fim.slivers.network_service import ServiceType, NetworkServiceSliver

t = ExperimentTopology()
n1 = t.add_node(name='n1', site='RENC')
n2 = t.add_node(name='n2', site='UKY')
c1 = n1.add_component(name='nic1', model_type=ComponentModelType.SharedNIC_ConnectX_6)
c2 = n2.add_component(name='nic1', model_type=ComponentModelType.SharedNIC_ConnectX_6)


def outcome():
    buf = io.StringIO()
    try:
        with contextlib.redirect_stdout(buf):
            t.validate()
        return 'ACCEPTED'
    except Exception as e:
        return f'FAILED with {type(e).__name__}: {e}'


violated = False
for ty in (ServiceType.L3VPN, ServiceType.FABNetv4, ServiceType.L2Bridge):
    rec = NetworkServiceSliver.ServiceConstraints[ty]
    s1 = t.add_network_service(name='s1', nstype=ty, interfaces=[c1.interface_list[0]])
    s2 = t.add_network_service(name='s2', nstype=ty, interfaces=[c2.interface_list[0]])
    before = outcome()
    s1.peer(s2)
    after = outcome()
    print(f'{str(ty):9} (num_sites={rec.num_sites}, min/max interfaces={rec.min_interfaces}/{rec.num_interfaces}, '
          f'each service: 1 node interface in 1 site)')
    print(f'    before peer(): {before}')
    print(f'    after  peer(): {after}')
    if before == 'ACCEPTED' and after != 'ACCEPTED':
        violated = True
    t.remove_network_service('s1')
    t.remove_network_service('s2')

if violated:
    print('VIOLATION: validate() does not succeed on a topology whose nodes and services all meet the table '
          '(it dies with AttributeError on the peering port)')
    sys.exit(1)
print('property held')
sys.exit(0)
