#!/usr/bin/env python3
"""
C16-D4: the list form of a label is never type checked element by element. The scalar form
must be a str (assert), the documented list form is 'lists of strings', but for the fields
without a regular expression (local_name, local_type, device_name, instance, instance_parent)
a list holding ints, None, dicts or nested lists is accepted, stored, encoded into the model
and decoded again - on every entry point (constructor, update, from_json, model element).
Exit 1 = violation observed, exit 0 = property held.
"""
import os
import sys

HERE = os.path.dirname(os.path.abspath(__file__))
FIM_ROOT = os.environ.get('FIM_ROOT', os.path.dirname(os.path.dirname(HERE)))
sys.path.insert(0, FIM_ROOT)

from fim.slivers.capacities_labels import Labels, LabelException
from fim.user.topology import ExperimentTopology

violations = 0
junk = [1, None, {'a': 2}, ['nested']]

# scalar form: type is enforced
for field in ('local_name', 'device_name', 'instance'):
    try:
        Labels(**{field: 1})
        print(f'Labels({field}=1): accepted (unexpected)')
    except (AssertionError, LabelException, TypeError) as e:
        print(f'Labels({field}=1): scalar non-string rejected ({type(e).__name__})')


def attempt(desc, fn):
    global violations
    try:
        lab = fn()
    except (AssertionError, LabelException, TypeError) as e:
        print(f'[held]     {desc}: rejected ({type(e).__name__})')
        return
    print(f'[VIOLATED] {desc}: accepted, stored {lab.to_json()}')
    violations += 1


for field in ('local_name', 'local_type', 'device_name', 'instance', 'instance_parent'):
    attempt(f'Labels({field}={junk})', lambda: Labels(**{field: junk}))
attempt('Labels.update(Labels(vlan="5"), local_name=[1, 2])',
        lambda: Labels.update(Labels(vlan='5'), local_name=[1, 2]))
attempt("Labels.from_json('{\"device_name\": [1, null, {\"a\": 2}]}')",
        lambda: Labels.from_json('{"device_name": [1, null, {"a": 2}]}'))

topo = ExperimentTopology()
node = topo.add_node(name='n1', site='RENC')
try:
    node.labels = Labels(local_name=junk)
    print('[VIOLATED] node.labels = Labels(local_name=[1, None, {...}, [...]]): model now holds',
          topo.graph_model.get_node_properties(node_id=node.node_id)[1]['Labels'], '-> read back as', node.labels)
    violations += 1
except (AssertionError, LabelException, TypeError) as e:
    print('[held]     model element assignment rejected', type(e).__name__)

sys.exit(1 if violations else 0)
