#!/usr/bin/env python3
"""
C16-D1: Labels / Capacities accept ANY attribute name of the object (methods, class
constants) as a "field": the existence test is self.__getattribute__(k), which succeeds for
to_json, list_fields, update, VALIDATORS, UNITS, ... The value is stored on the instance, is
written out by to_json(), is silently dropped again by from_json(), and shadows the method /
constant so that the object stops working.
Exit 1 = violation observed, exit 0 = property held.
"""
import os
import sys

HERE = os.path.dirname(os.path.abspath(__file__))
FIM_ROOT = os.environ.get('FIM_ROOT', os.path.dirname(os.path.dirname(HERE)))
sys.path.insert(0, FIM_ROOT)

from fim.slivers.capacities_labels import Labels, Capacities, LabelException, CapacityException

violations = []


def attempt(desc, fn, expected_exc):
    try:
        obj = fn()
    except expected_exc as e:
        print(f'[held]     {desc}: rejected with {type(e).__name__}')
        return None
    except Exception as e:
        print(f'[held?]    {desc}: rejected with {type(e).__name__}: {e}')
        return None
    print(f'[VIOLATED] {desc}: accepted, object __dict__ now has the bogus key')
    violations.append(desc)
    return obj


# control: a really unknown name is rejected as documented
attempt("Labels(nosuchfield='x')", lambda: Labels(nosuchfield='x'), LabelException)

# 1. constructor
lab = attempt("Labels(list_fields='x')", lambda: Labels(list_fields='x'), LabelException)
if lab is not None:
    enc = lab.to_json()
    print('           encoded  :', enc)
    dec = Labels.from_json(enc)
    print('           decoded  :', repr(dec.to_json()), '(the stored value does not survive a round trip)')
    try:
        lab.list_fields()
    except TypeError as e:
        print('           lab.list_fields() now fails:', e)

# 2. copy-with-changes
lab2 = attempt("Labels.update(Labels(vlan='100'), VALIDATORS='q')",
               lambda: Labels.update(Labels(vlan='100'), VALIDATORS='q'), LabelException)
if lab2 is not None:
    print('           encoded  :', lab2.to_json())
    try:
        # the instance now carries VALIDATORS='q': every later validated set on it blows up
        lab2._set_fields(vlan='200')
    except Exception as e:
        print('           follow-up set of a legal vlan on that object fails:', type(e).__name__)

# 3. Capacities sibling
cap = attempt("Capacities(UNITS=3)", lambda: Capacities(UNITS=3), CapacityException)
if cap is not None:
    print('           encoded  :', cap.to_json())
    for what, fn in (('str(cap)', lambda: str(cap)), ('cap + Capacities(core=1)', lambda: cap + Capacities(core=1))):
        try:
            fn()
        except Exception as e:
            print(f'           {what} now fails: {type(e).__name__}: {e}')

# 4. through a model element
from fim.user.topology import ExperimentTopology
topo = ExperimentTopology()
node = topo.add_node(name='n1', site='RENC')
try:
    node.update_labels(to_dict='zzz')
    _, props = topo.graph_model.get_node_properties(node_id=node.node_id)
    print("[VIOLATED] node.update_labels(to_dict='zzz'): stored in the model as Labels =", props.get('Labels'))
    violations.append('model element')
except LabelException:
    print("[held]     node.update_labels(to_dict='zzz') rejected")

print()
if violations:
    print(f'{len(violations)} non-field names were accepted and stored as label/capacity fields')
    sys.exit(1)
print('all non-field names rejected')
sys.exit(0)
