#!/usr/bin/env python3
"""
C04: validate_graph() of one graph in the shared in-memory store looks at the nodes and
links of EVERY graph in the store. Importing a (bad) graph under another id therefore makes
validate_graph() of an untouched, valid graph fail - and the error names the valid graph.
The one-graph-per-id (disjoint) store does not behave like that.
Exit 1 when the violation manifests, 0 otherwise.
"""
import os
import sys

HERE = os.path.dirname(os.path.abspath(__file__))
ROOT = os.environ.get('FIM_ROOT', os.path.dirname(os.path.dirname(HERE)))
sys.path.insert(0, ROOT)

from fim.graph.networkx_property_graph import NetworkXPropertyGraph, NetworkXGraphImporter
from fim.graph.networkx_property_graph_disjoint import NetworkXPropertyGraphDisjoint, \
    NetworkXGraphImporterDisjoint

# graph X: the first node has no Class property, the link has no Class property either.
# add_graph() only insists on NodeID, so the import is accepted.
BAD_GRAPHML = """<?xml version='1.0' encoding='utf-8'?>
<graphml xmlns="http://graphml.graphdrawing.org/xmlns">
  <key id="d0" for="node" attr.name="NodeID" attr.type="string"/>
  <key id="d1" for="node" attr.name="Class" attr.type="string"/>
  <key id="d2" for="node" attr.name="Name" attr.type="string"/>
  <graph edgedefault="undirected">
    <node id="n0"><data key="d0">x-1</data><data key="d2">no class here</data></node>
    <node id="n1"><data key="d0">x-2</data><data key="d1">NetworkNode</data><data key="d2">ok</data></node>
    <edge source="n0" target="n1"/>
  </graph>
</graphml>
"""


def scenario(importer, graph_class, flavour):
    importer.delete_all_graphs()
    y = graph_class(graph_id='Y', importer=importer)
    y.add_node(node_id='y-1', label='NetworkNode', props={'Name': 'one'})
    y.add_node(node_id='y-2', label='Component', props={'Name': 'two'})
    y.add_link(node_a='y-1', rel='has', node_b='y-2')
    content_before = sorted((nid, sorted(y.get_node_properties(node_id=nid)[1].items()))
                            for nid in y.list_all_node_ids())

    y.validate_graph()
    print(f'[{flavour}] validate_graph() of Y alone: passes')

    # an operation addressed to graph X only
    importer.import_graph_from_string(graph_string=BAD_GRAPHML, graph_id='X')
    print(f'[{flavour}] imported a graph with a Class-less node and link under id X')

    content_after = sorted((nid, sorted(y.get_node_properties(node_id=nid)[1].items()))
                           for nid in y.list_all_node_ids())
    print(f'[{flavour}] stored content of Y unchanged: {content_before == content_after}')

    try:
        y.validate_graph()
        print(f'[{flavour}] validate_graph() of Y after the import into X: passes')
        failed = False
    except Exception as e:
        print(f'[{flavour}] validate_graph() of Y after the import into X: RAISES '
              f'{type(e).__name__}: {e}')
        failed = True

    # and it is reversible by deleting X, which shows Y itself was never the problem
    importer.delete_graph(graph_id='X')
    try:
        y.validate_graph()
        print(f'[{flavour}] validate_graph() of Y after deleting X: passes')
    except Exception as e:
        print(f'[{flavour}] validate_graph() of Y after deleting X: RAISES {e}')
    importer.delete_all_graphs()
    return failed


shared_failed = scenario(NetworkXGraphImporter(), NetworkXPropertyGraph, 'shared store')
disjoint_failed = scenario(NetworkXGraphImporterDisjoint(), NetworkXPropertyGraphDisjoint, 'disjoint store')

if shared_failed or disjoint_failed:
    print('VIOLATION: an import addressed to graph X changed what validate_graph() reports for graph Y')
    sys.exit(1)
print('property held')
sys.exit(0)
