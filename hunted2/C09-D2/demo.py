#!/usr/bin/env python3
"""
C09-D2: NetworkService.copy_to_peer_labels() writes PeerLabels port by port and raises in the
middle when it meets a port whose peer carries no Labels - which is exactly what
NetworkService.peer() creates on the other service.  The ports handled before the bad one keep
their new PeerLabels: the call failed, the model changed.

exit 1 = violation observed (model changed by a call that raised), exit 0 = property held.
"""
import os
import sys

HERE = os.path.dirname(os.path.abspath(__file__))
FIM_ROOT = os.environ.get('FIM_ROOT', os.path.abspath(os.path.join(HERE, '..', '..')))
sys.path.insert(0, FIM_ROOT)

from fim.user.topology import ExperimentTopology
from fim.user import ComponentType, ServiceType
from fim.slivers.capacities_labels import Labels


def snapshot(topo):
    gid = topo.graph_model.graph_id
    g = topo.graph_model.storage.get_graph(gid)
    mine = {n: d for n, d in g.nodes(data=True) if d.get('GraphID') == gid}
    nodes = sorted((str(d.get('NodeID')), sorted((k, str(v)) for k, v in d.items())) for d in mine.values())
    edges = sorted((sorted([str(mine[a]['NodeID']), str(mine[b]['NodeID'])]), sorted((k, str(v)) for k, v in d.items()))
                   for a, b, d in g.edges(data=True) if a in mine and b in mine)
    return nodes, edges


t = ExperimentTopology()
n1 = t.add_node(name='n1', site='RENC')
nic = n1.add_component(name='nic1', ctype=ComponentType.SmartNIC, model='ConnectX-6')
p1 = nic.interface_list[0]
p1.labels = Labels(vlan='100', ipv4='10.0.0.1')

# an L3VPN service with one node port, peered with a second L3VPN service (the documented use
# of copy_to_peer_labels); peer() gives the port on the other side no labels
l3a = t.add_network_service(name='l3a', nstype=ServiceType.L3VPN, interfaces=[p1])
l3b = t.add_network_service(name='l3b', nstype=ServiceType.L3VPN)
l3a.peer(l3b)
print('ports of l3a and the labels of their peers:')
for sp in l3a.interface_list:
    print(f'   {sp.name}: peer {sp.get_peers()[0].name} labels={sp.get_peers()[0].labels}  PeerLabels={sp.peer_labels}')

before = snapshot(t)
try:
    l3a.copy_to_peer_labels()
    print('copy_to_peer_labels() did not raise')
    sys.exit(0)
except BaseException as e:
    print(f'copy_to_peer_labels() raised {type(e).__name__}: {e}')
after = snapshot(t)

if after != before:
    b = {n[0]: dict(n[1]) for n in before[0]}
    a = {n[0]: dict(n[1]) for n in after[0]}
    print('VIOLATION: the model changed although the call raised:')
    for k in a:
        if a[k] != b.get(k):
            for p in sorted(set(a[k]) | set(b[k])):
                if a[k].get(p) != b[k].get(p):
                    print(f'   {a[k].get("Class")} {a[k].get("Name")}: {p}: {b[k].get(p)!r} -> {a[k].get(p)!r}')
    sys.exit(1)
print('model unchanged: property held')
sys.exit(0)
