#!/usr/bin/env python3
"""
C12-D3: Delegations.from_json rejects details on a pool reference only when the entry has no "pool_id" key.
An entry that carries the reference key "pool" AND details (AND a "pool_id") is accepted: it is decoded as a
PoolDefinition, the reference to the other pool is silently dropped, and re-encoding produces different text.
Exit 1 when the violation shows, 0 otherwise.
"""
import os
import sys
import json

ROOT = os.environ.get('FIM_ROOT') or os.path.abspath(
    os.path.join(os.path.dirname(os.path.abspath(__file__)), '..', '..'))
sys.path.insert(0, ROOT)

from fim.slivers.delegations import Delegations, DelegationType, DelegationException

violations = []


def attempt(title, text, atype):
    try:
        ds = Delegations.from_json(json_str=text, atype=atype)
    except DelegationException as e:
        print(f'{title}: rejected ({e})')
        return None
    d = ds.get_delegations_as_list()[0]
    print(f'{title}: ACCEPTED as {d.get_format().name} of pool {d.get_pool_name()!r} '
          f'with details {d.get_details()}')
    print('   input     :', text)
    print('   re-encoded:', ds.to_json())
    return ds


# control: a plain reference with details is rejected
ctrl = attempt('reference with details',
               json.dumps({'del1': {'pool': 'poolA', 'capacities': {'core': 4}}}), DelegationType.CAPACITY)
assert ctrl is None

# the same reference with details, plus a pool_id key: accepted, reference to poolA dropped
r1 = attempt('reference with details and a pool_id key',
             json.dumps({'del1': {'pool': 'poolA', 'capacities': {'core': 4}, 'pool_id': 'poolB'}}),
             DelegationType.CAPACITY)
if r1 is not None:
    violations.append('reference + details + pool_id accepted (capacity)')

# same for labels, with the single-pool marker
r2 = attempt('reference with details and the single-pool marker',
             json.dumps({'del1': {'pool': 'poolA', 'labels': {'vlan': '100'}, 'pool_id': '_'}}),
             DelegationType.LABEL)
if r2 is not None:
    violations.append('reference + details + single-pool marker accepted (label)')

if violations:
    print('VIOLATION: details on an entry that references a pool are not always rejected:', violations)
    sys.exit(1)
print('property held')
sys.exit(0)
