#!/usr/bin/env python3
"""
C12-D2: a family of pools cannot be turned into per-node delegations when two pools that belong to the SAME
delegation id touch the same node (both defined on it, both referenced from it, or one defined on a node the
other is referenced from). Pools.generate_delegations_by_node_id() builds one Delegations container per node,
keyed by delegation id, so the second pool's definition/reference collides with the first and the whole
conversion dies with DelegationException 'already present' - although every pool is valid, pools.validate_pools()
and build_index_by_delegation_id() pass, and the family is an ordinary one (e.g. a vlan pool and an ipv4 pool
of the same broker delegation that both apply to the same interface).
Exit 1 when the violation shows, 0 otherwise.
"""
import os
import sys

ROOT = os.environ.get('FIM_ROOT') or os.path.abspath(
    os.path.join(os.path.dirname(os.path.abspath(__file__)), '..', '..'))
sys.path.insert(0, ROOT)

from fim.slivers.delegations import Pools, Pool, Delegations, DelegationType
from fim.slivers.capacities_labels import Labels, Capacities


def describe(pools: Pools):
    return {pid: (p.get_delegation_id(), p.get_defined_on(), sorted(p.get_defined_for()),
                  p.get_pool_details().to_json())
            for pid, p in sorted(pools.pool_by_id.items())}


def round_trip(pools: Pools, atype):
    pools.validate_pools()
    pools.build_index_by_delegation_id()
    per_node = pools.generate_delegations_by_node_id()
    back = Pools(atype=atype)
    for node_id, ds in per_node.items():
        # through the text form, as when written to and read from a model
        back.incorporate_delegation(node_id=node_id,
                                    deleg=Delegations.from_json(json_str=ds.to_json(), atype=atype))
    return back


def family(atype, specs):
    ps = Pools(atype=atype)
    for pool_id, deleg, on, for_, details in specs:
        p = Pool(atype=atype, pool_id=pool_id, delegation_id=deleg, defined_on=on, defined_for=for_)
        p.set_pool_details(details)
        ps.add_pool(pool=p)
    return ps


cases = {
    # control: same shape, but different delegation ids -> works
    'control (two delegation ids, shared reference node)':
        (DelegationType.LABEL, [('vlans', 'del1', 'sw-ns', ['port1', 'port2'], Labels(vlan_range='100-200')),
                                ('ipv4s', 'del2', 'sw-ns', ['port1'], Labels(ipv4_range='10.0.0.1-10.0.0.9'))]),
    'two pools of one delegation referenced from the same node':
        (DelegationType.LABEL, [('vlans', 'primary', 'sw-ns-a', ['port1', 'port2'], Labels(vlan_range='100-200')),
                                ('ipv4s', 'primary', 'sw-ns-b', ['port1'], Labels(ipv4_range='10.0.0.1-10.0.0.9'))]),
    'two pools of one delegation defined on the same node':
        (DelegationType.CAPACITY, [('cores', 'primary', 'worker1', ['nic1'], Capacities(core=32)),
                                   ('disks', 'primary', 'worker1', ['nvme1'], Capacities(disk=1000))]),
}

failed = []
for title, (atype, specs) in cases.items():
    ps = family(atype, specs)
    before = describe(ps)
    try:
        after = describe(round_trip(ps, atype))
        same = after == before
        print(f'{title}: round trip {"ok" if same else "DIFFERS"}')
        if not same:
            print('   before', before)
            print('   after ', after)
            failed.append(title)
    except Exception as e:
        print(f'{title}: {type(e).__name__}: {e}')
        if not title.startswith('control'):
            failed.append(title)
        else:
            raise

if failed:
    print('VIOLATION: valid pool families cannot be converted to per-node delegations and back:', failed)
    sys.exit(1)
print('property held')
sys.exit(0)
