#!/usr/bin/env python3
"""
C14: merging depends on the order when one delegation model contributes nothing but elements
that are already in the combined model (e.g. a small model made only of stitch nodes).
merge_adm() merges the common nodes one by one out of its temporary clone; when every node was
common the clone has ceased to exist, and the closing "re-home the remaining nodes" step
(update_nodes_property on the clone) raises "Unable to find graph nodes" on the in-memory store.
The same two models merge silently in the other order.
Exit 1 when the violation manifests, 0 otherwise.
"""
import json
import logging
import os
import sys

HERE = os.path.dirname(os.path.abspath(__file__))
ROOT = os.environ.get('FIM_ROOT', os.path.dirname(os.path.dirname(HERE)))
sys.path.insert(0, ROOT)

from fim.graph.networkx_property_graph import NetworkXPropertyGraph, NetworkXGraphImporter
from fim.graph.resources.networkx_adm import NetworkXADMGraph
from fim.graph.resources.abc_cbm import ABCCBMPropertyGraph
import fim.graph.resources.neo4j_cbm as neo4j_cbm

# The library has no NetworkX flavour of the combined model. As the property says, the merge
# code (written against the abstract graph interface) is run on the in-memory shared store:
# the unchanged functions of Neo4jCBMGraph / ABCCBMPropertyGraph on top of NetworkXPropertyGraph.
# The only adaptation is the "crude typecasting" of the temporary clone inside merge_adm,
# which has to produce the NetworkX ADM class instead of the Neo4j one.
neo4j_cbm.Neo4jADMGraph = NetworkXADMGraph


class NetworkXCBMGraph(NetworkXPropertyGraph, ABCCBMPropertyGraph):
    _update_node_delegations = neo4j_cbm.Neo4jCBMGraph._update_node_delegations
    merge_adm = neo4j_cbm.Neo4jCBMGraph.merge_adm
    unmerge_adm = neo4j_cbm.Neo4jCBMGraph.unmerge_adm
    get_delegations = neo4j_cbm.Neo4jCBMGraph.get_delegations
    # snapshot() / rollback() are inherited from ABCCBMPropertyGraph

    def get_bqm(self, **kwargs):
        raise NotImplementedError

    def get_matching_nodes_with_components(self, **kwargs):
        raise NotImplementedError

    def get_intersite_links(self):
        raise NotImplementedError

    def get_sites(self):
        raise NotImplementedError

    def get_disconnected_sites(self):
        raise NotImplementedError

    def get_connected_sites(self):
        raise NotImplementedError

    def get_facility_ports(self):
        raise NotImplementedError


LOG = logging.getLogger('demo')
LOG.addHandler(logging.NullHandler())
LOG.propagate = False
IMPORTER = NetworkXGraphImporter()


def make_adm(graph_id, nodes, links):
    """build a delegation model with ordinary add_node / add_link calls"""
    adm = NetworkXADMGraph(graph_id=graph_id, importer=IMPORTER, logger=LOG)
    for node_id, (label, props) in nodes.items():
        adm.add_node(node_id=node_id, label=label, props=dict(props))
    for a, rel, b in links:
        adm.add_link(node_a=a, rel=rel, node_b=b)
    return adm


def cap_delegation(delegation_id, **caps):
    return json.dumps({delegation_id: {"pool_id": "_", "capacities": caps}})


def label_delegation(delegation_id, **labels):
    return json.dumps({delegation_id: {"pool_id": "_", "labels": labels}})


def canonical(graph):
    """canonical snapshot of a graph: nodes by NodeID with their properties (adm_graph_ids as a
    sorted list), links as (NodeID, NodeID, properties); a link leaving the graph is marked"""
    store = graph.storage.get_graph(graph.graph_id)
    nodes = dict()
    for _, d in store.nodes(data=True):
        if d.get('GraphID') != graph.graph_id:
            continue
        props = {k: v for k, v in d.items() if k != 'GraphID'}
        if props.get('StructuralInfo'):
            si = json.loads(props['StructuralInfo'])
            if isinstance(si.get('adm_graph_ids'), list):
                si['adm_graph_ids'] = sorted(si['adm_graph_ids'])
            props['StructuralInfo'] = json.dumps(si, sort_keys=True)
        nodes.setdefault(d['NodeID'], []).append(props)
    links = set()
    for u, v, d in store.edges(data=True):
        du, dv = store.nodes[u], store.nodes[v]
        if graph.graph_id not in (du.get('GraphID'), dv.get('GraphID')):
            continue
        ends = sorted(('' if x.get('GraphID') == graph.graph_id else f'<in graph {x.get("GraphID")}>') +
                      str(x.get('NodeID')) for x in (du, dv))
        links.add((ends[0], ends[1], json.dumps(d, sort_keys=True)))
    return nodes, links


def stored_graph_ids():
    store = IMPORTER.storage.get_graph('any')
    return sorted(set(str(d.get('GraphID')) for _, d in store.nodes(data=True)))


def build():
    IMPORTER.delete_all_graphs()
    a = make_adm('ADM-A',
                 {'a-node': ('NetworkNode', {'Name': 'a-node', 'CapacityDelegations': cap_delegation('primary', core=4)}),
                  'stitch-1': ('ConnectionPoint', {'Name': 'stitch-1', 'StitchNode': 'true'}),
                  'stitch-2': ('ConnectionPoint', {'Name': 'stitch-2', 'StitchNode': 'true'})},
                 [('a-node', 'connects', 'stitch-1'), ('a-node', 'connects', 'stitch-2')])
    # B speaks for stitch-2 and otherwise only has the shared stitch nodes
    b = make_adm('ADM-B',
                 {'stitch-1': ('ConnectionPoint', {'Name': 'stitch-1', 'StitchNode': 'true'}),
                  'stitch-2': ('ConnectionPoint', {'Name': 'stitch-2', 'StitchNode': 'true',
                                                   'LabelDelegations': label_delegation('primary', vlan_range='100-200')})},
                 [])
    cbm = NetworkXCBMGraph(graph_id='CBM', importer=IMPORTER, logger=LOG)
    return {'ADM-A': a, 'ADM-B': b}, cbm


outcomes = dict()
for order in (('ADM-B', 'ADM-A'), ('ADM-A', 'ADM-B')):
    adms, cbm = build()
    outcome = 'ok'
    for name in order:
        try:
            cbm.merge_adm(adm=adms[name])
        except Exception as e:
            outcome = f'merge_adm({name}) RAISED {type(e).__name__}: {e}'
            break
    outcomes[order] = (outcome, canonical(cbm))
    print(f'order {order}: {outcome}')
    for node_id, props in sorted(canonical(cbm)[0].items()):
        print(f'     {node_id}: {props[0].get("StructuralInfo")} {props[0].get("LabelDelegations", "")}')
IMPORTER.delete_all_graphs()

(o1, c1), (o2, c2) = outcomes.values()
print(f'combined model content equal in both orders: {c1 == c2}')
if o1 != o2 or c1 != c2:
    print('VIOLATION: the outcome of merging the same two models depends on the merge order')
    sys.exit(1)
print('property held')
sys.exit(0)
