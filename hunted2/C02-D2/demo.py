#!/usr/bin/env python3
"""
C02-D2: a sliver with nested sub-interfaces written into a model graph (add_network_service_sliver /
add_interface_sliver, which recurse into interface_info for ANY interface type and ANY depth) does not come
back with the same structure from build_deep_ns_sliver / build_deep_interface_sliver: the reader attaches
children only to DedicatedPort interfaces and only one level deep. The deep-dictionary / JSON path keeps them all.
Exit 1 when the violation shows, 0 otherwise.
"""
import os
import sys
import uuid

ROOT = os.environ.get('FIM_ROOT') or os.path.abspath(
    os.path.join(os.path.dirname(os.path.abspath(__file__)), '..', '..'))
sys.path.insert(0, ROOT)

from fim.graph.networkx_property_graph import NetworkXGraphImporter
from fim.graph.slices.networkx_asm import NetworkxASM
from fim.graph.abc_property_graph import ABCPropertyGraph
from fim.slivers.network_service import NetworkServiceSliver, ServiceType
from fim.slivers.interface_info import InterfaceSliver, InterfaceInfo, InterfaceType
from fim.slivers.capacities_labels import Labels


def mkif(name, itype, *children, **props):
    i = InterfaceSliver()
    i.node_id = str(uuid.uuid4())
    i.set_name(name)
    i.set_type(itype)
    i.set_properties(**props)
    if children:
        i.interface_info = InterfaceInfo()
        for ch in children:
            i.interface_info.add_interface(ch)
    return i


def shape(sl):
    """name -> nested shape of the interface tree under a sliver"""
    ii = getattr(sl, 'interface_info', None)
    if ii is None:
        return {}
    return {name: shape(child) for name, child in sorted(ii.interfaces.items())}


# service -> DedicatedPort p1 -> p1.1 -> p1.1.1   (two levels of sub-interfaces)
#         -> FacilityPort fp  -> fp.1             (sub-interface under a non-DedicatedPort)
ns = NetworkServiceSliver()
ns.node_id = str(uuid.uuid4())
ns.set_name('ns1')
ns.set_type(ServiceType.OVS)
ns.interface_info = InterfaceInfo()
ns.interface_info.add_interface(
    mkif('p1', InterfaceType.DedicatedPort,
         mkif('p1.1', InterfaceType.SubInterface,
              mkif('p1.1.1', InterfaceType.SubInterface, labels=Labels(vlan='8')),
              labels=Labels(vlan='7')),
         labels=Labels(local_name='p1')))
ns.interface_info.add_interface(
    mkif('fp', InterfaceType.FacilityPort,
         mkif('fp.1', InterfaceType.SubInterface, labels=Labels(vlan='9'))))

original = shape(ns)

# graph path
g = NetworkxASM(graph_id=str(uuid.uuid4()), importer=NetworkXGraphImporter())
g.add_network_service_sliver(parent_node_id=None, network_service=ns)
n_cps = len(g.get_all_nodes_by_class(label=ABCPropertyGraph.CLASS_ConnectionPoint))
from_graph = shape(g.build_deep_ns_sliver(node_id=ns.node_id))

# deep dictionary path (control)
from_dict = shape(ABCPropertyGraph.build_deep_ns_sliver_from_dict(props=ABCPropertyGraph.sliver_to_dict(ns)))

print('original sliver     :', original)
print('ConnectionPoints written to the graph:', n_cps, '(all 5 interfaces were written)')
print('rebuilt from graph  :', from_graph)
print('rebuilt from dict   :', from_dict)

if from_graph != original:
    print('VIOLATION: the sliver rebuilt from the model graph lost nested sub-interfaces '
          '(written by add_interface_sliver, never read by build_deep_interface_sliver)')
    sys.exit(1)
print('property held')
sys.exit(0)
