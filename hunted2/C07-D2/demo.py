#!/usr/bin/env python
"""
C07-D2: network-service names are meant to be unique in the graph (the guard in
add_network_service_sliver searches ALL NetworkService nodes, and component_catalog says
"network service names are supposed to be unique within a graph"), but the guard only runs when the
new service has no parent. So the same pair of calls is refused in one order and accepted in the other:
   add_switch('s1') ; add_network_service('s1-ns')   -> refused (name in use)
   add_network_service('s1-ns') ; add_switch('s1')   -> accepted, two services named 's1-ns'
The same hole lets two components get one service name: node 'web'+component 'db-nic' and
node 'web-db'+component 'nic' both own 'web-db-nic-l2ovs'.
Afterwards topology.network_services lists fewer services than the model has and
remove_network_service('s1-ns') fails with 'multiple nodes with name'.
Exit 1 = violation observed.
"""
import os
import sys
from collections import Counter

HERE = os.path.dirname(os.path.abspath(__file__))
ROOT = os.environ.get('FIM_ROOT', os.path.dirname(os.path.dirname(HERE)))
sys.path.insert(0, ROOT)

from fim.user.topology import ExperimentTopology
from fim.user import ComponentType, ServiceType


def ns_names(t):
    g = t.graph_model.storage.extract_graph(t.graph_model.graph_id)
    return [d['Name'] for _, d in g.nodes(data=True) if d['Class'] == 'NetworkService']


violations = []

# order 1: refused
t1 = ExperimentTopology()
t1.add_switch(name='s1', site='RENC', nports=1)
try:
    t1.add_network_service(name='s1-ns', nstype=ServiceType.L2Bridge)
    order1 = 'accepted'
except Exception as e:
    order1 = f'refused ({type(e).__name__}: {e})'
print("add_switch('s1') then add_network_service('s1-ns'):", order1)

# order 2: accepted
t2 = ExperimentTopology()
t2.add_network_service(name='s1-ns', nstype=ServiceType.L2Bridge)
try:
    t2.add_switch(name='s1', site='RENC', nports=1)
    order2 = 'accepted'
except Exception as e:
    order2 = f'refused ({type(e).__name__}: {e})'
print("add_network_service('s1-ns') then add_switch('s1'):", order2)
names = ns_names(t2)
print('  services in the model        :', names)
print('  view topology.network_services:', list(t2.network_services.keys()))
if order1.startswith('refused') and order2 == 'accepted':
    violations.append('the same two services are refused in one order and accepted in the other')
dups = [k for k, v in Counter(names).items() if v > 1]
if dups:
    violations.append(f'two NetworkServices named {dups} in one graph (names not unique in their scope)')
if len(t2.network_services) != len(names):
    violations.append(f'topology.network_services lists {len(t2.network_services)} of {len(names)} services')
try:
    t2.remove_network_service('s1-ns')
except Exception as e:
    print('  remove_network_service(\'s1-ns\') ->', type(e).__name__, e)

# the same hole with generated component service names
t3 = ExperimentTopology()
a = t3.add_node(name='web', site='RENC')
b = t3.add_node(name='web-db', site='RENC')
a.add_component(name='db-nic', ctype=ComponentType.SharedNIC, model='ConnectX-6')
b.add_component(name='nic', ctype=ComponentType.SharedNIC, model='ConnectX-6')
names3 = ns_names(t3)
print("node 'web'/component 'db-nic' and node 'web-db'/component 'nic':")
print('  services in the model        :', names3)
print('  view topology.network_services:', list(t3.network_services.keys()))
dups3 = [k for k, v in Counter(names3).items() if v > 1]
if dups3:
    violations.append(f'two component services named {dups3} in one graph')
if len(t3.network_services) != len(names3):
    violations.append(f'topology.network_services lists {len(t3.network_services)} of {len(names3)} services')

for v in violations:
    print('VIOLATION:', v)
sys.exit(1 if violations else 0)
