#!/usr/bin/env python3
"""
C15-D1: the result of a subtraction with a negative field can be printed and encoded
(to_json / to_dict / str / repr all work) but it cannot be decoded again:
Capacities.from_json(neg.to_json()) dies with a bare AssertionError, because from_json goes
through _set_fields, which asserts v >= 0 for every value. Capacities travel through graphs
as JSON strings (Capacities / CapacityAllocations properties), so an over-allocation computed
with total - allocated is representable in memory only; writing it and reading it back is an
error instead of a value whose negative_fields() names the exhausted resources.
Exit 1 = violation observed, exit 0 = property held.
"""
import os
import sys

HERE = os.path.dirname(os.path.abspath(__file__))
FIM_ROOT = os.environ.get('FIM_ROOT', os.path.abspath(os.path.join(HERE, '..', '..')))
sys.path.insert(0, FIM_ROOT)
sys.dont_write_bytecode = True

from fim.slivers.capacities_labels import Capacities


def main():
    total = Capacities(core=4, ram=16, disk=100)
    allocated = Capacities(core=6, ram=8, disk=100)
    free = total - allocated
    print('free = total - allocated :', str(free))
    print('negative_fields()        :', free.negative_fields())
    js = free.to_json()
    print('to_json()                :', js)

    # non-negative values make the round trip ...
    ok = Capacities.from_json(total.to_json())
    print('round trip of total      :', ok.to_json(), '(equal: %s)' % (ok == total))

    # ... the negative result does not
    try:
        back = Capacities.from_json(js)
    except BaseException as e:
        print(f'from_json(to_json(free)) : raises {type(e).__name__}({e})')
        print('VIOLATION: a result with a negative field can be written as JSON but reading it back is an error')
        return 1
    print('from_json(to_json(free)) :', back.to_json())
    if back == free and free == back and back.negative_fields() == free.negative_fields():
        print('property held')
        return 0
    print('VIOLATION: round trip changed the value')
    return 1


if __name__ == '__main__':
    sys.exit(main())
