#!/usr/bin/env python3
"""
C03-D4: a legacy capacity tuple does not decode to an equal value. The module states that values are
'integers for capacities'; Capacity(atype='cpu', aval=4) is encoded as 'cpu:4', but decoding that text
(either decoder) gives the string '4', which is not equal to 4 - arithmetic or comparison on the
decoded capacity behaves differently from the original.
"""
import os
import sys

HERE = os.path.dirname(os.path.abspath(__file__))
ROOT = os.environ.get('FIM_ROOT', os.path.dirname(os.path.dirname(HERE)))
sys.path.insert(0, ROOT)

from fim.graph.typed_tuples import Capacity  # noqa: E402

violations = []
for value in [4, 0, 128]:
    original = Capacity(atype='cpu', aval=value)
    text = original.get_as_string()
    decoded = Capacity(fromstring=text)
    other = Capacity(atype='cpu', aval=1)
    other.parse_from_string(text)
    print(f'value={value!r} encoded={text!r} decoded={decoded.get_val()!r} ({type(decoded.get_val()).__name__}) '
          f'parse_from_string={other.get_val()!r} ({type(other.get_val()).__name__})')
    if decoded.get_val() != original.get_val():
        violations.append(f'Capacity(fromstring={text!r}).get_val() == {decoded.get_val()!r} != {value!r}')
    if other.get_val() != original.get_val():
        violations.append(f'parse_from_string({text!r}) gives {other.get_val()!r} != {value!r}')

if violations:
    print('VIOLATION:')
    for v in violations:
        print('  ' + v)
    sys.exit(1)
print('property held')
sys.exit(0)
