#!/usr/bin/env python3
"""
C04: add_node() writes the caller's props over the identity it has just stamped on the new
node (GraphID / NodeID / Class). get_node_properties() returns GraphID and NodeID among the
regular properties, so the obvious way of copying a node from graph G1 into graph G2 -
    _, props = g1.get_node_properties(node_id=n); g2.add_node(node_id=n, label=..., props=props)
- is an operation addressed to G2 that (shared store) adds a second node with the same NodeID
to G1 instead, after the uniqueness check was made against G2. G1's node can no longer be
addressed ("Multiple matches found"), G2 received nothing. On the disjoint store the new node
becomes an orphan inside G2's nx.Graph that neither graph can see.
Exit 1 when the violation manifests, 0 otherwise.
"""
import os
import sys

HERE = os.path.dirname(os.path.abspath(__file__))
ROOT = os.environ.get('FIM_ROOT', os.path.dirname(os.path.dirname(HERE)))
sys.path.insert(0, ROOT)

from fim.graph.networkx_property_graph import NetworkXPropertyGraph, NetworkXGraphImporter
from fim.graph.networkx_property_graph_disjoint import NetworkXPropertyGraphDisjoint, \
    NetworkXGraphImporterDisjoint


def content(g):
    """observable content of a graph through its own interface"""
    try:
        ids = g.list_all_node_ids()
    except Exception:
        return []
    return sorted(ids)


def scenario(importer, graph_class, flavour):
    importer.delete_all_graphs()
    g1 = graph_class(graph_id='G1', importer=importer)
    g2 = graph_class(graph_id='G2', importer=importer)
    g1.add_node(node_id='n1', label='NetworkNode', props={'Name': 'worker'})
    g1.add_node(node_id='n2', label='NetworkNode', props={'Name': 'other'})
    g2.add_node(node_id='m1', label='NetworkNode', props={'Name': 'mine'})

    g1_before, g2_before = content(g1), content(g2)
    print(f'[{flavour}] before: G1={g1_before} G2={g2_before}')

    labels, props = g1.get_node_properties(node_id='n1')
    print(f'[{flavour}] get_node_properties(n1) of G1 -> {props}')
    # the operation is addressed to G2
    g2.add_node(node_id='n1', label=labels[0], props=props)

    g1_after, g2_after = content(g1), content(g2)
    print(f'[{flavour}] after g2.add_node(n1, props=<those props>): G1={g1_after} G2={g2_after}')

    bad = False
    if g1_after != g1_before:
        print(f'[{flavour}] G1 was changed by an operation addressed to G2')
        bad = True
    try:
        g1.get_node_properties(node_id='n1')
    except Exception as e:
        print(f'[{flavour}] G1 can no longer address n1: {type(e).__name__}: {e}')
        bad = True
    if 'n1' not in g2_after:
        print(f'[{flavour}] G2 did not receive the node it was asked to add '
              f'(node_exists: {g2.node_exists(node_id="n1", label=labels[0])})')
        bad = True
    # where did the node go?
    store = importer.storage.get_graph('G2')
    print(f'[{flavour}] raw nodes in the nx.Graph behind G2: '
          f'{[(n, d.get("GraphID"), d.get("NodeID")) for n, d in store.nodes(data=True)]}')
    importer.delete_all_graphs()
    return bad


bad_shared = scenario(NetworkXGraphImporter(), NetworkXPropertyGraph, 'shared store')
bad_disjoint = scenario(NetworkXGraphImporterDisjoint(), NetworkXPropertyGraphDisjoint, 'disjoint store')
if bad_shared or bad_disjoint:
    print('VIOLATION: add_node addressed to G2 did not add to G2 and/or altered G1')
    sys.exit(1)
print('property held')
sys.exit(0)
