#!/usr/bin/env python3
"""
C18-D1: ComponentCatalog.generate_component() drops the catalogued port speed for every SharedNIC
model: the catalogue lists SharedNIC ConnectX-6 p1 at 100 (Gbps) and SharedNIC OpenStack-vNIC p1
at 1, but the generated interfaces carry Capacities(unit=N) only (bw == 0). All other models with
interfaces (SmartNIC, FPGA) get bw equal to the catalogued speed.
"""
import json
import os
import sys

HERE = os.path.dirname(os.path.abspath(__file__))
ROOT = os.environ.get('FIM_ROOT', os.path.abspath(os.path.join(HERE, '..', '..')))
sys.path.insert(0, ROOT)

import fim.slivers  # populates the combined type-model enumeration
from fim.slivers.component_catalog import ComponentCatalog
from fim.slivers.attached_components import ComponentType

with open(os.path.join(ROOT, 'fim', 'slivers', 'data', 'component_catalog.json')) as f:
    catalogue = json.load(f)

cata = ComponentCatalog()
mismatches = []
for entry in catalogue:
    ports = entry.get('Interfaces')
    if not ports:
        continue
    cs = cata.generate_component(name='comp1', ctype=ComponentType[entry['Type']], model=entry['Model'])
    ns = list(cs.network_service_info.network_services.values())[0]
    generated = {i.get_labels().local_name: i for i in ns.interface_info.interfaces.values()}
    for port, speed in ports.items():
        isl = generated[port]
        bw = isl.get_capacities().bw
        verdict = 'ok' if bw == int(speed) else 'MISMATCH'
        print(f"{entry['Type']:10} {entry['Model']:24} {port}: catalogued speed {speed:>3}, "
              f"generated capacities {isl.get_capacities()} -> {verdict}")
        if bw != int(speed):
            mismatches.append((entry['Type'], entry['Model'], port, speed, bw))

if mismatches:
    print(f'VIOLATION - {len(mismatches)} generated interface(s) do not carry the catalogued speed:', mismatches)
    sys.exit(1)
sys.exit(0)
