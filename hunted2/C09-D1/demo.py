#!/usr/bin/env python3
"""
C09-D1: a component (or node) whose nested sliver carries a missing (None) node id at position k
is rejected only AFTER its parent and the first k-1 children have been written into the model.

  * Node.add_component(..., interface_node_ids=['nic1-p1', None]) raises AssertionError, yet the
    Component node, its NetworkService node and the first ConnectionPoint stay in the model.
  * Topology.add_node(..., ns_info=<NetworkServiceInfo whose service has no node_id>) raises
    AssertionError, yet the NetworkNode stays in the model.

exit 1 = violation observed (model changed by a call that raised), exit 0 = property held.
"""
import os
import sys

HERE = os.path.dirname(os.path.abspath(__file__))
FIM_ROOT = os.environ.get('FIM_ROOT', os.path.abspath(os.path.join(HERE, '..', '..')))
sys.path.insert(0, FIM_ROOT)

from fim.user.topology import SubstrateTopology, ExperimentTopology
from fim.user import NodeType, ComponentType, ServiceType
from fim.slivers.capacities_labels import Labels
from fim.slivers.network_service import NetworkServiceSliver, NetworkServiceInfo


def snapshot(topo):
    """canonical snapshot of the model: all nodes with all properties + all edges with properties"""
    gid = topo.graph_model.graph_id
    g = topo.graph_model.storage.get_graph(gid)
    mine = {n: d for n, d in g.nodes(data=True) if d.get('GraphID') == gid}
    nodes = sorted((str(d.get('NodeID')), sorted((k, str(v)) for k, v in d.items())) for d in mine.values())
    edges = sorted((sorted([str(mine[a]['NodeID']), str(mine[b]['NodeID'])]), sorted((k, str(v)) for k, v in d.items()))
                   for a, b, d in g.edges(data=True) if a in mine and b in mine)
    return nodes, edges


def describe(before, after):
    b = {n[0]: dict(n[1]) for n in before[0]}
    a = {n[0]: dict(n[1]) for n in after[0]}
    for k in sorted(set(a) - set(b)):
        print(f'      left behind: {a[k].get("Class")} name={a[k].get("Name")} id={k}')
    for e in after[1]:
        if e not in before[1]:
            print(f'      left behind: edge {e[0]} {dict(e[1]).get("Class")}')


violations = 0

# ---- 1. k-th interface id of a component is the bad one ------------------------------------
t = SubstrateTopology()
n1 = t.add_node(name='n1', node_id='n1-id', site='RENC', ntype=NodeType.Server)
before = snapshot(t)
try:
    n1.add_component(name='nic1', node_id='nic1-id', ctype=ComponentType.SmartNIC, model='ConnectX-6',
                     network_service_node_id='nic1-ns-id',
                     interface_node_ids=['nic1-p1-id', None],   # 2nd id is missing
                     interface_labels=[Labels(bdf='0000:41:00.0', mac='00:11:22:33:44:55'),
                                       Labels(bdf='0000:41:00.1', mac='00:11:22:33:44:56')])
    print('1. add_component(interface_node_ids=[id, None]) did not raise')
except BaseException as e:
    after = snapshot(t)
    print(f'1. add_component(interface_node_ids=[id, None]) raised {type(e).__name__}')
    if after != before:
        violations += 1
        print('   VIOLATION: the model changed although the call raised:')
        describe(before, after)
        print(f'   n1.components now lists: {list(t.nodes["n1"].components.keys())}')
    else:
        print('   model unchanged')

# ---- 2. nested network service of a new node has no node id ----------------------------------
e = ExperimentTopology()
ns = NetworkServiceSliver()      # built with the public setters only: there is no set_node_id()
ns.set_name('sw1-ns')
ns.set_type(ServiceType.P4)
nsi = NetworkServiceInfo()
nsi.add_network_service(ns)
before = snapshot(e)
try:
    e.add_node(name='sw1', site='RENC', ntype=NodeType.Switch, ns_info=nsi)
    print('2. add_node(ns_info=<service without node_id>) did not raise')
except BaseException as ex:
    after = snapshot(e)
    print(f'2. add_node(ns_info=<service without node_id>) raised {type(ex).__name__}')
    if after != before:
        violations += 1
        print('   VIOLATION: the model changed although the call raised:')
        describe(before, after)
        print(f'   topology.nodes now lists: {list(e.nodes.keys())}')
    else:
        print('   model unchanged')

if violations:
    print(f'RESULT: {violations} failing call(s) left partial state in the model')
    sys.exit(1)
print('RESULT: property held')
sys.exit(0)
