#!/usr/bin/env python3
"""
C02-D4: image_ref and image_type are two independent settable string properties of a node sliver, but they
are stored joined as '<image_ref>,<image_type>' and split again at the LAST comma. An image_type containing a
comma silently moves part of the type into the reference: both fields come back changed, on the graph path,
the deep-dictionary/JSON path and through Node.set_properties/get_property.
Exit 1 when the violation shows, 0 otherwise.
"""
import os
import sys
import uuid

ROOT = os.environ.get('FIM_ROOT') or os.path.abspath(
    os.path.join(os.path.dirname(os.path.abspath(__file__)), '..', '..'))
sys.path.insert(0, ROOT)

from fim.graph.networkx_property_graph import NetworkXGraphImporter
from fim.graph.slices.networkx_asm import NetworkxASM
from fim.slivers.network_node import NodeSliver, NodeType
from fim.slivers.json import JSONSliver
from fim.user.topology import ExperimentTopology

REF, TYPE = 'default_rocky_8', 'qcow2,compressed'

s = NodeSliver()
s.node_id = str(uuid.uuid4())
s.set_name('node1')
s.set_type(NodeType.VM)
s.set_site('RENC')
s.set_image_ref(REF)      # no setter restricts the characters of either field
s.set_image_type(TYPE)

g = NetworkxASM(graph_id=str(uuid.uuid4()), importer=NetworkXGraphImporter())
g.add_network_node_sliver(sliver=s)
b1 = g.build_deep_node_sliver(node_id=s.node_id)
b2 = JSONSliver.node_sliver_from_json(JSONSliver.sliver_to_json(s))

t = ExperimentTopology()
n = t.add_node(name='n1', site='RENC')
n.set_properties(image_ref=REF, image_type=TYPE)
b3 = (n.get_property('image_ref'), n.get_property('image_type'))

print('set                 :', (REF, TYPE))
print('rebuilt from graph  :', (b1.get_image_ref(), b1.get_image_type()))
print('rebuilt from JSON   :', (b2.get_image_ref(), b2.get_image_type()))
print('Node.get_property   :', b3)

ok = (b1.get_image_ref(), b1.get_image_type()) == (REF, TYPE) and \
     (b2.get_image_ref(), b2.get_image_type()) == (REF, TYPE) and b3 == (REF, TYPE)
if not ok:
    print('VIOLATION: image_ref / image_type do not come back with the values that were set')
    sys.exit(1)
print('property held')
sys.exit(0)
