#!/usr/bin/env python3
"""
C08-D3: ExperimentTopology.prune() removes network services and interfaces with the raw graph
primitives (_prune_ns -> remove_ns_with_cps_and_links, _prune_interface -> remove_cp_and_links)
without disconnecting them first. Unlike remove_node / remove_component /
Node.remove_network_service / Topology.remove_network_service (which remove the service-side
port), prune leaves the ServicePort that was created for the removed interface in the peer
service: a port with no link and no peer.
"""
import os
import sys

HERE = os.path.dirname(os.path.abspath(__file__))
ROOT = os.environ.get('FIM_ROOT', os.path.abspath(os.path.join(HERE, '..', '..')))
sys.path.insert(0, ROOT)

from fim.user.topology import ExperimentTopology
from fim.user import ComponentModelType, ServiceType, ReservationInfo

failed = ReservationInfo()
failed.reservation_state = 'Failed'


def dangling_service_ports(t):
    """ ServicePorts of the model that are not attached to any link """
    ret = []
    for ns in t.network_services.values():
        for i in ns.interface_list:
            if str(i.type) == 'ServicePort' and not i.get_peers():
                ret.append(f'{ns.name}/{i.name}')
    return sorted(ret)


def names(t):
    g = t.graph_model.storage.get_graph(t.graph_model.graph_id)
    return sorted(f"{d['Class']}:{d.get('Name')}" for _, d in g.nodes(data=True)
                  if d.get('GraphID') == t.graph_model.graph_id)


def build():
    t = ExperimentTopology()
    n1 = t.add_node(name='n1', site='RENC')
    n2 = t.add_node(name='n2', site='RENC')
    nic1 = n1.add_component(name='nic1', model_type=ComponentModelType.SmartNIC_ConnectX_6)
    nic2 = n2.add_component(name='nic1', model_type=ComponentModelType.SmartNIC_ConnectX_6)
    s1 = t.add_network_service(name='s1', nstype=ServiceType.L2Bridge,
                               interfaces=[nic1.interfaces['nic1-p1'], nic2.interfaces['nic1-p1']])
    return t, n1, nic1


violations = 0

# reference: the regular removal of the component takes the service-side port with it
t, n1, nic1 = build()
n1.remove_component('nic1')
ref = names(t)
print('reference  n1.remove_component(nic1): dangling ports =', dangling_service_ports(t))

# A: the interface is in state Failed
t, n1, nic1 = build()
nic1.interfaces['nic1-p1'].reservation_info = failed
t.prune(reservation_state='Failed')
d = dangling_service_ports(t)
print('A prune(failed interface nic1-p1):    dangling ports =', d)
if d:
    violations += 1

# B: the network service of the component is in state Failed
t, n1, nic1 = build()
list(nic1.network_services.values())[0].reservation_info = failed
t.prune(reservation_state='Failed')
d = dangling_service_ports(t)
print('B prune(failed service n1-nic1-l2ovs): dangling ports =', d)
if d:
    violations += 1

# C: a service that peers with other services is in state Failed;
#    Topology.remove_network_service() is the reference
def build_peered():
    t = ExperimentTopology()
    sa = t.add_network_service(name='sa', nstype=ServiceType.L3VPN)
    sb = t.add_network_service(name='sb', nstype=ServiceType.L3VPN)
    sa.peer(sb)
    return t, sa, sb


t, sa, sb = build_peered()
t.remove_network_service('sa')
print('reference  remove_network_service(sa): left =', names(t), 'dangling =', dangling_service_ports(t))
t, sa, sb = build_peered()
sa.reservation_info = failed
t.prune(reservation_state='Failed')
d = dangling_service_ports(t)
print('C prune(failed peered service sa):     left =', names(t), 'dangling =', d)
if d:
    violations += 1

if violations:
    print(f'VIOLATION - in {violations} of 3 cases prune() left the service-side port that was created '
          f'for the removed element')
    sys.exit(1)
sys.exit(0)
