#!/usr/bin/env python
"""
C07-D3: the interface list of a NetworkService / Interface handle is a cache (_interfaces) that only the
handle's own methods maintain. Topology.remove_node(), Node.remove_component(), remove_facility(),
Interface.remove_child_interface() disconnect interfaces through a FRESH handle of the service
(self.get_parent_element(peers[0]).disconnect_interface(i)), so the handle the caller got from
add_network_service() keeps listing a ServicePort that is no longer in the model (and does not
list ports connected through another handle).
Exit 1 = violation observed.
"""
import os
import sys

HERE = os.path.dirname(os.path.abspath(__file__))
ROOT = os.environ.get('FIM_ROOT', os.path.dirname(os.path.dirname(HERE)))
sys.path.insert(0, ROOT)

from fim.user.topology import ExperimentTopology
from fim.user import ComponentType, ServiceType
from fim.slivers.capacities_labels import Labels


def model_ports(t, ns):
    ids = t.graph_model.get_all_ns_or_link_connection_points(link_id=ns.node_id)
    return sorted(t.graph_model.get_node_properties(node_id=i)[1]['Name'] for i in ids)


violations = []

t = ExperimentTopology()
n1 = t.add_node(name='n1', site='RENC')
n2 = t.add_node(name='n2', site='RENC')
n3 = t.add_node(name='n3', site='RENC')
i1 = n1.add_component(name='nic1', ctype=ComponentType.SharedNIC, model='ConnectX-6').interface_list[0]
i2 = n2.add_component(name='nic1', ctype=ComponentType.SharedNIC, model='ConnectX-6').interface_list[0]
i3 = n3.add_component(name='nic1', ctype=ComponentType.SharedNIC, model='ConnectX-6').interface_list[0]
ns = t.add_network_service(name='br', nstype=ServiceType.L2Bridge, interfaces=[i1, i2])

# 1. one handle only: the node goes away, the handle still lists its port
t.remove_node('n2')
view = sorted(i.name for i in ns.interface_list)
model = model_ports(t, ns)
print('after remove_node(n2): ns.interface_list =', view, ' model =', model)
if view != model:
    violations.append(f'ns.interface_list lists {view}, the model has {model}')
    ghost = [i for i in ns.interface_list if i.name not in model][0]
    try:
        ghost.type
    except Exception as e:
        print('   the listed element cannot even be read:', type(e).__name__)

# 2. two handles of the same service
other = t.network_services['br']
other.connect_interface(i3)
view = sorted(ns.interfaces.keys())
model = model_ports(t, ns)
print('after connect through a second handle: ns.interfaces =', view, ' model =', model)
if view != model:
    violations.append(f'ns.interfaces lists {view}, the model has {model}')

# 3. same for the sub-interface list of a dedicated port
n4 = t.add_node(name='n4', site='RENC')
p1 = n4.add_component(name='nic2', ctype=ComponentType.SmartNIC, model='ConnectX-6').interface_list[0]
p1_again = n4.components['nic2'].interfaces[p1.name]
p1.add_child_interface(name='sub1', labels=Labels(vlan='100'))
p1_again.remove_child_interface(name='sub1')
view = [i.name for i in p1.interface_list]
model = t.graph_model.get_all_child_connection_points(interface_id=p1.node_id)
print('sub-interface removed through a second handle: port.interface_list =', view, ' model =', model)
if len(view) != len(model):
    violations.append(f'port.interface_list lists {view}, the model has {model}')

for v in violations:
    print('VIOLATION:', v)
sys.exit(1 if violations else 0)
