#!/usr/bin/env python3
"""
C09-D3: SubstrateTopology.single_delegation() rejects its label_pools argument (a pool defined
on a node that already carries labels -> "Node ... already has delegations defined", or a pool
that mentions a node id that is not in the model -> "Unable to find node") only in its second
pass.  By then the first pass has written CapacityDelegations on every node of the topology
(and, in the second case, part of the LabelDelegations as well).

exit 1 = violation observed (model changed by a call that raised), exit 0 = property held.
"""
import os
import sys

HERE = os.path.dirname(os.path.abspath(__file__))
FIM_ROOT = os.environ.get('FIM_ROOT', os.path.abspath(os.path.join(HERE, '..', '..')))
sys.path.insert(0, FIM_ROOT)

from fim.user.topology import SubstrateTopology
from fim.user import NodeType
from fim.slivers.capacities_labels import Labels, Capacities
from fim.slivers.delegations import Pools, Pool, DelegationType


def snapshot(topo):
    gid = topo.graph_model.graph_id
    g = topo.graph_model.storage.get_graph(gid)
    mine = {n: d for n, d in g.nodes(data=True) if d.get('GraphID') == gid}
    nodes = sorted((str(d.get('NodeID')), sorted((k, str(v)) for k, v in d.items())) for d in mine.values())
    edges = sorted((sorted([str(mine[a]['NodeID']), str(mine[b]['NodeID'])]), sorted((k, str(v)) for k, v in d.items()))
                   for a, b, d in g.edges(data=True) if a in mine and b in mine)
    return nodes, edges


def show_changes(before, after):
    b = {n[0]: dict(n[1]) for n in before[0]}
    a = {n[0]: dict(n[1]) for n in after[0]}
    for k in a:
        for p in sorted(set(a[k]) | set(b.get(k, {}))):
            if a[k].get(p) != b.get(k, {}).get(p):
                print(f'      {a[k].get("Class")} {a[k].get("Name")}: {p}: {b.get(k, {}).get(p)!r} -> {a[k].get(p)!r}')


def label_pools(defined_on, defined_for):
    pools = Pools(atype=DelegationType.LABEL)
    p = Pool(atype=DelegationType.LABEL, pool_id='vlan-pool', delegation_id='del1',
             defined_on=defined_on, defined_for=defined_for)
    p.set_pool_details(Labels(vlan_range='100-200'))
    pools.add_pool(pool=p)
    pools.build_index_by_delegation_id()
    pools.validate_pools()
    return pools


violations = 0

# ---- 1. the label pool is defined on a node that has labels of its own ------------------------
t = SubstrateTopology()
t.add_node(name='w1', node_id='w1-id', site='RENC', ntype=NodeType.Server,
           capacities=Capacities(core=32, ram=128), labels=Labels(local_name='worker1'))
t.add_node(name='w2', node_id='w2-id', site='RENC', ntype=NodeType.Server,
           capacities=Capacities(core=32, ram=128))
before = snapshot(t)
try:
    t.single_delegation(delegation_id='del1',
                        label_pools=label_pools('w1-id', ['w1-id', 'w2-id']),
                        capacity_pools=Pools(atype=DelegationType.CAPACITY))
    print('1. single_delegation(conflicting label pool) did not raise')
except BaseException as e:
    after = snapshot(t)
    print(f'1. single_delegation(conflicting label pool) raised {type(e).__name__}: {e}')
    if after != before:
        violations += 1
        print('   VIOLATION: the model changed although the call raised:')
        show_changes(before, after)
    else:
        print('   model unchanged')

# ---- 2. the label pool mentions a node id that is not in the model ------------------------------
t = SubstrateTopology()
t.add_node(name='w1', node_id='w1-id', site='RENC', ntype=NodeType.Server, capacities=Capacities(core=32))
before = snapshot(t)
try:
    t.single_delegation(delegation_id='del1',
                        label_pools=label_pools('w1-id', ['no-such-node']),
                        capacity_pools=Pools(atype=DelegationType.CAPACITY))
    print('2. single_delegation(pool for unknown node) did not raise')
except BaseException as e:
    after = snapshot(t)
    print(f'2. single_delegation(pool for unknown node) raised {type(e).__name__}: {e}')
    if after != before:
        violations += 1
        print('   VIOLATION: the model changed although the call raised:')
        show_changes(before, after)
    else:
        print('   model unchanged')

if violations:
    print(f'RESULT: {violations} failing call(s) left partial state in the model')
    sys.exit(1)
print('RESULT: property held')
sys.exit(0)
