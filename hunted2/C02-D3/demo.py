#!/usr/bin/env python3
"""
C02-D3: unsetting a settable property that is currently absent raises instead of leaving it absent.
element.set_property(p, None) is documented as "unset if pval is None", but on the NetworkX backend
unset_node_property raises PropertyGraphQueryException('Unable to unset property ...') when the graph node
does not carry the property - so unset is not idempotent, and whether set_property(p, None) works depends
on the history of the element. The sibling unset_link_property of the same class (and the Neo4j
unset_node_property, whose REMOVE is a no-op for a missing property) accept the same situation silently.
Exit 1 when the violation shows, 0 otherwise.
"""
import os
import sys

ROOT = os.environ.get('FIM_ROOT') or os.path.abspath(
    os.path.join(os.path.dirname(os.path.abspath(__file__)), '..', '..'))
sys.path.insert(0, ROOT)

from fim.user.topology import ExperimentTopology
from fim.user import ComponentType, ServiceType
from fim.graph.abc_property_graph import ABCPropertyGraph

t = ExperimentTopology()
n = t.add_node(name='n1', site='RENC')
c = n.add_component(name='nic1', ctype=ComponentType.SmartNIC, model='ConnectX-6')
i = c.interface_list[0]
ns = t.add_network_service(name='s1', nstype=ServiceType.L2Bridge, interfaces=[i])
link = list(t.links.values())[0]

failures = []
for e in (n, c, ns, i, link):
    kind = type(e).__name__
    # 1. unset twice: the second unset finds the property absent
    e.set_property('boot_script', '#!/bin/sh')
    e.set_property('boot_script', None)
    assert e.get_property('boot_script') is None
    try:
        e.set_property('boot_script', None)
        print(f'{kind:15s} second unset of boot_script: ok, reads {e.get_property("boot_script")!r}')
    except Exception as ex:
        print(f'{kind:15s} second unset of boot_script: {type(ex).__name__}: {ex}')
        failures.append((kind, 'boot_script'))
    # 2. unset of a settable property that was never set
    try:
        e.unset_property('tags')
        print(f'{kind:15s} unset of never-set tags: ok, reads {e.get_property("tags")!r}')
    except Exception as ex:
        print(f'{kind:15s} unset of never-set tags: {type(ex).__name__}: {ex}')
        failures.append((kind, 'tags'))

# sibling in the same class: unsetting an absent *link* property is accepted silently
t.graph_model.unset_link_property(node_a=n.node_id, node_b=c.node_id, kind=ABCPropertyGraph.REL_HAS,
                                  prop_name='NoSuchProperty')
print('unset_link_property of an absent property: accepted silently (sibling disagrees)')

if failures:
    print(f'VIOLATION: unsetting an absent property raises instead of leaving it absent: {failures}')
    sys.exit(1)
print('property held')
sys.exit(0)
