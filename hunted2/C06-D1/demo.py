#!/usr/bin/env python3
"""
C06-D1: in the NetworkX backends two nodes can be joined by one relation only. A second
add_link() between the same pair with another relation (or a second edge between the pair
in an imported GraphML) silently REPLACES the relation of the first edge (and merges the edge
properties), so afterwards
  - get_first_neighbor(rel=<first relation>) no longer returns the neighbour,
  - get_first_and_second_neighbor(rel1=<first relation>, ...) returns nothing,
  - get_nodes_on_shortest_path(rel=<first relation>) returns [] although the edge was added
    and never removed.
The oracle is computed directly from the list of add_link() calls / GraphML edges.
Exit 1 = violation observed, exit 0 = property held.
"""
import os
import sys

HERE = os.path.dirname(os.path.abspath(__file__))
FIM_ROOT = os.environ.get('FIM_ROOT', os.path.dirname(os.path.dirname(HERE)))
sys.path.insert(0, FIM_ROOT)

from fim.graph.networkx_property_graph import NetworkXGraphImporter, NetworkXPropertyGraph
from fim.graph.networkx_property_graph_disjoint import NetworkXGraphImporterDisjoint, NetworkXPropertyGraphDisjoint

NODES = [('a', 'X'), ('b', 'Y'), ('c', 'Z')]
EDGES = [('a', 'has', 'b'), ('b', 'connects', 'c'), ('b', 'connects', 'a')]  # a-b carries 'has' AND 'connects'

violations = 0


def oracle_first(start, rel, label):
    cls = dict(NODES)
    out = set()
    for a, r, b in EDGES:
        if r == rel and a == start and cls[b] == label:
            out.add(b)
        if r == rel and b == start and cls[a] == label:
            out.add(a)
    return out


def check(tag, g):
    global violations
    got = set(g.get_first_neighbor(node_id='a', rel='has', node_label='Y'))
    exp = oracle_first('a', 'has', 'Y')
    ok = got == exp
    print(f"  {tag}: get_first_neighbor(a, 'has', 'Y') = {sorted(got)}, expected {sorted(exp)}  {'ok' if ok else 'VIOLATED'}")
    violations += 0 if ok else 1

    got2 = g.get_first_and_second_neighbor(node_id='a', rel1='has', node1_label='Y', rel2='connects', node2_label='Z')
    ok = got2 == [['b', 'c']]
    print(f"  {tag}: get_first_and_second_neighbor(a, has/Y, connects/Z) = {got2}, expected [['b', 'c']]  "
          f"{'ok' if ok else 'VIOLATED'}")
    violations += 0 if ok else 1

    sp = g.get_nodes_on_shortest_path(node_a='a', node_z='b', rel='has')
    ok = sp == ['a', 'b']
    print(f"  {tag}: get_nodes_on_shortest_path(a, b, rel='has') = {sp}, expected ['a', 'b']  {'ok' if ok else 'VIOLATED'}")
    violations += 0 if ok else 1


for cls, impcls in ((NetworkXPropertyGraph, NetworkXGraphImporter),
                    (NetworkXPropertyGraphDisjoint, NetworkXGraphImporterDisjoint)):
    imp = impcls()
    imp.delete_all_graphs()
    # a second graph in the store, to show it is not a cross-graph effect
    other = cls(graph_id='other', importer=imp)
    other.add_node(node_id='a', label='X')

    print(cls.__name__, '- built with add_node/add_link')
    g = cls(graph_id='g1', importer=imp)
    for nid, c in NODES:
        g.add_node(node_id=nid, label=c)
    for a, r, b in EDGES[:2]:
        g.add_link(node_a=a, rel=r, node_b=b)
    before = g.get_first_neighbor(node_id='a', rel='has', node_label='Y')
    print(f"  before the second a-b edge: get_first_neighbor(a, 'has', 'Y') = {before}")
    a, r, b = EDGES[2]
    g.add_link(node_a=a, rel=r, node_b=b, props={'p': '1'})   # no error, no warning
    print('  link a-b now reads:', g.get_link_properties(node_a='a', node_b='b'))
    check('add_link', g)

    print(cls.__name__, '- imported from GraphML with both edges')
    gml = ['<?xml version="1.0" encoding="utf-8"?>',
           '<graphml xmlns="http://graphml.graphdrawing.org/xmlns">',
           '<key id="d0" for="node" attr.name="NodeID" attr.type="string"/>',
           '<key id="d1" for="node" attr.name="Class" attr.type="string"/>',
           '<key id="d2" for="edge" attr.name="Class" attr.type="string"/>',
           '<graph edgedefault="undirected">']
    for nid, c in NODES:
        gml.append(f'<node id="{nid}"><data key="d0">{nid}</data><data key="d1">{c}</data></node>')
    for i, (a, r, b) in enumerate(EDGES):
        gml.append(f'<edge id="e{i}" source="{a}" target="{b}"><data key="d2">{r}</data></edge>')
    gml += ['</graph>', '</graphml>']
    g2 = imp.import_graph_from_string(graph_string='\n'.join(gml), graph_id='g2')
    check('import  ', g2)
    imp.delete_all_graphs()

print()
print(f'{violations} query results differ from the oracle')
sys.exit(1 if violations else 0)
