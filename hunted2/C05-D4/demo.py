#!/usr/bin/env python3
"""
C05-D4: the "graph not found" branch of the four path/neighbour queries of the shared-store
backend builds its exception with a missing required argument:
    raise PropertyGraphQueryException(graph_id=self.graph_id, msg="Unable to find graph")
PropertyGraphQueryException.__init__ has keyword-only `node_id` without a default, so the
raise statement itself dies with TypeError. The one-graph-per-id backend never takes this
branch (its extract_graph returns an empty graph, not None) and raises
PropertyGraphQueryException from _find_node. Same call, same state, different exception
class in the two backends - and `except PropertyGraphQueryException` does not catch the
shared-store one.
Exit 1 = violation observed, exit 0 = property held.
"""
import os
import sys

HERE = os.path.dirname(os.path.abspath(__file__))
FIM_ROOT = os.environ.get('FIM_ROOT', os.path.abspath(os.path.join(HERE, '..', '..')))
sys.path.insert(0, FIM_ROOT)
sys.dont_write_bytecode = True

from fim.graph.networkx_property_graph import NetworkXGraphImporter, NetworkXPropertyGraph
from fim.graph.networkx_property_graph_disjoint import NetworkXGraphImporterDisjoint, \
    NetworkXPropertyGraphDisjoint

CALLS = {
    'get_first_neighbor':
        lambda g: g.get_first_neighbor(node_id='a', rel='has', node_label='Component'),
    'get_first_and_second_neighbor':
        lambda g: g.get_first_and_second_neighbor(node_id='a', rel1='has', node1_label='Component',
                                                  rel2='has', node2_label='ConnectionPoint'),
    'get_nodes_on_shortest_path':
        lambda g: g.get_nodes_on_shortest_path(node_a='a', node_z='b'),
    'get_nodes_on_path_with_hops':
        lambda g: g.get_nodes_on_path_with_hops(node_a='a', node_z='b', hops=['b']),
}


def outcome(f, g):
    try:
        return 'returns ' + repr(f(g))
    except BaseException as e:
        return type(e).__name__


def scenario(importer_cls, graph_cls):
    imp = importer_cls()
    imp.delete_all_graphs()
    g = graph_cls(graph_id='g1', importer=imp)
    # a graph that had content and lost its last node: same history in both backends
    g.add_node(node_id='a', label='NetworkNode', props={'Name': 'a'})
    g.delete_node(node_id='a')
    res = {name: outcome(f, g) for name, f in CALLS.items()}
    imp.delete_all_graphs()
    return res


if __name__ == '__main__':
    shared = scenario(NetworkXGraphImporter, NetworkXPropertyGraph)
    disjoint = scenario(NetworkXGraphImporterDisjoint, NetworkXPropertyGraphDisjoint)
    bad = False
    for name in CALLS:
        print(f'{name:32s} shared: {shared[name]:30s} disjoint: {disjoint[name]}')
        if shared[name] != disjoint[name] or 'TypeError' in (shared[name], disjoint[name]):
            bad = True
    if bad:
        print('VIOLATION: the backends do not raise the same exception on the same call; the shared-store backend '
              'dies with TypeError while constructing its own PropertyGraphQueryException')
        sys.exit(1)
    print('property held')
    sys.exit(0)
