#!/usr/bin/env python
"""
C17-D1: NodeSliver.diff() compares node-level network services (switch 'sw-ns', facility '<name>-ns')
by their own labels/capacities/user data only. Interfaces added to / removed from such a service, and
sub-interfaces added to / removed from / changed on its dedicated ports, are not reported at all:
old.diff(new) returns None ("no difference"), while the same sub-interface edit under a component's
service IS reported (SUB_INTERFACES on the component).
Exit 1 = violation observed.
"""
import os
import sys

HERE = os.path.dirname(os.path.abspath(__file__))
ROOT = os.environ.get('FIM_ROOT', os.path.dirname(os.path.dirname(HERE)))
sys.path.insert(0, ROOT)

from fim.user.topology import ExperimentTopology
from fim.user import ComponentType, InterfaceType
from fim.slivers.capacities_labels import Labels, Capacities
from fim.slivers.topology_diff import WhatsModifiedFlag


def describe(d):
    if d is None:
        return 'None (no difference)'
    return (f'added.interfaces={sorted(i.resource_name for i in d.added.interfaces)} '
            f'removed.interfaces={sorted(i.resource_name for i in d.removed.interfaces)} '
            f'modified.components={[(c.resource_name, f) for c, f in d.modified.components]} '
            f'modified.services={[(s.resource_name, f) for s, f in d.modified.services]} '
            f'modified.interfaces={[(i.resource_name, f) for i, f in d.modified.interfaces]}')


violations = []
t = ExperimentTopology()

# reference: the component path reports a new sub-interface
n1 = t.add_node(name='n1', site='RENC')
nic = n1.add_component(name='nic1', ctype=ComponentType.SmartNIC, model='ConnectX-6')
old = n1.get_sliver()
nic.interface_list[0].add_child_interface(name='sub1', labels=Labels(vlan='100'))
new = n1.get_sliver()
print('VM, sub-interface added under a component port     :', describe(old.diff(new)))

# 1. the same edit under a node-level service of a switch
sw = t.add_switch(name='sw1', site='RENC', nports=2)
old = sw.get_sliver()
sw.interfaces['p1'].add_child_interface(name='sub1', labels=Labels(vlan='100'))
new = sw.get_sliver()
assert new.network_service_info.get_network_service('sw1-ns').interface_info.get_interface('p1').interface_info \
    .get_interface('sub1') is not None, 'the new sliver does carry the sub-interface'
d = old.diff(new)
print('Switch, sub-interface added under a switch port     :', describe(d))
if d is None:
    violations.append('sub-interface added under a node-level service port: old.diff(new) is None')
d = new.diff(old)
print('Switch, the reverse (sub-interface removed)          :', describe(d))
if d is None:
    violations.append('sub-interface removed under a node-level service port: new.diff(old) is None')

# 2. a whole interface added to the node-level service
old = sw.get_sliver()
sw.network_services['sw1-ns'].add_interface(name='p3', itype=InterfaceType.DedicatedPort,
                                            labels=Labels(local_name='p3'), capacities=Capacities(bw=100))
new = sw.get_sliver()
d = old.diff(new)
print('Switch, port p3 added to the node-level service      :', describe(d))
if d is None:
    violations.append('interface added to a node-level service: old.diff(new) is None')

# 3. for information only (the component path ignores port property changes on purpose, so not counted):
#    labels of an existing port of the node-level service changed
old = sw.get_sliver()
sw.interfaces['p2'].labels = Labels(local_name='p2', vlan='200')
new = sw.get_sliver()
print('(info) Switch, labels of port p2 changed             :', describe(old.diff(new)))

for v in violations:
    print('VIOLATION:', v)
sys.exit(1 if violations else 0)
