#!/usr/bin/env python3
"""
C02-D1: stitch_node is a settable property of every sliver class, but it cannot be unset through
a model element: set_property('stitch_node', None) / unset_property('stitch_node') silently do nothing,
because 'stitch_node' is missing from ABCPropertyGraph.SLIVER_PROPERTY_TO_GRAPH.
Exit 1 when the violation shows, 0 otherwise.
"""
import os
import sys

ROOT = os.environ.get('FIM_ROOT') or os.path.abspath(
    os.path.join(os.path.dirname(os.path.abspath(__file__)), '..', '..'))
sys.path.insert(0, ROOT)

from fim.user.topology import ExperimentTopology
from fim.user import ComponentType, ServiceType
from fim.graph.abc_property_graph import ABCPropertyGraph

t = ExperimentTopology()
n = t.add_node(name='n1', site='RENC')
c = n.add_component(name='nic1', ctype=ComponentType.SmartNIC, model='ConnectX-6')
i = c.interface_list[0]
ns = t.add_network_service(name='s1', nstype=ServiceType.L2Bridge, interfaces=[i])
link = list(t.links.values())[0]

bad = []
for e in (n, c, ns, i, link):
    kind = type(e).__name__
    assert 'stitch_node' in e.list_properties(), 'stitch_node is advertised as settable'
    # control: another property of the same element unsets fine
    e.set_property('details', 'x')
    e.set_property('details', None)
    assert e.get_property('details') is None

    e.set_property('stitch_node', True)
    assert e.get_property('stitch_node') is True
    e.set_property('stitch_node', None)          # documented as "unset if pval is None"
    after_set_none = e.get_property('stitch_node')
    e.unset_property('stitch_node')
    after_unset = e.get_property('stitch_node')
    _, props = t.graph_model.get_node_properties(node_id=e.node_id)
    still_in_graph = ABCPropertyGraph.PROP_STITCH_NODE in props
    print(f'{kind:15s} after set_property(None): {after_set_none!r}; after unset_property: {after_unset!r}; '
          f'StitchNode still stored in graph: {still_in_graph}')
    if after_set_none or after_unset or still_in_graph:
        bad.append(kind)

print('mapping knows stitch_node:', ABCPropertyGraph.map_sliver_property_to_graph('stitch_node'))
if bad:
    print(f'VIOLATION: stitch_node cannot be unset on {bad}: it still reads True after unsetting')
    sys.exit(1)
print('property held')
sys.exit(0)
