#!/usr/bin/env python3
"""
C03-D3: a Gateway with nothing set is not encoded as empty text. Gateway(None) is an accepted
constructor form (its accessors all handle lab is None), but to_json() returns None instead of ''.
The value is therefore not text at all, and a model that carries such a gateway cannot be
serialized any more (every other 'nothing set' value - Labels(), Capacities(), PathInfo() - gives '').
"""
import os
import sys

HERE = os.path.dirname(os.path.abspath(__file__))
ROOT = os.environ.get('FIM_ROOT', os.path.dirname(os.path.dirname(HERE)))
sys.path.insert(0, ROOT)

from fim.slivers.gateway import Gateway  # noqa: E402
from fim.slivers.capacities_labels import Labels  # noqa: E402
from fim.slivers.path_info import PathInfo  # noqa: E402
import fim.user as f  # noqa: E402

violations = []

gw = Gateway(None)
print(f'Gateway(None): gateway={gw.gateway!r} subnet={gw.subnet!r} mac={gw.mac!r} str={str(gw)!r}')
enc = gw.to_json()
print(f'Gateway(None).to_json() -> {enc!r}   (Labels().to_json() -> {Labels().to_json()!r}, '
      f'PathInfo().to_json() -> {PathInfo().to_json()!r})')
if enc != '':
    violations.append(f'a gateway with nothing set is encoded as {enc!r}, not as empty text')
else:
    back = Gateway.from_json(enc)
    print(f'read back: {back!r}')
    if back is not None:
        violations.append('empty gateway not read back as absent')

# consequence inside a model: the property is stored as None and the model cannot be written out
t = f.ExperimentTopology()
n = t.add_node(name='n1', site='S1')
c = n.add_component(name='c1', ctype=f.ComponentType.SharedNIC, model='ConnectX-6')
ns = t.add_network_service(name='ns1', nstype=f.ServiceType.L2Bridge, interfaces=list(c.interface_list))
try:
    ns.set_properties(gateway=gw)
    _, props = t.graph_model.get_node_properties(node_id=ns.node_id)
    print(f"stored Gateway property: {props.get('Gateway')!r}")
    s = t.serialize()
    print(f'model serialized, {len(s)} characters')
    t2 = f.ExperimentTopology(graph_string=s)
    print(f"gateway read back from the model: {t2.network_services['ns1'].gateway!r}")
except Exception as ex:
    print(f'model with the empty gateway cannot be stored/serialized: {type(ex).__name__}: {ex}')
    violations.append('the None encoding breaks storing/serializing the model')

if violations:
    print('VIOLATION:')
    for v in violations:
        print('  ' + v)
    sys.exit(1)
print('property held')
sys.exit(0)
