#!/usr/bin/env python3
"""
C03-D2: a finalized MaintenanceInfo can be altered. finalize() only guards add/rem/pop; the
container stores and hands out the caller's mutable MaintenanceEntry objects, and copy() is shallow,
so the finalized record changes (a) through the entry returned by get(), (b) through the entry the
caller passed to add(), (c) through the un-finalized copy() that is supposed to be the way to
'recreate and reassign'.
"""
import os
import sys
from datetime import datetime, timezone

HERE = os.path.dirname(os.path.abspath(__file__))
ROOT = os.environ.get('FIM_ROOT', os.path.dirname(os.path.dirname(HERE)))
sys.path.insert(0, ROOT)

from fim.slivers.maintenance_mode import MaintenanceInfo, MaintenanceEntry, MaintenanceState  # noqa: E402
from fim.slivers.network_node import NodeSliver  # noqa: E402

violations = []


def fresh():
    mi = MaintenanceInfo()
    e = MaintenanceEntry(state=MaintenanceState.Maint,
                         deadline=datetime(2024, 1, 1, tzinfo=timezone.utc),
                         expected_end=datetime(2024, 1, 2, tzinfo=timezone.utc))
    mi.add('worker1', e)
    # assigning to a sliver is what finalizes the record in the library
    ns = NodeSliver()
    ns.set_maintenance_info(mi)
    return mi, e


# the guard that exists
mi, _ = fresh()
try:
    mi.add('worker2', MaintenanceEntry(state=MaintenanceState.Active))
    violations.append('add() on a finalized record succeeded')
except Exception as ex:
    print(f'add() on finalized record refused: {type(ex).__name__}')

# (a) through get()
mi, _ = fresh()
before = mi.to_json()
mi.get('worker1').state = MaintenanceState.Active
after = mi.to_json()
print(f'(a) before: {before}\n    after : {after}')
if before != after:
    violations.append('finalized record altered through the entry returned by get()')

# (b) through the handle passed to add()
mi, e = fresh()
before = mi.to_json()
e.deadline = datetime(2030, 1, 1, tzinfo=timezone.utc)
after = mi.to_json()
print(f'(b) before: {before}\n    after : {after}')
if before != after:
    violations.append('finalized record altered through the entry object that was passed to add()')

# (c) through copy(), the documented way to obtain a modifiable record
mi, _ = fresh()
before = mi.to_json()
c = mi.copy()
c.get('worker1').expected_end = None
after = mi.to_json()
print(f'(c) before: {before}\n    after : {after}')
if before != after:
    violations.append('finalized record altered through the entries of its un-finalized copy()')

if violations:
    print('VIOLATION:')
    for v in violations:
        print('  ' + v)
    sys.exit(1)
print('property held')
sys.exit(0)
