#!/usr/bin/env python3
"""
C12-D4: a delegation whose details are an all-zero Capacities (or an all-None Labels) is a legal object
(Delegation.set_details accepts it, Pool.set_pool_details + validate_pool accept it, Delegations.from_json
produces it from {"capacities": {}}), but it cannot be encoded: Delegations.to_json() dies with a bare
AssertionError because JSONField.to_dict() returns None for 'no non-zero field'. So such a delegation set does not
'encode to text and decode back', a decoded set cannot be re-encoded, and a validated pool family with a
zero-capacity pool cannot be written to a model (annotate_delegations_and_pools fails after the checks).
Exit 1 when the violation shows, 0 otherwise.
"""
import os
import sys
import json

ROOT = os.environ.get('FIM_ROOT') or os.path.abspath(
    os.path.join(os.path.dirname(os.path.abspath(__file__)), '..', '..'))
sys.path.insert(0, ROOT)

from fim.slivers.delegations import Delegations, Delegation, DelegationType, DelegationFormat, Pools, Pool
from fim.slivers.capacities_labels import Capacities, Labels

violations = []

# 1. object -> text
for atype, details in ((DelegationType.CAPACITY, Capacities(core=0, ram=0)), (DelegationType.LABEL, Labels())):
    ds = Delegations(atype=atype)
    d = Delegation(atype=atype, delegation_id='del1', aformat=DelegationFormat.PoolDefinition, pool_id='poolA')
    d.set_details(details)          # accepted
    ds.add_delegations(d)           # accepted
    try:
        text = ds.to_json()
        back = Delegations.from_json(json_str=text, atype=atype)
        print(f'{atype.name}: encoded {text} and decoded back {back}')
    except AssertionError as e:
        print(f'{atype.name}: set_details({type(details).__name__} with no non-zero field) accepted, '
              f'to_json() -> AssertionError {e!r}')
        violations.append(f'{atype.name} delegation with empty details cannot be encoded')

# 2. text -> object -> text
text = json.dumps({'del1': {'pool_id': 'poolA', 'capacities': {}}})
ds = Delegations.from_json(json_str=text, atype=DelegationType.CAPACITY)
print('decoded', text, '->', ds)
try:
    print('re-encoded', ds.to_json())
except AssertionError as e:
    print(f're-encoding what from_json just produced -> AssertionError {e!r}')
    violations.append('decoded delegations cannot be re-encoded')

# 3. pools -> per-node delegations -> text
ps = Pools(atype=DelegationType.CAPACITY)
p = Pool(atype=DelegationType.CAPACITY, pool_id='poolA', delegation_id='del1', defined_on='n1', defined_for=['n2'])
p.set_pool_details(Capacities())    # e.g. a pool that is currently exhausted / switched off
ps.add_pool(pool=p)
ps.validate_pools()                 # passes
ps.build_index_by_delegation_id()   # passes
per_node = ps.generate_delegations_by_node_id()   # passes
try:
    print({k: v.to_json() for k, v in per_node.items()})
except AssertionError as e:
    print(f'validated pool with zero capacities: per-node delegations cannot be encoded -> AssertionError {e!r}')
    violations.append('validated pool cannot be written')

if violations:
    print('VIOLATION:', '; '.join(violations))
    sys.exit(1)
print('property held')
sys.exit(0)
