#!/usr/bin/env python3
"""
C05-D3: add_node() checks node-id uniqueness and sets Class/NodeID/GraphID from its
arguments, then blindly does nodes[int_id].update(props). Identity keys inside props
therefore replace what was just checked:
  - props={'Class': X}   : the node is created with class X, not with `label`
                           (update_node_property/update_node_properties refuse this key)
  - props={'NodeID': id} : a second node with an id already in use is created although
                           add_node just verified the id given as node_id was free
  - props={'GraphID': g} : the node lands in another graph (shared store) or becomes an
                           unreachable ghost (one-graph-per-id store) - the two backends
                           end up with different contents
Exit 1 = violation observed, exit 0 = property held.
"""
import os
import sys

HERE = os.path.dirname(os.path.abspath(__file__))
FIM_ROOT = os.environ.get('FIM_ROOT', os.path.abspath(os.path.join(HERE, '..', '..')))
sys.path.insert(0, FIM_ROOT)
sys.dont_write_bytecode = True

from fim.graph.abc_property_graph import PropertyGraphQueryException
from fim.graph.networkx_property_graph import NetworkXGraphImporter, NetworkXPropertyGraph
from fim.graph.networkx_property_graph_disjoint import NetworkXGraphImporterDisjoint, \
    NetworkXPropertyGraphDisjoint


def scenario(name, importer_cls, graph_cls):
    problems = []
    imp = importer_cls()
    imp.delete_all_graphs()
    g = graph_cls(graph_id='g1', importer=imp)
    other = graph_cls(graph_id='g2', importer=imp)
    other.add_node(node_id='o1', label='NetworkNode', props={'Name': 'o1'})
    g.add_node(node_id='n1', label='NetworkNode', props={'Name': 'n1', 'Type': 'VM'})

    # 1. class: label says NetworkNode, props says Component
    try:
        g.add_node(node_id='n2', label='NetworkNode', props={'Name': 'n2', 'Class': 'Component'})
        labels, _ = g.get_node_properties(node_id='n2')
        print(f'[{name}] add_node(label=NetworkNode, props[Class]=Component) accepted; class is {labels}; '
              f'node_exists(n2, NetworkNode)={g.node_exists(node_id="n2", label="NetworkNode")}')
        if labels != ['NetworkNode']:
            problems.append('class differs from label')
    except (PropertyGraphQueryException, AssertionError, TypeError) as e:
        print(f'[{name}] add_node with Class in props refused: {type(e).__name__}')

    # 2. node id: n1 is in use, n3 is free
    try:
        g.add_node(node_id='n3', label='Component', props={'Name': 'dup', 'NodeID': 'n1'})
        ids = sorted(g.list_all_node_ids())
        print(f'[{name}] add_node(node_id=n3, props[NodeID]=n1) accepted; ids now {ids}')
        if ids.count('n1') > 1:
            problems.append('duplicate node id')
            try:
                g.get_node_properties(node_id='n1')
            except PropertyGraphQueryException as e:
                print(f'[{name}]   get_node_properties(n1) now raises: {e}')
    except (PropertyGraphQueryException, AssertionError, TypeError) as e:
        print(f'[{name}] add_node with NodeID in props refused: {type(e).__name__}')

    # 3. graph id
    try:
        g.add_node(node_id='n4', label='Component', props={'Name': 'n4', 'GraphID': 'g2'})
        in_g1 = 'n4' in g.list_all_node_ids()
        in_g2 = 'n4' in other.list_all_node_ids()
        print(f'[{name}] add_node on g1 with props[GraphID]=g2 accepted; n4 listed in g1: {in_g1}, in g2: {in_g2}')
        if not in_g1:
            problems.append(f'node added through g1 is not in g1 (in g2: {in_g2})')
    except (PropertyGraphQueryException, AssertionError, TypeError) as e:
        print(f'[{name}] add_node with GraphID in props refused: {type(e).__name__}')
    imp.delete_all_graphs()
    return problems


if __name__ == '__main__':
    p1 = scenario('shared', NetworkXGraphImporter, NetworkXPropertyGraph)
    p2 = scenario('disjoint', NetworkXGraphImporterDisjoint, NetworkXPropertyGraphDisjoint)
    if p1 or p2:
        print('VIOLATION shared  :', p1)
        print('VIOLATION disjoint:', p2)
        if p1 != p2:
            print('           ... and the two backends disagree with each other')
        sys.exit(1)
    print('property held')
    sys.exit(0)
