#!/usr/bin/env python3
"""
C01-D1: of the two sibling GraphML producers ABCGraphImporter.enumerate_graph_nodes (to file) and
ABCGraphImporter.enumerate_graph_nodes_to_string, only the first one passes its output through
GraphML.networkx_to_neo4j. The GraphML text returned by enumerate_graph_nodes_to_string carries
no 'labels' attribute on any node and no 'label' attribute on any edge - the markup the
persistent (Neo4j/APOC, readLabels:true) importer needs - although every other GraphML the
library emits (serialize_graph, Topology.serialize, enumerate_graph_nodes) does.

exit 1 = violation observed, exit 0 = property held
"""
import os
import sys
import tempfile

HERE = os.path.dirname(os.path.abspath(__file__))
FIM_ROOT = os.environ.get('FIM_ROOT', os.path.abspath(os.path.join(HERE, '..', '..')))
sys.path.insert(0, FIM_ROOT)

import networkx as nx
from lxml import etree

from fim.graph.networkx_property_graph import NetworkXGraphImporter

NS = {'g': 'http://graphml.graphdrawing.org/xmlns'}


def markup(graphml: str):
    tree = etree.fromstring(graphml.encode('utf-8'))
    nodes = tree.findall('./g:graph/g:node', NS)
    edges = tree.findall('./g:graph/g:edge', NS)
    return (len(nodes), sum(1 for n in nodes if (n.get('labels') or '').startswith(':GraphNode:')),
            len(edges), sum(1 for e in edges if e.get('label')))


# a hand-drawn model (as produced by e.g. yEd): classes and names, but no NodeID yet
g = nx.Graph()
g.add_node('a', Class='NetworkNode', Name='worker1', Type='Server')
g.add_node('b', Class='Component', Name='gpu1', Type='GPU')
g.add_node('c', Class='NetworkService', Name='worker1-sf', Type='MPLS')
g.add_edge('a', 'b', Class='has')
g.add_edge('a', 'c', Class='has')
tmpdir = tempfile.mkdtemp()
src = os.path.join(tmpdir, 'drawn.graphml')
nx.write_graphml(g, src)

imp = NetworkXGraphImporter()

# sibling 1: to a file
dst = os.path.join(tmpdir, 'enumerated.graphml')
imp.enumerate_graph_nodes(graph_file=src, new_graph_file=dst)
with open(dst) as f:
    to_file = f.read()
# sibling 2: to a string
to_string = imp.enumerate_graph_nodes_to_string(graph_file=src)
# reference: what the library's regular serializer emits for the same model
pg = imp.import_graph_from_string(graph_string=to_string, graph_id='c01-d1')
pg.validate_graph()
regular = pg.serialize_graph()
pg.delete_graph()

res = {}
for name, text in (('enumerate_graph_nodes (file)', to_file),
                   ('enumerate_graph_nodes_to_string', to_string),
                   ('serialize_graph', regular)):
    n, nl, e, el = markup(text)
    res[name] = (n, nl, e, el)
    print(f'{name:34s}: {nl}/{n} nodes carry labels=":GraphNode:<Class>", {el}/{e} edges carry label="<Class>"')

n, nl, e, el = res['enumerate_graph_nodes_to_string']
if nl != n or el != e:
    print('VIOLATION: GraphML produced by enumerate_graph_nodes_to_string lacks the Neo4j label markup '
          'that its sibling and serialize_graph emit')
    sys.exit(1)
print('property held')
sys.exit(0)
