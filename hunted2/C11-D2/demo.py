#!/usr/bin/env python3
"""
C11-D2: the authorization attributes collected from a topology object differ from the ones
collected from its serialized model (ASM): for an externally routed service (FABNetv4Ext /
FABNetv6Ext) the topology path reports the placeholder 'UNKNOWN-SITE' instead of the site
the service is in, while the ASM path (which re-imports the model and runs validate()) reports
the real site. As a side effect the ASM path writes the inferred Site into the stored model, so
what the topology path returns also depends on whether an ASM collection ran before it.

exit 1 = violation observed, exit 0 = property held
"""
import os
import sys

HERE = os.path.dirname(os.path.abspath(__file__))
FIM_ROOT = os.environ.get('FIM_ROOT', os.path.abspath(os.path.join(HERE, '..', '..')))
sys.path.insert(0, FIM_ROOT)

from fim.user.topology import ExperimentTopology
from fim.user import ComponentModelType
from fim.user.network_service import ServiceType
from fim.slivers.capacities_labels import Capacities
from fim.graph.networkx_property_graph import NetworkXGraphImporter
from fim.graph.slices.networkx_asm import NetworkXASMFactory
from fim.authz.attribute_collector import ResourceAuthZAttributes as RA


def ext_sites(source):
    a = RA()
    a.collect_resource_attributes(source=source)
    d = dict(a.attributes)
    return {k: sorted(v) for k, v in d.items() if k in (RA.RESOURCE_FABNETV4_EXT, RA.RESOURCE_FABNETV6_EXT,
                                                         RA.RESOURCE_SITE)}


t = ExperimentTopology()
n1 = t.add_node(name='n1', site='RENC', capacities=Capacities(core=2, ram=8, disk=10))
n2 = t.add_node(name='n2', site='UKY', capacities=Capacities(core=4, ram=16, disk=100))
nic1 = n1.add_component(name='nic1', model_type=ComponentModelType.SharedNIC_ConnectX_6)
nic2 = n2.add_component(name='nic1', model_type=ComponentModelType.SmartNIC_ConnectX_6)
t.add_network_service(name='ext4', nstype=ServiceType.FABNetv4Ext, interfaces=[nic2.interface_list[0]])
t.add_network_service(name='ext6', nstype=ServiceType.FABNetv6Ext, interfaces=[nic1.interface_list[0]])

# the serialized model, imported under another graph id so that collecting from it cannot
# touch the model of the topology object
serialized = t.serialize()
asm = NetworkXASMFactory.create(NetworkXGraphImporter().import_graph_from_string(graph_string=serialized,
                                                                                graph_id='serialized-copy'))

from_topo = ext_sites(t)
from_asm = ext_sites(asm)
print('from topology object :', from_topo)
print('from serialized model:', from_asm)

# side effect: collecting from the topology's own ASM rewrites the stored model (Site is set on
# the services), after which the topology path gives a different answer than before
from_own_asm = ext_sites(t.graph_model)
from_topo_again = ext_sites(t)
print('from topology object, after an ASM collection ran on its model:', from_topo_again)

bad = False
if from_topo != from_asm:
    print('VIOLATION: topology object and serialized model give different attributes')
    bad = True
if 'UNKNOWN-SITE' in from_topo.get(RA.RESOURCE_FABNETV4_EXT, []) + from_topo.get(RA.RESOURCE_FABNETV6_EXT, []):
    print('VIOLATION: the site of an externally-routed service is not named (UNKNOWN-SITE instead of UKY / RENC)')
    bad = True
if from_topo != from_topo_again:
    print('VIOLATION: the same topology object gives different attributes before and after an ASM collection')
    bad = True
sys.exit(1 if bad else 0)
