#!/usr/bin/env python3
"""
C03-D1: the legacy type:value tuple codec is not lossless - TypedTuple(fromstring=...) strips the
whole encoded text, so a value that ends (or a text that is padded) with whitespace decodes to a
different value and re-encodes to a different text. The sibling decoder parse_from_string() does
not strip, so the two decoders of the same text disagree as well.
"""
import os
import sys

HERE = os.path.dirname(os.path.abspath(__file__))
ROOT = os.environ.get('FIM_ROOT', os.path.dirname(os.path.dirname(HERE)))
sys.path.insert(0, ROOT)

from fim.graph.typed_tuples import Label  # noqa: E402

violations = []
for value in ['worker 1 ', 'rack-7\t', 'vm-1\n', 'plain']:
    original = Label(atype='node', aval=value)
    text = original.get_as_string()              # encode
    decoded = Label(fromstring=text)             # decode (constructor form)
    text2 = decoded.get_as_string()              # re-encode
    sibling = Label(atype='node', aval='x')
    sibling.parse_from_string(text)              # decode (method form)
    print(f'value={value!r} encoded={text!r} decoded={decoded.get_val()!r} re-encoded={text2!r} '
          f'parse_from_string={sibling.get_val()!r}')
    if decoded.get_val() != original.get_val():
        violations.append(f'decode(encode({value!r})) gave {decoded.get_val()!r}')
    if text2 != text:
        violations.append(f'encode(decode({text!r})) gave {text2!r}')
    if sibling.get_val() != decoded.get_val():
        violations.append(f'the two decoders disagree on {text!r}: {decoded.get_val()!r} vs {sibling.get_val()!r}')

if violations:
    print('VIOLATION:')
    for v in violations:
        print('  ' + v)
    sys.exit(1)
print('property held')
sys.exit(0)
