#!/usr/bin/env python3
"""
C05-D2: NetworkXPropertyGraph.merge_nodes() applies the per-property policy only to the
properties the CALLER's node already has. A property that only the other graph's node
carries is dropped, even when the policy for it is 'overwrite' ("keep property of the
other graph") or 'combine'. The mirror case (caller has it, other lacks it) raises, so the
two directions disagree, and the Neo4j sibling (apoc.refactor.mergeNodes) carries such
properties over.
Exit 1 = violation observed, exit 0 = property held.
"""
import os
import sys

HERE = os.path.dirname(os.path.abspath(__file__))
FIM_ROOT = os.environ.get('FIM_ROOT', os.path.abspath(os.path.join(HERE, '..', '..')))
sys.path.insert(0, FIM_ROOT)
sys.dont_write_bytecode = True

from fim.graph.networkx_property_graph import NetworkXGraphImporter, NetworkXPropertyGraph


def main():
    imp = NetworkXGraphImporter()
    imp.delete_all_graphs()
    cbm = NetworkXPropertyGraph(graph_id='cbm', importer=imp)
    adm = NetworkXPropertyGraph(graph_id='adm', importer=imp)

    cbm.add_node(node_id='n1', label='NetworkNode', props={'Name': 'site', 'Type': 'Server', 'Site': 'OLD'})
    adm.add_node(node_id='n1', label='NetworkNode',
                 props={'Name': 'site', 'Type': 'Server', 'Site': 'NEW',
                        'Capacities': '{"core": 4}', 'Labels': '{"vlan": "100"}'})

    policy = {'Site': 'overwrite',          # both have it
              'Capacities': 'overwrite',    # only the other node has it
              'Labels': 'combine'}          # only the other node has it
    cbm.merge_nodes('n1', adm, merge_properties=policy)
    _, props = cbm.get_node_properties(node_id='n1')
    print('merge policy      :', policy)
    print('merged node props :', props)

    ok_both = props.get('Site') == 'NEW'
    has_cap = 'Capacities' in props
    has_lab = 'Labels' in props
    print(f"'Site' (on both nodes, overwrite)            -> taken from other: {ok_both}")
    print(f"'Capacities' (only on other node, overwrite) -> present after merge: {has_cap}")
    print(f"'Labels' (only on other node, combine)       -> present after merge: {has_lab}")

    # the mirror image is not ignored but refused
    imp.delete_all_graphs()
    cbm.add_node(node_id='n1', label='NetworkNode', props={'Name': 'site', 'Capacities': '{"core": 4}'})
    adm.add_node(node_id='n1', label='NetworkNode', props={'Name': 'site'})
    try:
        cbm.merge_nodes('n1', adm, merge_properties={'Capacities': 'overwrite'})
        print('mirror case (caller has it, other lacks it): accepted')
    except Exception as e:
        print(f'mirror case (caller has it, other lacks it): raises {type(e).__name__}({e})')
    imp.delete_all_graphs()

    if ok_both and not (has_cap and has_lab):
        print("VIOLATION: the 'overwrite'/'combine' policy was not applied to properties only the merged-in node has; "
              "they were silently lost together with that node")
        return 1
    print('property held')
    return 0


if __name__ == '__main__':
    sys.exit(main())
