#!/usr/bin/env python
"""
C07-D4: connect_interface() / peer() create ServicePort(s) + Link "as a unit", and disconnect_interface(),
unpeer(), remove_node(), remove_component(), remove_child_interface() take them away together.
Topology.remove_link(name) however accepts those very links (they are listed in topology.links under
their generated names) and deletes only the Link node. A ServicePort is left in the model with no peer:
the published rule "There should always be one peer for each ServicePort" is broken, Topology.validate()
raises, and the node interface can be connected to a second service while the first still holds a port for it.
Exit 1 = violation observed.
"""
import os
import sys

HERE = os.path.dirname(os.path.abspath(__file__))
ROOT = os.environ.get('FIM_ROOT', os.path.dirname(os.path.dirname(HERE)))
sys.path.insert(0, ROOT)

from fim.user.topology import ExperimentTopology
from fim.user import ComponentType, ServiceType


def service_ports_without_single_peer(t):
    """the published rule, transliterated: every ServicePort -connects- Link -connects- CP exactly once"""
    g = t.graph_model.storage.extract_graph(t.graph_model.graph_id)
    bad = []
    for n, d in g.nodes(data=True):
        if d['Class'] == 'ConnectionPoint' and d['Type'] == 'ServicePort':
            peers = [x for l in g.neighbors(n) if g.nodes[l]['Class'] == 'Link'
                     for x in g.neighbors(l) if x != n and g.nodes[x]['Class'] == 'ConnectionPoint']
            if len(peers) != 1:
                bad.append((d['Name'], len(peers)))
    return sorted(bad)


violations = []

# a) the link made by connect_interface
t = ExperimentTopology()
n1 = t.add_node(name='n1', site='RENC')
n2 = t.add_node(name='n2', site='RENC')
i1 = n1.add_component(name='nic1', ctype=ComponentType.SharedNIC, model='ConnectX-6').interface_list[0]
i2 = n2.add_component(name='nic1', ctype=ComponentType.SharedNIC, model='ConnectX-6').interface_list[0]
ns = t.add_network_service(name='br', nstype=ServiceType.L2Bridge, interfaces=[i1, i2])
assert service_ports_without_single_peer(t) == []
print('topology.links:', sorted(t.links.keys()))
t.remove_link('n2-nic1-p1-link')
bad = service_ports_without_single_peer(t)
print("after remove_link('n2-nic1-p1-link'): ServicePorts (name, number of peers) breaking the rule:", bad)
try:
    t.validate()
    print('validate(): ok')
except Exception as e:
    print('validate():', type(e).__name__, '...', str(e)[-45:])
if bad:
    violations.append(f'remove_link left ServicePort(s) {bad} of service br without a peer')
# the interface now looks free, so a second service takes it while br still holds its port
br2 = t.add_network_service(name='br2', nstype=ServiceType.L2Bridge, interfaces=[i2])
print('ports of br :', sorted(i.name for i in t.network_services['br'].interface_list))
print('ports of br2:', sorted(i.name for i in t.network_services['br2'].interface_list))

# b) the link made by peer()
t2 = ExperimentTopology()
a = t2.add_network_service(name='svc-a', nstype=ServiceType.L3VPN)
b = t2.add_network_service(name='svc-b', nstype=ServiceType.L3VPN)
a.peer(b)
assert service_ports_without_single_peer(t2) == []
t2.remove_link('svc-a-svc-b-link')
bad = service_ports_without_single_peer(t2)
print("after peer() and remove_link('svc-a-svc-b-link'): ServicePorts breaking the rule:", bad)
if bad:
    violations.append(f'remove_link left peering ServicePort(s) {bad} without a peer')

for v in violations:
    print('VIOLATION:', v)
sys.exit(1 if violations else 0)
