#!/usr/bin/env python3
"""
C15-D2: None is an accepted field value of Capacities - the setter skips its checks for it
explicitly (`if v is not None: assert ...`), from_json accepts JSON null, and to_json /
to_dict / __str__ treat None like 0 ("unset"). The arithmetic and the comparisons do not:
a + b, a - b, negative_fields() and positive_fields() raise TypeError as soon as one operand
carries a None, a < b / a > b raise unless an earlier field already decided the answer, and
FreeCapacity(total=..., allocated=...) cannot be built.
Only __eq__ copes (and says such a value differs from the all-zero value that prints and
encodes identically).
Exit 1 = violation observed, exit 0 = property held.
"""
import os
import sys

HERE = os.path.dirname(os.path.abspath(__file__))
FIM_ROOT = os.environ.get('FIM_ROOT', os.path.abspath(os.path.join(HERE, '..', '..')))
sys.path.insert(0, FIM_ROOT)
sys.dont_write_bytecode = True

from fim.slivers.capacities_labels import Capacities, FreeCapacity


def attempt(label, f):
    try:
        r = f()
        print(f'  {label:34s} -> {r!r}')
        return True
    except BaseException as e:
        print(f'  {label:34s} -> raises {type(e).__name__}: {e}')
        return False


def main():
    # three accepted ways of obtaining the value
    a = Capacities(core=2, ram=None)
    b = Capacities.from_json('{"core": 2, "ram": null}')
    c = Capacities.update(Capacities(core=2, ram=8), ram=None)
    other = Capacities(core=4, ram=4)
    small = Capacities(core=1, ram=4)
    print('accepted values:', [x.__dict__['ram'] for x in (a, b, c)], '- printed as', str(a), '/', a.to_json())

    results = [
        attempt('a + other', lambda: a + other),
        attempt('other + a', lambda: other + a),
        attempt('other - a', lambda: other - a),
        attempt('a < other', lambda: a < other),
        attempt('other > a', lambda: other > a),
        attempt('a.negative_fields()', lambda: a.negative_fields()),
        attempt("a.positive_fields('ram')", lambda: a.positive_fields('ram')),
        attempt('FreeCapacity(total=other, allocated=a)', lambda: str(FreeCapacity(total=other, allocated=a))),
    ]
    # the comparisons stop at the first deciding field, so whether they raise depends on field order
    attempt('a < small (core decides first)', lambda: a < small)
    same_print = str(Capacities(ram=None)) == str(Capacities()) and Capacities(ram=None).to_json() == Capacities().to_json()
    eq = Capacities(ram=None) == Capacities()
    print(f'  Capacities(ram=None) prints/encodes like Capacities(): {same_print}; equal to it: {eq}')

    if not all(results):
        print('VIOLATION: a value the constructor, update() and from_json() accept makes +, -, <, >, '
              'negative_fields and FreeCapacity raise TypeError instead of working field by field')
        return 1
    print('property held')
    return 0


if __name__ == '__main__':
    sys.exit(main())
