#!/usr/bin/env python3
"""
C05-D1: add_link() over a pair of nodes that is already linked silently changes the
Class (relationship type) of the existing link and keeps its old properties.
update_link_property/update_link_properties/unset_link_property refuse to touch 'Class',
so the intent is that the class of a link cannot change; add_link is the hole.
Exit 1 = violation observed, exit 0 = property held.
"""
import os
import sys

HERE = os.path.dirname(os.path.abspath(__file__))
FIM_ROOT = os.environ.get('FIM_ROOT', os.path.abspath(os.path.join(HERE, '..', '..')))
sys.path.insert(0, FIM_ROOT)
sys.dont_write_bytecode = True

from fim.graph.abc_property_graph import PropertyGraphQueryException
from fim.graph.networkx_property_graph import NetworkXGraphImporter, NetworkXPropertyGraph
from fim.graph.networkx_property_graph_disjoint import NetworkXGraphImporterDisjoint, \
    NetworkXPropertyGraphDisjoint


def scenario(name, importer_cls, graph_cls):
    imp = importer_cls()
    imp.delete_all_graphs()
    g = graph_cls(graph_id='g1', importer=imp)
    g.add_node(node_id='a', label='NetworkNode', props={'Name': 'a', 'Type': 'VM'})
    g.add_node(node_id='b', label='Component', props={'Name': 'b', 'Type': 'NIC'})
    g.add_link(node_a='a', rel='has', node_b='b', props={'since': 'first'})
    before = g.get_link_properties(node_a='a', node_b='b')

    # the guarded way of changing the class of a link is refused ...
    try:
        g.update_link_property(node_a='a', node_b='b', kind='has', prop_name='Class', prop_val='connects')
        guarded = False
    except PropertyGraphQueryException:
        guarded = True

    # ... but adding a second link of another type between the same nodes is accepted
    raised = None
    try:
        g.add_link(node_a='a', rel='connects', node_b='b', props={'other': 'second'})
    except Exception as e:
        raised = e
    after = g.get_link_properties(node_a='a', node_b='b')

    # the 'has' link can no longer be addressed
    try:
        g.update_link_property(node_a='a', node_b='b', kind='has', prop_name='x', prop_val='y')
        has_still_there = True
    except PropertyGraphQueryException:
        has_still_there = False

    print(f'[{name}] update_link_property(Class) refused: {guarded}')
    print(f'[{name}] link a-b before second add_link: {before}')
    print(f'[{name}] second add_link raised: {raised!r}')
    print(f'[{name}] link a-b after  second add_link: {after}')
    print(f'[{name}] link of kind "has" still addressable: {has_still_there}')
    imp.delete_all_graphs()
    # property holds if either the second add_link was refused or the original link is intact
    violated = raised is None and (after[0] != before[0] or not has_still_there)
    return violated


if __name__ == '__main__':
    v1 = scenario('shared', NetworkXGraphImporter, NetworkXPropertyGraph)
    v2 = scenario('disjoint', NetworkXGraphImporterDisjoint, NetworkXPropertyGraphDisjoint)
    if v1 or v2:
        print('VIOLATION: add_link changed the Class of an existing link (and merged stale properties into it)')
        sys.exit(1)
    print('property held')
    sys.exit(0)
