"""
fimsa.flags -- scope of a "something changed" flag: a boolean that is set True inside an inner loop and tested after
that loop must be initialised outside (before) the inner loop; if it is reset inside the inner loop only the last
iteration counts and earlier changes are never written back.  Used by C13 (re-keying) and C14 (merge).
"""
import ast

from .core import norm, loc, walk_no_nested


def check_flag_scope(rep, rule, mod, fq, fn, consequence):
    found = 0
    for outer in [n for n in ast.walk(fn) if isinstance(n, (ast.For, ast.While))] + [fn]:
        body = outer.body
        inner_loops = [n for n in body if isinstance(n, (ast.For, ast.While))]
        for inner in inner_loops:
            pos = body.index(inner)
            # flags set True somewhere inside the inner loop
            set_true = set()
            for n in ast.walk(inner):
                if isinstance(n, ast.Assign) and isinstance(n.value, ast.Constant) and n.value.value is True:
                    for t in n.targets:
                        if isinstance(t, ast.Name):
                            set_true.add(t.id)
            # tested after the inner loop in the same block
            tested = set()
            for st in body[pos + 1:]:
                if isinstance(st, ast.If):
                    for x in ast.walk(st.test):
                        if isinstance(x, ast.Name) and x.id in set_true:
                            tested.add(x.id)
            for flag in sorted(tested):
                found += 1
                resets_inside = [n for n in ast.walk(inner) if isinstance(n, ast.Assign) and isinstance(n.value, ast.Constant)
                                 and n.value.value is False and any(isinstance(t, ast.Name) and t.id == flag for t in n.targets)]
                init_before = [n for n in body[:pos] if isinstance(n, ast.Assign) and isinstance(n.value, ast.Constant)
                               and n.value.value is False and any(isinstance(t, ast.Name) and t.id == flag for t in n.targets)]
                rep.instance(rule, f'{fq}: flag {flag}: initialised before the inner loop={bool(init_before)}, reset inside={len(resets_inside)}')
                if resets_inside:
                    rep.violation(rule, loc(mod, resets_inside[0]), fq, f'{flag} reset inside the loop over {norm(inner.iter, 60) if isinstance(inner, ast.For) else "while"}',
                                  f'the flag {flag} is reset on every iteration of the inner loop, so it only reflects the last '
                                  f'iteration: {consequence}')
                elif not init_before:
                    rep.violation(rule, loc(mod, inner), fq, f'{flag} not initialised before the loop',
                                  f'the flag {flag} is not initialised to False before the inner loop of each outer iteration: '
                                  f'{consequence}')
    return found
