"""
fimsa.fieldwise -- normal forms for methods that work field by field over ``<obj>.__dict__``.

A method is brought to one of three forms, whatever its spelling (loop / comprehension / any() / all() / helper function /
temporaries / key iteration / items() iteration / operator.add):

  map     R = fresh();  for every field f of <obj>:  R.f = E(f);  return R
  forall  return True iff for no field f (of <obj> or of a given name list):  V(f)
  collect return [f for every field f of <obj> if C(f)]

with E, V, C normalised: ``<x>.__dict__[f]`` (or the items() value variable) becomes the symbol ``X_f`` (X = SELF / OTHER /
the parameter name), ``<x>.__dict__.get(f, d)`` and ``<x>.__dict__[f] if f in <x>.__dict__ else d`` become ``dflt(X_f, d)``,
``operator.add(a, b)`` becomes ``a + b``; comparisons are canonicalised (mirrored).
"""
import ast

from .core import walk_no_nested, call_name, func_params
from .normalize import inline, local_env, expand, canon, ctext, clone, comp_builder, builders, _enclosing, negate


class NotFieldwise(Exception):
    pass


def _dict_owner(e, env):
    """name of the object whose __dict__ the expression denotes (after alias expansion), else None"""
    e = expand(e, env) if env else e
    if isinstance(e, ast.Attribute) and e.attr == '__dict__' and isinstance(e.value, ast.Name):
        return e.value.id
    if isinstance(e, ast.Call) and isinstance(e.func, ast.Name) and e.func.id == 'vars' and len(e.args) == 1 and isinstance(e.args[0], ast.Name):
        return e.args[0].id
    return None


class FieldGen:
    def __init__(self, owner, fvar, vvar, node, over_names=None):
        self.owner = owner          # object whose fields are ranged over (None when ranging over a list of names)
        self.fvar = fvar
        self.vvar = vvar
        self.node = node
        self.over_names = over_names


def field_gen(target, it, env):
    """FieldGen for ``for <target> in <it>`` ranging over the fields of an object, or None"""
    src = it
    if isinstance(src, ast.Call) and isinstance(src.func, ast.Name) and src.func.id in ('list', 'tuple', 'sorted') and len(src.args) == 1:
        src = src.args[0]
    mode = 'keys'
    if isinstance(src, ast.Call) and isinstance(src.func, ast.Attribute) and src.func.attr in ('items', 'keys') and not src.args:
        mode = src.func.attr
        src = src.func.value
    owner = _dict_owner(src, env)
    if owner is None:
        return None
    if mode == 'items':
        if isinstance(target, ast.Tuple) and len(target.elts) == 2 and all(isinstance(e, ast.Name) for e in target.elts):
            return FieldGen(owner, target.elts[0].id, target.elts[1].id, it)
        return None
    if isinstance(target, ast.Name):
        return FieldGen(owner, target.id, None, it)
    return None


def _sym(owner):
    return {'self': 'SELF', 'other': 'OTHER'}.get(owner, owner.upper())


class _Norm(ast.NodeTransformer):
    def __init__(self, gen, env):
        self.gen = gen
        self.env = env

    def _field_of(self, e):
        """(owner) if e denotes <owner>.__dict__[<fvar>]"""
        if isinstance(e, ast.Subscript) and isinstance(e.slice, ast.Name) and e.slice.id == self.gen.fvar:
            return _dict_owner(e.value, self.env)
        return None

    def visit_Name(self, node):
        if self.gen.vvar and node.id == self.gen.vvar and isinstance(node.ctx, ast.Load) and self.gen.owner:
            return ast.Name(id=f'{_sym(self.gen.owner)}_f', ctx=ast.Load())
        return node

    def visit_Subscript(self, node):
        o = self._field_of(node)
        if o is not None:
            return ast.Name(id=f'{_sym(o)}_f', ctx=ast.Load())
        return self.generic_visit(node)

    def visit_Call(self, node):
        # <x>.__dict__.get(f, d)
        if isinstance(node.func, ast.Attribute) and node.func.attr == 'get' and node.args and isinstance(node.args[0], ast.Name) and \
                node.args[0].id == self.gen.fvar:
            o = _dict_owner(node.func.value, self.env)
            if o is not None:
                d = node.args[1] if len(node.args) > 1 else ast.Constant(value=None)
                return ast.Call(func=ast.Name(id='dflt', ctx=ast.Load()), args=[ast.Name(id=f'{_sym(o)}_f', ctx=ast.Load()), d], keywords=[])
        # getattr(x, f) / getattr(x, f, d)
        if isinstance(node.func, ast.Name) and node.func.id == 'getattr' and len(node.args) in (2, 3) and isinstance(node.args[0], ast.Name) and \
                isinstance(node.args[1], ast.Name) and node.args[1].id == self.gen.fvar:
            s = ast.Name(id=f'{_sym(node.args[0].id)}_f', ctx=ast.Load())
            if len(node.args) == 3:
                return ast.Call(func=ast.Name(id='dflt', ctx=ast.Load()), args=[s, node.args[2]], keywords=[])
            return s
        # operator.add(a, b) ...
        ops = {'add': ast.Add, 'sub': ast.Sub, 'lt': ast.Lt, 'gt': ast.Gt, 'le': ast.LtE, 'ge': ast.GtE, 'eq': ast.Eq, 'ne': ast.NotEq}
        if isinstance(node.func, ast.Attribute) and isinstance(node.func.value, ast.Name) and node.func.value.id == 'operator' and \
                node.func.attr in ops and len(node.args) == 2:
            a, b = self.visit(node.args[0]), self.visit(node.args[1])
            if node.func.attr in ('add', 'sub'):
                return ast.BinOp(left=a, op=ops[node.func.attr](), right=b)
            return ast.Compare(left=a, ops=[ops[node.func.attr]()], comparators=[b])
        return self.generic_visit(node)

    def visit_IfExp(self, node):
        # <x>.__dict__[f] if f in <x>.__dict__ else d
        t = canon(node.test)
        if isinstance(t, ast.Compare) and len(t.ops) == 1 and isinstance(t.ops[0], (ast.In, ast.NotIn)) and isinstance(t.left, ast.Name) and \
                t.left.id == self.gen.fvar:
            o = _dict_owner(t.comparators[0], self.env)
            present, absent = (node.body, node.orelse) if isinstance(t.ops[0], ast.In) else (node.orelse, node.body)
            if o is not None and self._field_of(present) == o:
                return ast.Call(func=ast.Name(id='dflt', ctx=ast.Load()), args=[ast.Name(id=f'{_sym(o)}_f', ctx=ast.Load()), self.visit(absent)], keywords=[])
        return self.generic_visit(node)


def norm_expr(e, gen, env):
    """canonical text of a per-field expression"""
    e = expand(e, {k: v for k, v in (env or {}).items() if k not in (gen.fvar, gen.vvar)})
    e = _Norm(gen, env).visit(clone(e))
    return ctext(ast.fix_missing_locations(e))


def _gen_of_comp(comp, env):
    if len(comp.generators) != 1:
        return None, None
    g = comp.generators[0]
    fg = field_gen(g.target, g.iter, env)
    return fg, g


def prepared(prog, cls, fn0):
    fn = inline(prog, cls, fn0)
    return fn, local_env(fn)


def map_form(prog, cls, fn0):
    """dict(gen, expr, result, fresh_call, returned, extra_conds, stores) for a point-wise lift, or raises NotFieldwise"""
    fn, env = prepared(prog, cls, fn0)
    stores = []
    for n in walk_no_nested(fn):
        if isinstance(n, (ast.Assign, ast.AugAssign)):
            t = n.targets[0] if isinstance(n, ast.Assign) else n.target
            if isinstance(t, ast.Subscript) and _dict_owner(t.value, None) is not None:
                stores.append(n)
        if isinstance(n, ast.Call) and isinstance(n.func, ast.Name) and n.func.id == 'setattr' and len(n.args) == 3 and isinstance(n.args[0], ast.Name):
            stores.append(n)
    if not stores:
        raise NotFieldwise('no per-field store found')
    out = []
    for st in stores:
        if isinstance(st, ast.Call):
            robj, key, value, aug = st.args[0].id, st.args[1], st.args[2], None
        else:
            t = st.targets[0] if isinstance(st, ast.Assign) else st.target
            robj, key, value = _dict_owner(t.value, None), t.slice, st.value
            aug = st.op if isinstance(st, ast.AugAssign) else None
        gens, conds = _enclosing(st, fn)
        fg = field_gen(gens[-1][0], gens[-1][1], env) if gens else None
        out.append({'stmt': st, 'result': robj, 'key': key, 'value': value, 'aug': aug, 'gen': fg, 'conds': conds, 'gens': gens})
    # the result object and how it was made
    rets = [r for r in walk_no_nested(fn) if isinstance(r, ast.Return) and r.value is not None]
    made = {}
    for n in walk_no_nested(fn):
        if isinstance(n, ast.Assign) and len(n.targets) == 1 and isinstance(n.targets[0], ast.Name) and isinstance(n.value, ast.Call) and \
                isinstance(n.value.func, ast.Name) and n.value.func.id[:1].isupper():
            made[n.targets[0].id] = n.value
    return {'fn': fn, 'env': env, 'stores': out, 'returns': rets, 'made': made}


def forall_form(prog, cls, fn0):
    """(gen or ('names', expr), violating-predicate text, node): the method returns True iff no field satisfies the predicate"""
    fn, env = prepared(prog, cls, fn0)
    body = [s for s in fn.body if not (isinstance(s, ast.Expr) and isinstance(s.value, ast.Constant))]
    # (b)/(c): return not any(gen) / return all(gen)
    for r in walk_no_nested(fn):
        if isinstance(r, ast.Return) and r.value is not None:
            v = canon(expand(r.value, env))
            neg = False
            if isinstance(v, ast.UnaryOp) and isinstance(v.op, ast.Not):
                neg, v = True, v.operand
            if isinstance(v, ast.Call) and isinstance(v.func, ast.Name) and v.func.id in ('any', 'all') and len(v.args) == 1 and \
                    isinstance(v.args[0], (ast.GeneratorExp, ast.ListComp)):
                comp = v.args[0]
                fg, g = _gen_of_comp(comp, env)
                elt = comp.elt
                for c in (g.ifs if g is not None else []):
                    elt = ast.BoolOp(op=ast.And(), values=[c, elt]) if v.func.id == 'any' else ast.BoolOp(op=ast.Or(), values=[ast.UnaryOp(op=ast.Not(), operand=c), elt])
                if v.func.id == 'any' and neg:
                    viol = elt
                elif v.func.id == 'all' and not neg:
                    viol = negate(elt)
                else:
                    continue
                if fg is None and g is not None and isinstance(g.target, ast.Name):
                    fg = FieldGen(None, g.target.id, None, g.iter, over_names=g.iter)
                if fg is None:
                    raise NotFieldwise('generator does not range over fields')
                return fg, viol, r, env
    # (a) loop with `if V: return False` ... `return True`
    last = body[-1] if body else None
    if not (isinstance(last, ast.Return) and isinstance(last.value, ast.Constant) and last.value.value is True):
        raise NotFieldwise('does not end with return True')
    for l in walk_no_nested(fn):
        if not isinstance(l, ast.For):
            continue
        fg = field_gen(l.target, l.iter, env)
        if fg is None and isinstance(l.target, ast.Name):
            fg = FieldGen(None, l.target.id, None, l.iter, over_names=l.iter)
        falses = [r for r in ast.walk(l) if isinstance(r, ast.Return) and isinstance(r.value, ast.Constant) and r.value.value is False]
        if fg is None or not falses:
            continue
        lenv = {k: v for k, v in local_env(l).items() if k not in env}
        viols = []
        for r in falses:
            _, conds = _enclosing(r, l)
            if not conds:
                raise NotFieldwise('unconditional return False in the field loop')
            c = conds[0] if len(conds) == 1 else ast.BoolOp(op=ast.And(), values=list(conds))
            viols.append(expand(c, lenv))
        viol = viols[0] if len(viols) == 1 else ast.BoolOp(op=ast.Or(), values=viols)
        other_exits = [x for x in ast.walk(l) if isinstance(x, (ast.Break, ast.Continue)) or (isinstance(x, ast.Return) and x not in falses)]
        if other_exits:
            raise NotFieldwise('field loop has other exits')
        return fg, viol, l, env
    raise NotFieldwise('no field loop with `return False`')


def collect_form(prog, cls, fn0):
    """(gen, element text, [condition texts], node) for a method returning the list of fields satisfying a condition"""
    fn, env = prepared(prog, cls, fn0)
    rets = [r for r in walk_no_nested(fn) if isinstance(r, ast.Return) and r.value is not None]
    if not rets:
        raise NotFieldwise('no return')
    v = rets[-1].value
    b = None
    inner = v
    while isinstance(inner, ast.Call) and isinstance(inner.func, ast.Name) and inner.func.id in ('list', 'sorted', 'tuple') and len(inner.args) == 1:
        inner = inner.args[0]
    cb = comp_builder('_', inner)
    if cb is not None:
        b = cb
    elif isinstance(v, ast.Name):
        bl = builders(fn).get(v.id, [])
        if len(bl) == 1:
            b = bl[0]
    if b is None or len(b.gens) != 1:
        raise NotFieldwise('returned collection is not built by one generator')
    fg = field_gen(b.gens[0][0], b.gens[0][1], env)
    if fg is None:
        raise NotFieldwise(f'the collection is not built from the fields of an object but from {ast.unparse(b.gens[0][1])}')
    return fg, norm_expr(b.elt, fg, env), sorted(norm_expr(c, fg, env) for c in b.conds), b.node, env
