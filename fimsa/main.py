"""
fimsa.main -- command line driver:  check <Cxx> [--tier quick|thorough] [--root DIR] [--explain FILE]

exit 0  property's claimed clauses hold on everything analysed (known findings are printed, not failed)
exit 1  VIOLATION property=<id> replay=<file>   (a violation that known_findings.jsonl does not list)
exit 2  ANALYSIS-ERROR (anchor vanished, unrecognised idiom, floor not met, crash) -- never a verdict
"""
import argparse
import glob
import importlib
import json
import os
import re
import sys
import time
import traceback

from .core import Program, AnalysisError
from .report import Reporter, VERIF_DIR, load_known

EVIDENCE_DIR = os.path.join(VERIF_DIR, 'evidence')


def analyse(prop, root, tier='quick', seed=0, overlay=None, quiet=True):
    """Run the rules of one property on a tree (+overlay). Returns (reporter, new, known, stale)."""
    prog = Program(root, overlay=overlay)
    rep = Reporter(prop, tier=tier, seed=seed, quiet=quiet)
    nfun = sum(1 for _ in prog.all_functions())
    rep.program_stats = {'modules': len(prog.modules), 'classes': sum(len(v) for v in prog.class_by_simple.values()),
                         'functions': nfun, 'root': prog.root}
    mod = importlib.import_module('fimsa.props.' + prop.lower())
    mod.run(prog, rep)
    new, known, stale = rep.classify()
    try:
        rep.check_floors()
    except AnalysisError as e:
        # a rule that matched fewer instances than confirmed by reading is an analysis problem -- unless concrete
        # violations were found as well, which are reported (they are real whatever else moved)
        if not new:
            raise
        rep.note(f'floor not met: {e}')
    return rep, new, known, stale


# ---------------------------------------------------------------------------
# self test (thorough tier): mutants, twins, seeded changes -- never affects the exit code
# ---------------------------------------------------------------------------

def apply_unified_diff(root, diff_text):
    """Apply a unified diff (git diff output) in memory. Returns {relpath: new_text} or raises ValueError."""
    files = {}
    cur = None
    hunks = []
    lines = diff_text.splitlines()
    i = 0
    while i < len(lines):
        ln = lines[i]
        if ln.startswith('+++ '):
            path = ln[4:].strip()
            if path.startswith('b/'):
                path = path[2:]
            cur = path
            files[cur] = []
        elif ln.startswith('@@') and cur is not None:
            m = re.match(r'@@ -(\d+)(?:,(\d+))? \+(\d+)(?:,(\d+))? @@', ln)
            if not m:
                raise ValueError('bad hunk header')
            old_start = int(m.group(1))
            h = {'old_start': old_start, 'lines': []}
            i += 1
            while i < len(lines) and not lines[i].startswith(('@@', 'diff --git', '--- ', '+++ ')):
                if lines[i].startswith('\\'):
                    i += 1
                    continue
                h['lines'].append(lines[i])
                i += 1
            files[cur].append(h)
            continue
        i += 1
    out = {}
    for path, hs in files.items():
        if path == '/dev/null':
            continue
        full = os.path.join(root, path)
        if not os.path.exists(full):
            raise ValueError(f'{path} missing')
        with open(full, encoding='utf-8') as f:
            src = f.read().split('\n')
        offset = 0

        def locate(old, start):
            for delta in sorted(range(-400, 401), key=abs):
                s_ = start + delta
                if s_ < 0 or s_ + len(old) > len(src):
                    continue
                if src[s_:s_ + len(old)] == old:
                    return s_
            return None

        def apply_block(tagged, start):
            """tagged: [(tag, body)]; returns the delta in line count, or None when the block cannot be placed"""
            old = [b for t, b in tagged if t in (' ', '-')]
            new = [b for t, b in tagged if t in (' ', '+')]
            if not old:
                return None
            found = locate(old, start)
            if found is None:
                return None
            src[found:found + len(old)] = new
            return len(new) - len(old), found + len(new)
        for h in hs:
            tagged = []
            for l in h['lines']:
                tag, body = (l[:1], l[1:]) if l else (' ', '')
                tagged.append((tag if tag in (' ', '-', '+') else ' ', body))
            start = h['old_start'] - 1 + offset
            r = apply_block(tagged, start)
            if r is None:
                # like patch(1): retry with less context (the surroundings were edited since the patch was made): split the hunk
                # into its change groups, each with at most two lines of context on either side
                groups = []
                i2 = 0
                n2 = len(tagged)
                while i2 < n2:
                    if tagged[i2][0] == ' ':
                        i2 += 1
                        continue
                    j2 = i2
                    while j2 < n2 and tagged[j2][0] != ' ':
                        j2 += 1
                    lo = max(0, i2 - 2)
                    while lo < i2 and tagged[lo][0] != ' ':
                        lo += 1
                    hi = min(n2, j2 + 2)
                    groups.append((lo, i2, j2, hi))
                    i2 = j2
                ok_all = True
                pos = start
                for lo, a_, b_, hi in groups:
                    done = None
                    for ctx_lo, ctx_hi in ((lo, hi), (max(lo, a_ - 1), min(hi, b_ + 1)), (a_, min(hi, b_ + 1)), (max(lo, a_ - 1), b_), (a_, b_)):
                        blk = tagged[ctx_lo:ctx_hi]
                        if not any(t in (' ', '-') for t, _ in blk):
                            continue
                        done = apply_block(blk, pos)
                        if done is not None:
                            break
                    if done is None:
                        ok_all = False
                        break
                    offset += done[0]
                    pos = done[1]
                if not ok_all:
                    raise ValueError(f'hunk does not apply to {path}')
                continue
            offset += r[0]
        out[path] = '\n'.join(src)
    return out


def _variant_job(args):
    prop, root, name, overlay, expect_rule, kind = args
    t0 = time.time()
    try:
        for rel, text in overlay.items():
            if rel.endswith('.py'):
                compile(text, rel, 'exec')
        rep, new, known, stale = analyse(prop, root, overlay=overlay)
        rules = sorted({v.rule for v in new})
        res = {'name': name, 'kind': kind, 'new_violations': len(new), 'rules': rules,
               'first': new[0].as_dict() if new else None}
        if kind == 'twin':
            res['outcome'] = 'silent' if not new else 'FALSE-ALARM'
        else:
            if not new:
                res['outcome'] = 'missed'
            elif expect_rule and expect_rule not in rules:
                res['outcome'] = 'detected-by-other-rule'
            else:
                res['outcome'] = 'detected'
    except AnalysisError as e:
        res = {'name': name, 'kind': kind, 'outcome': 'analysis-error' if kind != 'twin' else 'ANALYSIS-ERROR-ON-TWIN',
               'error': str(e)}
    except SyntaxError as e:
        res = {'name': name, 'kind': kind, 'outcome': 'skipped', 'error': f'variant does not compile: {e}'}
    except Exception as e:  # pragma: no cover
        res = {'name': name, 'kind': kind, 'outcome': 'crash', 'error': f'{type(e).__name__}: {e}'}
    res['wall_s'] = round(time.time() - t0, 2)
    return res


def run_selftest(prop, root, mod, jobs=16):
    variants = []
    skipped = []

    def text_variant(spec, kind):
        rel = spec['file']
        full = os.path.join(root, rel)
        if not os.path.exists(full):
            skipped.append({'name': spec['name'], 'kind': kind, 'outcome': 'skipped', 'error': 'file vanished'})
            return
        with open(full, encoding='utf-8') as f:
            src = f.read()
        cnt = src.count(spec['find'])
        want = spec.get('count', 1)
        if cnt != want:
            skipped.append({'name': spec['name'], 'kind': kind, 'outcome': 'skipped',
                            'error': f'anchor text occurs {cnt}x (expected {want}) in {rel}'})
            return
        variants.append((prop, root, spec['name'], {rel: src.replace(spec['find'], spec['replace'])},
                         spec.get('rule'), kind))

    for spec in getattr(mod, 'MUTANTS', []):
        text_variant(spec, 'mutant')
    for spec in getattr(mod, 'TWINS', []):
        text_variant(spec, 'twin')
    for d in sorted(glob.glob(os.path.join(VERIF_DIR, 'seeded', prop + '*'))):
        pf = os.path.join(d, 'patch.diff')
        if not os.path.exists(pf):
            continue
        meta = {}
        mf = os.path.join(d, 'meta.json')
        if os.path.exists(mf):
            with open(mf) as f:
                meta = json.load(f)
        try:
            with open(pf, encoding='utf-8') as f:
                overlay = apply_unified_diff(root, f.read())
        except ValueError as e:
            skipped.append({'name': os.path.basename(d), 'kind': 'seeded', 'outcome': 'skipped', 'error': str(e)})
            continue
        variants.append((prop, root, os.path.basename(d), overlay, None, 'seeded'))
    # every recorded behaviour-preserving refactoring is a twin for every property (a refactoring made with one property in
    # mind may sit on code another property's rules read)
    for d in sorted(glob.glob(os.path.join(VERIF_DIR, 'refactors', 'C*-*'))):
        pf = os.path.join(d, 'patch.diff')
        if not os.path.exists(pf):
            continue
        try:
            with open(pf, encoding='utf-8') as f:
                overlay = apply_unified_diff(root, f.read())
        except ValueError as e:
            skipped.append({'name': 'refactor ' + os.path.basename(d), 'kind': 'twin', 'outcome': 'skipped', 'error': str(e)})
            continue
        variants.append((prop, root, 'refactor ' + os.path.basename(d), overlay, None, 'twin'))
    # mechanical whole-tree rewrites (fimsa.metamorph): twins for every property; and every mutant / seeded change once more
    # under three of the rewrites - detection must not depend on names, polarity of tests, temporaries or method order
    try:
        from . import metamorph
        mm = metamorph.overlays(root)
        broken = [v for v in variants if v[5] in ('mutant', 'seeded')]
        for name, overlay in mm.items():
            variants.append((prop, root, 'metamorph ' + name, overlay, None, 'twin'))
        for tname in ('rename-locals', 'combo', 'combo2'):
            for v in broken:
                variants.append((prop, root, f'{v[2]} + {tname}', metamorph.transform_overlay(root, v[3], tname, base=mm[tname]), None, v[5]))
    except Exception as e:  # pragma: no cover
        skipped.append({'name': 'metamorph', 'kind': 'twin', 'outcome': 'skipped', 'error': f'{type(e).__name__}: {e}'})
    results = []
    if variants:
        try:
            import multiprocessing as mp
            with mp.get_context('fork').Pool(min(jobs, len(variants))) as pool:
                results = pool.map(_variant_job, variants)
        except Exception:
            results = [_variant_job(v) for v in variants]
    results += skipped
    summary = {}
    for r in results:
        summary[r['outcome']] = summary.get(r['outcome'], 0) + 1
    return {'variants': len(results), 'summary': summary, 'results': results}


# ---------------------------------------------------------------------------

def main(argv=None):
    ap = argparse.ArgumentParser(prog='check')
    ap.add_argument('prop')
    ap.add_argument('--tier', default=os.environ.get('VERIF_TIER', 'quick'), choices=['quick', 'thorough'])
    ap.add_argument('--root', default=os.environ.get('FIMSA_ROOT', '/repo'))
    ap.add_argument('--explain', default=None)
    ap.add_argument('--jobs', type=int, default=16)
    ap.add_argument('--no-evidence', action='store_true')
    args = ap.parse_args(argv)
    prop = args.prop.upper()
    try:
        seed = int(os.environ.get('VERIF_SEED', '0'))
    except ValueError:
        seed = 0

    if args.explain:
        with open(args.explain) as f:
            data = json.load(f)
        for v in data.get('violations', []):
            print(f"[{v['rule']}] {v['where']} in {v['function']}\n    construct: {v['construct']}\n    {v['message']}")
            if v.get('witness'):
                print(f"    witness: {v['witness']}")
        return 0

    os.makedirs(EVIDENCE_DIR, exist_ok=True)
    ev_path = os.path.join(EVIDENCE_DIR, f'{prop}.json')
    viol_path = os.path.join(EVIDENCE_DIR, f'{prop}.violations.json')
    try:
        rep, new, known, stale = analyse(prop, args.root, tier=args.tier, seed=seed)
        selftest = None
        if args.tier == 'thorough':
            mod = importlib.import_module('fimsa.props.' + prop.lower())
            if hasattr(mod, 'thorough'):
                prog = Program(args.root)
                mod.thorough(prog, rep)
                new, known, stale = rep.classify()
            selftest = run_selftest(prop, args.root, mod, jobs=args.jobs)
        ev = rep.evidence(new, known, stale, selftest)
        if not args.no_evidence:
            with open(ev_path, 'w') as f:
                json.dump(ev, f, indent=1, default=str)
        total = ev['coverage']['evaluations']
        print(f'{prop} [{args.tier}] analysed {rep.program_stats["modules"]} modules, '
              f'{rep.program_stats["functions"]} functions; {total} rule instances over {len(rep.instances)} rules '
              f'in {ev["wall_s"]}s')
        for rule, info in ev['coverage']['per_rule'].items():
            print(f'  {rule}: {info["instances"]} instance(s)' + (f' (floor {info["floor"]})' if info['floor'] else ''))
        for n in rep.notes:
            print(f'  note: {n}')
        for v in known:
            print(f'KNOWN-FINDING: property={prop} {v.known.get("what")} [{v.rule} @ {v.where}]')
        for k in stale:
            print(f'WARNING: listed known finding not reproduced on this tree: {k.get("what")}')
        if selftest is not None:
            print(f'  selftest: {selftest["variants"]} variants {selftest["summary"]}')
            for r in selftest['results']:
                if r['outcome'] in ('missed', 'FALSE-ALARM', 'ANALYSIS-ERROR-ON-TWIN', 'crash'):
                    print(f'SELFTEST-WARNING: {r["kind"]} {r["name"]}: {r["outcome"]} {r.get("error", "")}')
        if new:
            with open(viol_path, 'w') as f:
                json.dump({'property': prop, 'violations': [v.as_dict() for v in new]}, f, indent=1)
            for v in new:
                print(f'  violation [{v.rule}] {v.where} {v.function}: {v.message}\n      construct: {v.construct}')
            print(f'VIOLATION property={prop} replay={viol_path}')
            return 1
        if os.path.exists(viol_path):
            os.remove(viol_path)
        print(f'{prop}: OK')
        return 0
    except AnalysisError as e:
        print(f'ANALYSIS-ERROR property={prop}: {e}')
        return 2
    except Exception as e:
        traceback.print_exc()
        print(f'ANALYSIS-ERROR property={prop}: internal error {type(e).__name__}: {e}')
        return 2


if __name__ == '__main__':
    sys.exit(main())
