"""
fimsa.codecs -- agreement between the hand-written to_json / from_json of a codec class:
the JSON keys written equal the keys read, and a key the reader compares against string tokens is written
through str().  Shared by C02 (rows that use these codecs) and C03.
"""
import ast

from .core import AnalysisError, norm, loc

DICT_CODECS = ['fim.slivers.path_info:PathInfo', 'fim.slivers.path_info:ERO']


def _keys_written(fn):
    out = {}
    for n in ast.walk(fn):
        if isinstance(n, ast.Assign) and len(n.targets) == 1 and isinstance(n.targets[0], ast.Subscript) and \
                isinstance(n.targets[0].slice, ast.Constant) and isinstance(n.targets[0].slice.value, str) and \
                isinstance(n.targets[0].value, ast.Name):
            out[n.targets[0].slice.value] = n
    return out


def _keys_read(fn):
    out = {}
    for n in ast.walk(fn):
        key = None
        if isinstance(n, ast.Call) and isinstance(n.func, ast.Attribute) and n.func.attr == 'get' and n.args and \
                isinstance(n.args[0], ast.Constant) and isinstance(n.args[0].value, str) and \
                isinstance(n.func.value, ast.Name) and n.func.value.id == 'd':
            key = n.args[0].value
        elif isinstance(n, ast.Subscript) and isinstance(n.value, ast.Name) and n.value.id == 'd' and \
                isinstance(n.slice, ast.Constant) and isinstance(n.slice.value, str) and isinstance(n.ctx, ast.Load):
            key = n.slice.value
        if key is not None:
            out.setdefault(key, []).append(n)
    return out


def check_dict_codecs(prog, rep, rule):
    for spec in DICT_CODECS:
        cls = prog.cls(spec)
        tj = cls.methods.get('to_json')
        fj = cls.methods.get('from_json')
        if tj is None or fj is None:
            raise AnalysisError(f'{cls.qual}: to_json/from_json pair vanished')
        w = _keys_written(tj)
        r = _keys_read(fj)
        fq = f'{cls.name}.to_json/from_json'
        rep.instance(rule, f'{cls.name}: keys written {sorted(w)} read {sorted(r)}')
        for k in sorted(set(w) - set(r)):
            rep.violation(rule, loc(cls.module, w[k]), f'{cls.name}.from_json', f'key {k!r} written, never read',
                          f'{cls.name}.to_json writes key {k!r} but from_json never reads it: the field is lost on decode')
        for k in sorted(set(r) - set(w)):
            rep.violation(rule, loc(cls.module, r[k][0]), f'{cls.name}.to_json', f'key {k!r} read, never written',
                          f'{cls.name}.from_json reads key {k!r} that to_json never writes')
        # representation: reader compares against string tokens => writer must emit str(...)
        for k, nodes in r.items():
            if k not in w:
                continue
            expects_str = False
            for n in nodes:
                p = getattr(n, '_parent', None)
                if isinstance(p, ast.Compare) and p.left is n and isinstance(p.ops[0], (ast.In, ast.Eq)):
                    comp = p.comparators[0]
                    consts = [c for c in ast.walk(comp) if isinstance(c, ast.Constant)]
                    if consts and all(isinstance(c.value, str) for c in consts):
                        expects_str = True
                elif isinstance(p, ast.Call) and isinstance(p.func, ast.Attribute) and \
                        p.func.attr in ('type_from_str', 'from_string'):
                    expects_str = True
            if expects_str:
                val = w[k].value
                is_str = isinstance(val, ast.Call) and isinstance(val.func, ast.Name) and val.func.id == 'str'
                is_str = is_str or (isinstance(val, ast.Constant) and isinstance(val.value, str)) or \
                    isinstance(val, ast.JoinedStr)
                rep.instance(rule, f'{cls.name}: key {k!r} reader expects string tokens, writer emits {norm(val, 50)}')
                if not is_str:
                    rep.violation(rule, loc(cls.module, w[k]), f'{cls.name}.to_json',
                                  f'key {k!r} written as {norm(val, 50)} but read as string token',
                                  f'{cls.name}.from_json interprets key {k!r} by comparing with string tokens, but '
                                  f'to_json writes {norm(val, 50)} (not a string): the value does not survive a round trip')
