"""
fimsa.codecs -- agreement between the hand-written to_json / from_json of a codec class:
the JSON keys written equal the keys read, and a key the reader compares against string tokens is written
through str().  Shared by C02 (rows that use these codecs) and C03.
"""
import ast

from .core import AnalysisError, norm, loc, walk_no_nested, call_name
from .normalize import inline, canon

DICT_CODECS = ['fim.slivers.path_info:PathInfo', 'fim.slivers.path_info:ERO']


def _keys_written(fn):
    """key -> node carrying the value (``X['k'] = v`` statements and ``{'k': v}`` literals of the encoder)"""
    out = {}
    for n in ast.walk(fn):
        if isinstance(n, ast.Assign) and len(n.targets) == 1 and isinstance(n.targets[0], ast.Subscript) and \
                isinstance(n.targets[0].slice, ast.Constant) and isinstance(n.targets[0].slice.value, str) and \
                isinstance(n.targets[0].value, ast.Name):
            out[n.targets[0].slice.value] = (n, n.value)
        elif isinstance(n, ast.Dict):
            for k, v in zip(n.keys, n.values):
                if isinstance(k, ast.Constant) and isinstance(k.value, str):
                    out[k.value] = (k, v)
        elif isinstance(n, ast.Call) and isinstance(n.func, ast.Name) and n.func.id == 'dict':
            for k in n.keywords:
                if k.arg:
                    out[k.arg] = (k.value, k.value)
    return out


def _decoded_names(fn):
    """locals holding the decoded JSON dictionary (assigned from an expression that calls json.loads)"""
    names = set()
    for n in walk_no_nested(fn):
        if isinstance(n, ast.Assign) and any(isinstance(c, ast.Call) and call_name(c) in ('loads', 'load') for c in ast.walk(n.value)):
            for t in n.targets:
                if isinstance(t, ast.Name):
                    names.add(t.id)
    return names


def _keys_read(fn):
    out = {}
    dnames = _decoded_names(fn)
    for n in ast.walk(fn):
        key = None
        if isinstance(n, ast.Call) and isinstance(n.func, ast.Attribute) and n.func.attr in ('get', 'pop') and n.args and \
                isinstance(n.args[0], ast.Constant) and isinstance(n.args[0].value, str) and \
                isinstance(n.func.value, ast.Name) and n.func.value.id in dnames:
            key = n.args[0].value
        elif isinstance(n, ast.Subscript) and isinstance(n.value, ast.Name) and n.value.id in dnames and \
                isinstance(n.slice, ast.Constant) and isinstance(n.slice.value, str) and isinstance(n.ctx, ast.Load):
            key = n.slice.value
        if key is not None:
            out.setdefault(key, []).append(n)
    return out


def _value_positions(e):
    """sub-expressions that contribute to the *value* of e (the test of a conditional expression only selects)"""
    yield e
    for f, v in ast.iter_fields(e):
        if isinstance(e, ast.IfExp) and f == 'test':
            continue
        if isinstance(v, ast.AST):
            yield from _value_positions(v)
        elif isinstance(v, list):
            for x in v:
                if isinstance(x, ast.AST):
                    yield from _value_positions(x)


def _stored_keys(fn, reads):
    """keys whose decoded value flows into the state of the object that is built (constructor argument or attribute store)"""
    stored = set()
    for key, nodes in reads.items():
        tainted = set()
        changed = True

        def carries(expr, value_only):
            it = _value_positions(canon(expr)) if value_only else ast.walk(expr)
            for x in it:
                if isinstance(x, ast.Name) and x.id in tainted:
                    return True
                if any(ast.dump(x) == ast.dump(n) for n in nodes):
                    return True
            return False
        while changed:
            changed = False
            for st in walk_no_nested(fn):
                if isinstance(st, ast.Assign) and carries(st.value, True):
                    for t in st.targets:
                        if isinstance(t, ast.Name) and t.id not in tainted:
                            tainted.add(t.id)
                            changed = True
        for st in walk_no_nested(fn):
            if isinstance(st, ast.Assign) and any(isinstance(t, ast.Attribute) for t in st.targets) and carries(st.value, True):
                stored.add(key)
            if isinstance(st, ast.Call) and isinstance(st.func, ast.Name) and (st.func.id == 'cls' or st.func.id[:1].isupper()) and \
                    any(carries(a, True) for a in list(st.args) + [k.value for k in st.keywords]):
                stored.add(key)
            if isinstance(st, ast.Call) and isinstance(st.func, ast.Name) and st.func.id == 'setattr' and len(st.args) == 3 and carries(st.args[2], True):
                stored.add(key)
            if isinstance(st, ast.Call) and isinstance(st.func, ast.Attribute) and st.func.attr.startswith('set_') and \
                    any(carries(a, True) for a in list(st.args) + [k.value for k in st.keywords]):
                stored.add(key)
    return stored


def _is_bool_field(cls, e):
    """``self.f`` where some __init__ of the class or its bases sets ``self.f`` to a bool constant"""
    if not (isinstance(e, ast.Attribute) and isinstance(e.value, ast.Name) and e.value.id == 'self'):
        return False
    for k in cls.mro():
        init = k.methods.get('__init__')
        if init is None:
            continue
        for n in ast.walk(init):
            if isinstance(n, ast.Assign) and any(isinstance(t, ast.Attribute) and t.attr == e.attr and isinstance(t.value, ast.Name) and
                                                 t.value.id == 'self' for t in n.targets):
                if isinstance(n.value, ast.Constant) and isinstance(n.value.value, bool):
                    return True
                if isinstance(n.value, ast.Name):
                    a = init.args
                    pos = a.posonlyargs + a.args
                    dflt = dict(zip([x.arg for x in pos[len(pos) - len(a.defaults):]], a.defaults))
                    dflt.update({x.arg: d for x, d in zip(a.kwonlyargs, a.kw_defaults) if d is not None})
                    for x in pos + a.kwonlyargs:
                        if x.arg == n.value.id:
                            if x.annotation is not None and ast.unparse(x.annotation) == 'bool':
                                return True
                            d = dflt.get(x.arg)
                            if isinstance(d, ast.Constant) and isinstance(d.value, bool):
                                return True
    return False


def check_dict_codecs(prog, rep, rule):
    for spec in DICT_CODECS:
        cls = prog.cls(spec)
        tj = cls.methods.get('to_json')
        fj = cls.methods.get('from_json')
        if tj is None or fj is None:
            raise AnalysisError(f'{cls.qual}: to_json/from_json pair vanished')
        tj = inline(prog, cls, tj)
        fj = inline(prog, cls, fj)
        w = {k: v[0] for k, v in _keys_written(tj).items()}
        wval = {k: v[1] for k, v in _keys_written(tj).items()}
        r = _keys_read(fj)
        if not w or not r:
            raise AnalysisError(f'{cls.qual}: codec key tables not recognised (written {sorted(w)}, read {sorted(r)})')
        fq = f'{cls.name}.to_json/from_json'
        rep.instance(rule, f'{cls.name}: keys written {sorted(w)} read {sorted(r)}')
        for k in sorted(set(w) - set(r)):
            rep.violation(rule, loc(cls.module, w[k]), f'{cls.name}.from_json', f'key {k!r} written, never read',
                          f'{cls.name}.to_json writes key {k!r} but from_json never reads it: the field is lost on decode')
        for k in sorted(set(r) - set(w)):
            rep.violation(rule, loc(cls.module, r[k][0]), f'{cls.name}.to_json', f'key {k!r} read, never written',
                          f'{cls.name}.from_json reads key {k!r} that to_json never writes')
        stored = _stored_keys(fj, r)
        rep.instance(rule, f'{cls.name}.from_json: decoded keys that reach the state of the new object: {sorted(stored)}')
        for k in sorted(set(r) & set(w) - stored):
            rep.violation(rule, loc(cls.module, r[k][0]), f'{cls.name}.from_json', f'key {k!r} decoded but not stored',
                          f'{cls.name}.from_json reads key {k!r} but its value never reaches the object that is returned (neither as a '
                          f'constructor argument nor through an attribute): the decoded value has the default there instead of '
                          f'what was encoded, and re-encoding it gives a different text')
        # representation: reader compares against string tokens => writer must emit str(...)
        for k, nodes in r.items():
            if k not in w:
                continue
            expects_str = False
            for n in nodes:
                p = getattr(n, '_parent', None)
                if isinstance(p, ast.Compare) and p.left is n and isinstance(p.ops[0], (ast.In, ast.Eq)):
                    comp = p.comparators[0]
                    consts = [c for c in ast.walk(comp) if isinstance(c, ast.Constant)]
                    if consts and all(isinstance(c.value, str) for c in consts):
                        expects_str = True
                elif isinstance(p, ast.Call) and isinstance(p.func, ast.Attribute) and \
                        p.func.attr in ('type_from_str', 'from_string'):
                    expects_str = True
            if expects_str:
                val = wval[k]
                is_str = isinstance(val, ast.Call) and isinstance(val.func, ast.Name) and val.func.id == 'str'
                is_str = is_str or (isinstance(val, ast.Constant) and isinstance(val.value, str)) or \
                    isinstance(val, ast.JoinedStr)
                rep.instance(rule, f'{cls.name}: key {k!r} reader expects string tokens, writer emits {norm(val, 50)}')
                # a flag written as str(<bool>) is the text 'True' or 'False': the reader's token table must map exactly the first
                # one back to a set flag
                if is_str and isinstance(val, ast.Call) and len(val.args) == 1 and _is_bool_field(cls, val.args[0]):
                    for n in nodes:
                        p = getattr(n, '_parent', None)
                        if not (isinstance(p, ast.Compare) and p.left is n and len(p.ops) == 1 and isinstance(p.ops[0], (ast.In, ast.Eq, ast.NotIn, ast.NotEq))):
                            continue
                        comp = p.comparators[0]
                        toks = {c.value for c in ast.walk(comp) if isinstance(c, ast.Constant) and isinstance(c.value, str)}
                        positive = isinstance(p.ops[0], (ast.In, ast.Eq))
                        gp = getattr(p, '_parent', None)
                        if isinstance(gp, ast.UnaryOp) and isinstance(gp.op, ast.Not):
                            positive = not positive
                            gp = getattr(gp, '_parent', None)
                        if isinstance(gp, ast.IfExp) and isinstance(gp.body, ast.Constant) and isinstance(gp.orelse, ast.Constant) and \
                                isinstance(gp.body.value, bool) and isinstance(gp.orelse.value, bool):
                            if gp.body.value is False and gp.orelse.value is True:
                                positive = not positive
                            elif not (gp.body.value is True and gp.orelse.value is False):
                                continue
                        elif not isinstance(gp, (ast.Assign, ast.keyword, ast.Call, ast.Return)):
                            continue
                        set_tok, unset_tok = ('True', 'False') if positive else ('False', 'True')
                        rep.instance(rule, f'{cls.name}: flag {k!r} written as str(bool), tokens read as {"set" if positive else "unset"}: {sorted(toks)}')
                        if set_tok not in toks or unset_tok in toks:
                            rep.violation(rule, loc(cls.module, p), f'{cls.name}.from_json', f'flag {k!r} decoded by {norm(p, 60)}',
                                          f'{cls.name}.to_json writes the flag {k!r} as {norm(val, 40)}, i.e. the text "True" or "False"; '
                                          f'from_json maps {sorted(toks)} to {"set" if positive else "unset"}, which does not send "True" to '
                                          f'set and "False" to unset: a value decoded from its own encoding has the flag changed')
                if not is_str:
                    rep.violation(rule, loc(cls.module, w[k]), f'{cls.name}.to_json',
                                  f'key {k!r} written as {norm(val, 50)} but read as string token',
                                  f'{cls.name}.from_json interprets key {k!r} by comparing with string tokens, but '
                                  f'to_json writes {norm(val, 50)} (not a string): the value does not survive a round trip')
