"""
fimsa.nxgraph -- helpers shared by C01/C04/C05/C06 for the NetworkX backend: query parsing, store-graph
expressions, scoped internal ids, allocator discipline.
"""
import ast

from .core import AnalysisError, Unfoldable, norm, loc, walk_no_nested, attr_chain, call_name
from .normalize import inline, local_env, expand, ctext
from . import flow

# helpers the rules key on (a call to them *is* the recognised construct): never inlined away
ANCHOR_HELPERS = ('_find_node', '_find_all_nodes', '_get_node_ids_for_list', '_collect_nodeids', '_drop_edges_not_of_type',
                  '_filter_nodes_by_label', '_get_first_neighbors_via')


def method(prog, cls, fn):
    """`fn` with the private helpers of its class inlined (except the anchor helpers)."""
    return inline(prog, cls, fn, exclude=ANCHOR_HELPERS, depth=6)


def _enclosing_function(node):
    p = node
    while p is not None and not isinstance(p, (ast.FunctionDef, ast.AsyncFunctionDef)):
        p = getattr(p, '_parent', None)
    return p

NXPG = 'fim.graph.networkx_property_graph:NetworkXPropertyGraph'
MIXIN = 'fim.graph.networkx_mixin:NetworkXMixin'
SHARED_SHELL = 'fim.graph.networkx_property_graph:NetworkXGraphStorage'
DISJ_SHELL = 'fim.graph.networkx_property_graph_disjoint:NetworkXGraphStorageDisjoint'
GRAPH_MODULES = ['fim.graph.networkx_property_graph', 'fim.graph.networkx_property_graph_disjoint',
                 'fim.graph.networkx_mixin', 'fim.graph.slices.networkx_asm', 'fim.graph.resources.networkx_arm',
                 'fim.graph.resources.networkx_adm', 'fim.graph.resources.networkx_abqm']


def storage_class(prog, shell_spec):
    shell = prog.cls(shell_spec)
    inner = list(shell.inner.values())
    if len(inner) != 1:
        raise AnalysisError(f'{shell.qual}: expected one inner storage class')
    return inner[0]


def search_calls(fn):
    return [n for n in walk_no_nested(fn) if isinstance(n, ast.Call) and call_name(n) == 'search_nodes'
            and ast.unparse(n.func) in ('nxq.search_nodes', 'search_nodes')]


def parse_query(prog, q, mod, cls):
    """conjuncts [(op, field value, value expr)] of a networkx_query dict literal; top-level or under 'and'."""
    if isinstance(q, ast.Name):
        f = _enclosing_function(q)
        if f is not None:
            q = expand(q, local_env(f))
    if isinstance(q, ast.Starred):
        if isinstance(q.value, (ast.Tuple, ast.List)):
            out = []
            for e in q.value.elts:
                out += parse_query(prog, e, mod, cls)
            return out
        return [('*', None, q.value)]
    if not isinstance(q, ast.Dict) or len(q.keys) != 1 or not isinstance(q.keys[0], ast.Constant):
        raise AnalysisError(f'{mod.relpath}:{q.lineno}: query is not a one-key dict literal: {norm(q, 80)}')
    op = q.keys[0].value
    val = q.values[0]
    if op == 'and':
        out = []
        if not isinstance(val, ast.List):
            raise AnalysisError(f'{mod.relpath}:{q.lineno}: "and" operand is not a list')
        for e in val.elts:
            out += parse_query(prog, e, mod, cls)
        return out
    if op in ('or', 'not'):
        return [(op, None, val)]
    if isinstance(val, ast.List) and len(val.elts) == 2:
        try:
            field = prog.const_eval(val.elts[0], mod, cls)
        except Unfoldable:
            field = None
        return [(op, field, val.elts[1])]
    raise AnalysisError(f'{mod.relpath}:{q.lineno}: unrecognised query clause {norm(q, 80)}')


def is_store_graph_expr(e, aliases=()):
    """self.storage.get_graph(...) / self.graphs / alias thereof"""
    if isinstance(e, ast.Call) and isinstance(e.func, ast.Attribute) and e.func.attr == 'get_graph':
        return True
    if isinstance(e, ast.Attribute) and e.attr == 'graphs' and isinstance(e.value, ast.Name) and e.value.id == 'self':
        return True
    if isinstance(e, ast.Name) and e.id in aliases:
        return True
    if isinstance(e, ast.Subscript) and isinstance(e.value, ast.Attribute) and e.value.attr == 'graphs':
        return True
    return False


def store_graph_aliases(fn):
    out = set()
    for n in walk_no_nested(fn):
        if isinstance(n, ast.Assign) and is_store_graph_expr(n.value):
            for t in n.targets:
                if isinstance(t, ast.Name):
                    out.add(t.id)
    return out


def scoped_id_sources(prog, fn, mod, cls):
    """names holding internal ids that came from a GraphID-scoped lookup in this function."""
    scoped = set()
    list_scoped = set()
    changed = True
    while changed:
        changed = False
        for n in walk_no_nested(fn):
            if isinstance(n, ast.Assign) and len(n.targets) == 1 and isinstance(n.targets[0], ast.Name):
                name = n.targets[0].id
                v = n.value
                if isinstance(v, ast.Call):
                    cn = call_name(v)
                    if cn in ('_find_node', 'add_blank_node_to_graph') and name not in scoped:
                        scoped.add(name)
                        changed = True
                    if cn == '_find_all_nodes' and name not in list_scoped:
                        list_scoped.add(name)
                        changed = True
                    if cn == 'list' and v.args:
                        inner = v.args[0]
                        if isinstance(inner, ast.Call) and call_name(inner) == 'search_nodes' and len(inner.args) >= 2:
                            try:
                                conj = parse_query(prog, inner.args[1], mod, cls)
                            except AnalysisError:
                                conj = []
                            if any(op == 'eq' and f == 'GraphID' for op, f, _ in conj) and name not in list_scoped:
                                list_scoped.add(name)
                                changed = True
                        if isinstance(inner, ast.Call) and call_name(inner) == '_find_all_nodes' and name not in list_scoped:
                            list_scoped.add(name)
                            changed = True
                if isinstance(v, ast.Subscript) and isinstance(v.value, ast.Name) and v.value.id in list_scoped and name not in scoped:
                    scoped.add(name)
                    changed = True
            if isinstance(n, ast.For) and isinstance(n.target, ast.Name):
                it = n.iter
                src = None
                if isinstance(it, ast.Name) and it.id in list_scoped:
                    src = True
                if isinstance(it, ast.Call) and call_name(it) in ('_find_all_nodes',):
                    src = True
                if isinstance(it, ast.Call) and call_name(it) == 'list' and it.args and isinstance(it.args[0], ast.Call) \
                        and call_name(it.args[0]) == '_find_all_nodes':
                    src = True
                if src and n.target.id not in scoped:
                    scoped.add(n.target.id)
                    changed = True
    return scoped, list_scoped


def id_expr_is_scoped(e, scoped):
    if isinstance(e, ast.Name):
        return e.id in scoped
    if isinstance(e, ast.Call) and call_name(e) == '_find_node':
        return True
    if isinstance(e, ast.Tuple):
        return all(id_expr_is_scoped(x, scoped) for x in e.elts)
    return False


def check_allocators(prog, rep, rule):
    """Internal ids come from a counter that only advances by the number of inserted nodes, and nothing is inserted
    before validation of an import has finished."""
    # ---- shared store ----
    st = storage_class(prog, SHARED_SHELL)
    mod = st.module
    for name, fn0 in st.methods.items():
        if name.startswith('_') and not (name.startswith('__') and name.endswith('__')):
            continue        # private helpers are analysed inlined into the public operations that call them
        fn = inline(prog, st, fn0)
        for n in walk_no_nested(fn):
            if isinstance(n, (ast.Assign, ast.AugAssign)):
                tg = n.targets if isinstance(n, ast.Assign) else [n.target]
                if any(ast.unparse(t) == 'self.start_id' for t in tg):
                    fq = f'{st.name}.{name}'
                    txt = ast.unparse(n.value) if isinstance(n, ast.Assign) else f'self.start_id + {ast.unparse(n.value)}'
                    rep.instance(rule, f'{fq}: {norm(n)}')
                    if name == '__init__':
                        if txt != '1':
                            rep.violation(rule, loc(mod, n), fq, norm(n), 'the id counter must start at 1')
                        continue
                    relabelled = _relabelled_names(fn)
                    if isinstance(n, ast.AugAssign):
                        ok = isinstance(n.op, ast.Add) and (_is_count_of(n.value, relabelled) or _is_one(n.value))
                    else:
                        v = expand(n.value, {k: e for k, e in local_env(fn).items() if k not in relabelled})
                        ok = isinstance(v, ast.BinOp) and isinstance(v.op, ast.Add) and any(
                            ast.unparse(a) == 'self.start_id' and (_is_count_of(b, relabelled) or _is_one(b))
                            for a, b in ((v.left, v.right), (v.right, v.left)))
                    if not ok:
                        rep.violation(rule, loc(mod, n), fq, norm(n),
                                      'the shared id counter may only advance by the number of nodes just inserted (or by 1 '
                                      'for one node); any other update lets a later node reuse the internal id of a stored one')
        if name in ('add_graph', 'add_graph_direct'):
            fq = f'{st.name}.{name}'
            relabel = [n for n in walk_no_nested(fn) if isinstance(n, ast.Call) and call_name(n) == 'convert_node_labels_to_integers']
            rep.instance(rule, f'{fq}: {norm(relabel[0]) if relabel else "no relabel"}')
            if not relabel or not any(k.arg == 'first_label' and ast.unparse(k.value) == 'self.start_id' for k in relabel[0].keywords) \
                    and not (relabel and len(relabel[0].args) > 1 and ast.unparse(relabel[0].args[1]) == 'self.start_id'):
                rep.violation(rule, loc(mod, fn), fq, 'incoming graph not relabelled from self.start_id',
                              'imported nodes must be relabelled to fresh integers starting at the counter, otherwise their own '
                              'keys collide with stored nodes')
            adv = [n for n in walk_no_nested(fn) if isinstance(n, (ast.Assign, ast.AugAssign)) and
                   any(ast.unparse(t) == 'self.start_id' for t in (n.targets if isinstance(n, ast.Assign) else [n.target]))]
            ins = [n for n in walk_no_nested(fn) if isinstance(n, ast.Call) and isinstance(n.func, ast.Attribute)
                   and ast.unparse(n.func.value) == 'self.graphs' and n.func.attr in ('add_nodes_from', 'add_node', 'add_edges_from', 'add_edge', 'update')]
            if not adv:
                rep.violation(rule, loc(mod, fn), fq, 'counter not advanced', 'the id counter is not advanced after an import')
            if not ins:
                rep.violation(rule, loc(mod, fn), fq, 'nothing inserted', 'the import no longer inserts into the store')
            # no explicit rejection after the first insertion
            raises = [n for n in walk_no_nested(fn) if isinstance(n, ast.Raise) and n.exc is not None and
                      not (isinstance(n.exc, ast.Name))]
            if ins and raises:
                first_ins = min(i.lineno for i in ins)
                in_loop_ins = [i for i in ins if _enclosing_loop(i, fn) is not None]
                for r in raises:
                    rl = _enclosing_loop(r, fn)
                    late = r.lineno > first_ins or any(_enclosing_loop(i, fn) is rl and rl is not None for i in ins)
                    rep.instance(rule, f'{fq}: rejection {norm(r, 60)} vs first insertion at line {first_ins}')
                    if late:
                        rep.violation(rule, loc(mod, r), fq, f'rejection reachable after an insertion: {norm(r, 80)}',
                                      'a node of the incoming graph is inserted into the store before the whole graph has been '
                                      'validated: an import that fails part-way leaves nodes behind while the id counter is not '
                                      'advanced, and the next insertion reuses their internal ids')
    check_allocator_paths(prog, rep, rule)
    # ---- disjoint store ----
    dj = storage_class(prog, DISJ_SHELL)
    dmod = dj.module
    ab = dj.methods.get('add_blank_node_to_graph')
    if ab is None:
        raise AnalysisError('disjoint add_blank_node_to_graph vanished')
    ab = inline(prog, dj, ab)
    fq = f'{dj.name}.add_blank_node_to_graph'
    addn = [n for n in walk_no_nested(ab) if isinstance(n, ast.Call) and call_name(n) == 'add_node']
    if len(addn) != 1 or not addn[0].args:
        raise AnalysisError(f'{fq}: add_node call not found')
    key = addn[0].args[0]
    src = None
    if isinstance(key, ast.Name):
        for n in walk_no_nested(ab):
            if isinstance(n, ast.Assign) and any(isinstance(t, ast.Name) and t.id == key.id for t in n.targets):
                src = n.value
    else:
        src = key
    rep.instance(rule, f'{fq}: new node key {norm(key)} = {norm(src) if src is not None else "?"}')
    if src is None or ast.unparse(src) != 'self.graph_node_ids[graph_id]':
        rep.violation(rule, loc(dmod, addn[0]), fq, f'new internal id is {norm(src) if src is not None else norm(key)}',
                      'the internal id of a new node must be taken from the per-graph counter (which only grows); an id '
                      'derived from the current node count is reused after a deletion and overwrites a surviving node')
    CTR = 'self.graph_node_ids[graph_id]'
    benv = local_env(ab)
    bumps = [n for n in walk_no_nested(ab) if isinstance(n, ast.AugAssign) and ast.unparse(n.target) == CTR]
    bump_ok = len(bumps) == 1 and isinstance(bumps[0].op, ast.Add) and _is_one(bumps[0].value)
    if not bumps:
        plain = [n for n in walk_no_nested(ab) if isinstance(n, ast.Assign) and any(ast.unparse(t) == CTR for t in n.targets)]
        if len(plain) == 1:
            v = expand(plain[0].value, benv)
            bump_ok = isinstance(v, ast.BinOp) and isinstance(v.op, ast.Add) and any(
                ast.unparse(a_) == CTR and _is_one(b_) for a_, b_ in ((v.left, v.right), (v.right, v.left)))
    if not bump_ok:
        rep.violation(rule, loc(dmod, ab), fq, 'counter not advanced by one', 'the per-graph id counter must advance by one per node')
    for name in ('add_graph', 'add_graph_direct'):
        fn = inline(prog, dj, dj.methods.get(name))
        sets = [n for n in walk_no_nested(fn) if isinstance(n, ast.Assign) and
                any(ast.unparse(t) == 'self.graph_node_ids[graph_id]' for t in n.targets)]
        rep.instance(rule, f'{dj.name}.{name}: {[norm(s) for s in sets]}')
        graphs_of_id = _relabelled_names(fn) | {'self.graphs[graph_id]'}
        for a in walk_no_nested(fn):      # aliases of the stored per-graph object
            if isinstance(a, ast.Assign) and len(a.targets) == 1:
                tt, vt = ast.unparse(a.targets[0]), ast.unparse(a.value)
                if tt == 'self.graphs[graph_id]' and isinstance(a.value, ast.Name):
                    graphs_of_id.add(vt)
                if vt == 'self.graphs[graph_id]' and isinstance(a.targets[0], ast.Name):
                    graphs_of_id.add(tt)
        okv = False
        if len(sets) == 1:
            v = sets[0].value
            okv = isinstance(v, ast.BinOp) and isinstance(v.op, ast.Add) and any(
                _is_one(b) and _is_count_of(a, graphs_of_id) for a, b in ((v.left, v.right), (v.right, v.left)))
        if okv:
            # when the count is read from the stored graph, the imported nodes must already be in it
            v = sets[0].value
            cnt = v.left if not _is_one(v.left) else v.right
            reads_store = 'self.graphs[graph_id]' in ast.unparse(cnt) or any(
                isinstance(x, ast.Name) and x.id in (graphs_of_id - _relabelled_names(fn) - {'self.graphs[graph_id]'}) for x in ast.walk(cnt))
            if reads_store:
                from .cfg import CFG
                cfg_ = CFG(fn)
                dom_ = cfg_.dominators()
                fills = [n for n in walk_no_nested(fn) if (isinstance(n, ast.Assign) and any(ast.unparse(t) == 'self.graphs[graph_id]' for t in n.targets)
                                                          and not (isinstance(n.value, ast.Call) and call_name(n.value) == 'Graph' and not n.value.args)) or
                         (isinstance(n, ast.Call) and isinstance(n.func, ast.Attribute) and n.func.attr == 'add_nodes_from')]
                cn = flow.node_of(cfg_, sets[0])
                if not fills or cn is None or not all(flow.node_of(cfg_, f_) is not None and flow.node_of(cfg_, f_).id in dom_.get(cn.id, set()) for f_ in fills):
                    rep.violation(rule, loc(dmod, sets[0]), f'{dj.name}.{name}', 'counter computed before the imported nodes are stored',
                                  'the next free internal id is computed from the stored graph before the imported nodes have been put into it '
                                  '(it counts the old, emptied graph): the counter restarts at 1 and the next node added overwrites an '
                                  'imported node')
        if not okv:
            rep.violation(rule, loc(dmod, fn), f'{dj.name}.{name}', 'counter not set to node count + 1 after import',
                          'after an import (dense ids 1..n) the counter must be n + 1')
        relabel = [n for n in walk_no_nested(fn) if isinstance(n, ast.Call) and call_name(n) == 'convert_node_labels_to_integers']
        if not relabel or ast.unparse(relabel[0].args[1] if len(relabel[0].args) > 1 else ast.Constant(0)) != '1':
            rep.violation(rule, loc(dmod, fn), f'{dj.name}.{name}', 'incoming graph not relabelled from 1', 'imported nodes must get dense ids from 1')


def check_allocator_paths(prog, rep, rule):
    """Path rule on the importing operations of both stores: whenever the relabelled incoming nodes are put into the store,
    the id allocator has been / is moved past them on that same path. Shared store: the insertion is dominated by an advance
    of ``start_id`` that itself follows the relabelling (ids are taken from the value the counter had when relabelling).
    One-graph-per-id store: no path from the filling of ``self.graphs[graph_id]`` to the normal exit avoids the (re)setting of
    ``graph_node_ids[graph_id]``."""
    from .cfg import CFG
    st = storage_class(prog, SHARED_SHELL)
    for name in ('add_graph', 'add_graph_direct'):
        fn0 = st.methods.get(name)
        if fn0 is None:
            raise AnalysisError(f'{st.name}.{name} vanished')
        fn = inline(prog, st, fn0)
        fq = f'{st.name}.{name}'
        cfg = CFG(fn)
        dom = cfg.dominators()
        relabel = [n for n in walk_no_nested(fn) if isinstance(n, ast.Call) and call_name(n) == 'convert_node_labels_to_integers']
        adv = [n for n in walk_no_nested(fn) if isinstance(n, (ast.Assign, ast.AugAssign)) and
               any(ast.unparse(t) == 'self.start_id' for t in (n.targets if isinstance(n, ast.Assign) else [n.target]))]
        ins = [n for n in walk_no_nested(fn) if isinstance(n, ast.Call) and isinstance(n.func, ast.Attribute)
               and ast.unparse(n.func.value) == 'self.graphs' and n.func.attr in ('add_nodes_from', 'add_node', 'update')]
        if not relabel or not adv or not ins:
            continue            # reported by the form checks
        rl = flow.node_of(cfg, relabel[0])
        advn = [flow.node_of(cfg, a) for a in adv]
        for i in ins:
            inode = flow.node_of(cfg, i)
            if inode is None or rl is None or any(a is None for a in advn):
                raise AnalysisError(f'{fq}: statement not found in the flow graph')
            rep.instance(rule, f'{fq}: {norm(i, 60)} needs the counter advanced on every path')
            before = [a for a in advn if a.id in dom.get(inode.id, set())]
            after_ok = not cfg.paths_avoiding(inode, cfg.exit, {a.id for a in advn})
            if not before and not after_ok:
                rep.violation(rule, loc(st.module, i), fq, f'{norm(i, 60)} on a path that does not advance self.start_id',
                              'the relabelled nodes are inserted on a path that leaves the id counter where it was (for instance when the '
                              'incoming graph replaces one stored under the same id): the next import or node creation of ANY graph in '
                              'the store is handed internal ids that are in use, and overwrites those nodes')
        for a, an in zip(adv, advn):
            if rl.id not in dom.get(an.id, set()):
                rep.violation(rule, loc(st.module, a), fq, f'{norm(a, 60)} is not preceded by the relabelling on every path',
                              'the incoming nodes take their ids from the value the counter has when they are relabelled; a counter '
                              'advanced before that (or on a path without relabelling) no longer marks the end of the ids in use')
    dj = storage_class(prog, DISJ_SHELL)
    for name in ('add_graph', 'add_graph_direct'):
        fn0 = dj.methods.get(name)
        if fn0 is None:
            raise AnalysisError(f'{dj.name}.{name} vanished')
        fn = inline(prog, dj, fn0)
        fq = f'{dj.name}.{name}'
        cfg = CFG(fn)
        sets = [n for n in walk_no_nested(fn) if isinstance(n, (ast.Assign, ast.AugAssign)) and
                any(ast.unparse(t).startswith('self.graph_node_ids[') for t in (n.targets if isinstance(n, ast.Assign) else [n.target]))]
        fills = [n for n in walk_no_nested(fn) if isinstance(n, ast.Call) and isinstance(n.func, ast.Attribute) and n.func.attr == 'add_nodes_from']
        fills += [n for n in walk_no_nested(fn) if isinstance(n, ast.Assign) and any(ast.unparse(t).startswith('self.graphs[') for t in n.targets)
                  and not (isinstance(n.value, ast.Call) and call_name(n.value) == 'Graph' and not n.value.args)]
        if not sets or not fills:
            continue
        setn = [flow.node_of(cfg, x) for x in sets]
        for f_ in fills:
            fnode = flow.node_of(cfg, f_)
            if fnode is None or any(x is None for x in setn):
                raise AnalysisError(f'{fq}: statement not found in the flow graph')
            rep.instance(rule, f'{fq}: {norm(f_, 60)} needs the per-graph counter reset on every path')
            if cfg.paths_avoiding(fnode, cfg.exit, {x.id for x in setn}):
                rep.violation(rule, loc(dj.module, f_), fq, f'{norm(f_, 60)} on a path that does not reset self.graph_node_ids[graph_id]',
                              'an import renumbers the nodes of the graph 1..n; on a path that keeps the old counter of that graph id '
                              '(for instance when the id was used before) the counter can lie inside 1..n, and the next node added to '
                              'the graph takes the internal id of an imported node and overwrites it')


def _relabelled_names(fn):
    """locals assigned from nx.convert_node_labels_to_integers(...)"""
    out = set()
    for n in walk_no_nested(fn):
        if isinstance(n, ast.Assign) and isinstance(n.value, ast.Call) and call_name(n.value) == 'convert_node_labels_to_integers':
            for t in n.targets:
                if isinstance(t, ast.Name):
                    out.add(t.id)
    return out


def _is_one(e):
    return isinstance(e, ast.Constant) and e.value == 1 and not isinstance(e.value, bool)


def _is_count_of(e, graph_texts):
    """len(G.nodes()) | len(G.nodes) | len(G) | G.number_of_nodes() | len(list(G.nodes())) with G one of graph_texts"""
    if isinstance(e, ast.Call) and isinstance(e.func, ast.Attribute) and e.func.attr in ('number_of_nodes', 'order') and not e.args:
        return ast.unparse(e.func.value) in graph_texts
    if isinstance(e, ast.Call) and isinstance(e.func, ast.Name) and e.func.id == 'len' and len(e.args) == 1:
        a = e.args[0]
        if isinstance(a, ast.Call) and isinstance(a.func, ast.Name) and a.func.id == 'list' and len(a.args) == 1:
            a = a.args[0]
        if isinstance(a, ast.Call) and isinstance(a.func, ast.Attribute) and a.func.attr == 'nodes' and not a.args:
            a = a.func.value
        elif isinstance(a, ast.Attribute) and a.attr == 'nodes':
            a = a.value
        return ast.unparse(a) in graph_texts
    return False


def _enclosing_loop(node, fn):
    p = node
    while p is not None and p is not fn:
        p = getattr(p, '_parent', None)
        if isinstance(p, (ast.For, ast.While)):
            return p
    return None


ALLOWED_STORE_METHODS = {'nodes', 'edges', 'remove_node', 'add_edge'}
WHOLE_STORE_OPS = {'clear', 'remove_nodes_from', 'remove_edges_from', 'add_nodes_from', 'add_edges_from', 'update',
                   'clear_edges', 'add_node'}
READ_ONLY_FUNCS = {'search_nodes'}


def _alias_written(fn, name):
    for n in walk_no_nested(fn):
        if isinstance(n, ast.Subscript) and isinstance(n.value, ast.Name) and n.value.id == name and isinstance(n.ctx, ast.Store):
            return True
        if isinstance(n, ast.Call) and isinstance(n.func, ast.Attribute) and isinstance(n.func.value, ast.Name) and \
                n.func.value.id == name and n.func.attr in ('update', 'pop', 'clear', 'setdefault', 'popitem'):
            return True
    return False



def check_store_scoping(prog, rep, r_enum, r_write, r_whole):
    """Every enumeration over the shared store carries a GraphID conjunct on the right id; every write through the store
    graph addresses nodes by internal ids that come from a scoped lookup; whole-store operations stay in the storage classes."""
    storage_classes = {storage_class(prog, SHARED_SHELL), storage_class(prog, DISJ_SHELL)}

    for modname in GRAPH_MODULES:
        mod = prog.module(modname)
        for m, cls, fn in prog.all_functions():
            if m is not mod:
                continue
            fq = (cls.name + '.' if cls else '') + fn.name
            if cls is not None:
                fn = method(prog, cls, fn)
            aliases = store_graph_aliases(fn)
            in_storage = cls in storage_classes
            # ---- R1 ----
            for call in search_calls(fn):
                if len(call.args) < 2:
                    raise AnalysisError(f'{loc(mod, call)}: search_nodes without query')
                target = call.args[0]
                if not is_store_graph_expr(target, aliases):
                    # queries over a private copy are not store enumerations -- unless we are inside the storage class,
                    # where the existing-graph lookup must look at the store itself
                    if in_storage:
                        rep.instance(r_enum, f'{fq}: {norm(call, 100)}')
                        rep.violation(r_enum, loc(mod, call), fq, norm(call, 120),
                                      f'the storage class looks for the nodes of a graph id in {norm(target)} instead of the '
                                      f'store: an already stored graph with that id is not found (and not replaced)')
                    continue
                conj = parse_query(prog, call.args[1], mod, cls)
                gid = [v for op, f, v in conj if op == 'eq' and f == 'GraphID']
                rep.instance(r_enum, f'{fq}: {norm(call.args[1], 110)}')
                if not gid:
                    rep.violation(r_enum, loc(mod, call), fq, norm(call.args[1], 140),
                                  'this enumeration over the shared store has no GraphID conjunct: it sees (and the caller may '
                                  'then touch) nodes of every graph in the store')
                    continue
                vtxt = ast.unparse(gid[0])
                params = {a.arg for a in fn.args.args + fn.args.kwonlyargs}

                def is_gid(e):
                    if isinstance(e, ast.IfExp):
                        return is_gid(e.body) and is_gid(e.orelse)
                    t = ast.unparse(e)
                    return t == 'self.graph_id' or (t in params and 'graph_id' in t) or t.endswith('.graph_id')
                alts = [gid[0]]
                if isinstance(gid[0], ast.Name) and gid[0].id not in params:
                    alts = flow.reaching_values(fn, gid[0].id) or [gid[0]]
                ok = all(is_gid(a) for a in alts)
                if not ok:
                    rep.violation(r_enum, loc(mod, call), fq, norm(call.args[1], 140),
                                  f'the GraphID conjunct compares with {vtxt}, which is not the graph id of this handle / call')
            # ---- R2 / R5 ----
            if in_storage:
                continue
            scoped, list_scoped_ = scoped_id_sources(prog, fn, mod, cls)
            for n in walk_no_nested(fn):
                # method calls on the store graph
                if isinstance(n, ast.Call) and isinstance(n.func, ast.Attribute) and is_store_graph_expr(n.func.value, aliases):
                    meth = n.func.attr
                    if meth == 'get_graph':
                        continue
                    rep.instance(r_write, f'{fq}: {norm(n, 100)}')
                    if meth in ('remove_node',):
                        if not (n.args and id_expr_is_scoped(n.args[0], scoped)):
                            rep.violation(r_write, loc(mod, n), fq, norm(n, 120), 'node removed by an internal id that is not the result of a scoped lookup')
                    elif meth == 'add_edge':
                        if not (len(n.args) >= 2 and id_expr_is_scoped(n.args[0], scoped) and id_expr_is_scoped(n.args[1], scoped)):
                            rep.violation(r_write, loc(mod, n), fq, norm(n, 120), 'edge added between internal ids that are not results of scoped lookups')
                    elif meth in WHOLE_STORE_OPS:
                        rep.violation(r_whole, loc(mod, n), fq, norm(n, 120),
                                      f'{meth}() is applied to the shared store graph outside the storage classes')
                    elif meth in ('neighbors', 'subgraph', 'copy', 'number_of_nodes', 'has_node', 'has_edge', 'degree'):
                        pass
                    elif meth == 'edges':
                        # edges(<internal id>, data=True): the links of ONE node; the node must come from a scoped lookup
                        if not (n.args and id_expr_is_scoped(n.args[0], scoped)):
                            rep.violation(r_write, loc(mod, n), fq, norm(n, 120), 'edges() of the shared store graph without an internal id from a scoped lookup: '
                                                                                  'the links of every graph in the store')
                    else:
                        rep.violation(r_write, loc(mod, n), fq, norm(n, 120), f'unrecognised operation {meth}() on the shared store graph')
                # the store graph passed as an argument
                if isinstance(n, ast.Call) and not (isinstance(n.func, ast.Attribute) and is_store_graph_expr(n.func.value, aliases)):
                    for a in list(n.args) + [k.value for k in n.keywords]:
                        if is_store_graph_expr(a, aliases):
                            cn = call_name(n)
                            rep.instance(r_write, f'{fq}: store graph passed to {cn}()')
                            if cn in READ_ONLY_FUNCS or cn in ('list', 'len'):
                                continue
                            if cn == 'contracted_nodes' and fn.name == 'merge_nodes':
                                ids = n.args[1:3]
                                if len(ids) == 2 and all(id_expr_is_scoped(x, scoped) for x in ids):
                                    continue
                            if cn == 'set_node_attributes' and len(n.args) >= 2 and isinstance(n.args[1], ast.DictComp) and \
                                    len(n.args[1].generators) == 1 and not n.args[1].generators[0].ifs:
                                # nx.set_node_attributes(G, {n: value for n in <ids of this graph>}, name=..): writes exactly the listed nodes
                                g_ = n.args[1].generators[0]
                                it_ = g_.iter
                                it_scoped = (isinstance(it_, ast.Name) and it_.id in list_scoped_) or \
                                    (isinstance(it_, ast.Call) and call_name(it_) == '_find_all_nodes') or \
                                    (isinstance(it_, ast.Call) and call_name(it_) == 'list' and it_.args and isinstance(it_.args[0], ast.Call) and
                                     call_name(it_.args[0]) == '_find_all_nodes')
                                if it_scoped and isinstance(g_.target, ast.Name) and isinstance(n.args[1].key, ast.Name) and n.args[1].key.id == g_.target.id:
                                    continue
                            rep.violation(r_write, loc(mod, n), fq, norm(n, 130),
                                          f'the shared store graph (all graphs) is handed to {cn}(): whatever it changes is '
                                          f'changed on the nodes of every graph in the store, not only on this graph')
                # subscripted access .nodes[X] / .edges[X] on the store graph that is written through
                if isinstance(n, ast.Subscript) and isinstance(n.value, ast.Attribute) and n.value.attr in ('nodes', 'edges') \
                        and is_store_graph_expr(n.value.value, aliases):
                    par = getattr(n, '_parent', None)
                    written = False
                    if isinstance(par, ast.Subscript) and isinstance(par.ctx, ast.Store):
                        written = True
                    if isinstance(par, ast.Attribute) and par.attr in ('update', 'pop', 'clear', 'setdefault', 'popitem'):
                        written = True
                    if isinstance(par, ast.Assign) and par.value is n:
                        # alias of the live attribute dict (node_props = ...nodes[x]) -> written through later
                        written = any(isinstance(t, ast.Name) for t in par.targets) and _alias_written(fn, par.targets[0].id)
                    if written:
                        rep.instance(r_write, f'{fq}: write through {norm(n, 90)}')
                        if not id_expr_is_scoped(n.slice, scoped):
                            rep.violation(r_write, loc(mod, n), fq, norm(n, 120),
                                          'a node/edge attribute dictionary of the shared store is written through an internal '
                                          'id that does not come from a GraphID-scoped lookup')

