"""
fimsa.lints -- small path-shape lints shared by several properties.
"""
import ast

from .core import walk_no_nested, norm


def _blocks(node):
    for field in ('body', 'orelse', 'finalbody'):
        b = getattr(node, field, None)
        if isinstance(b, list) and b and isinstance(b[0], ast.stmt):
            yield b
    for h in getattr(node, 'handlers', []) or []:
        yield h.body


def _fresh_container(v):
    if isinstance(v, (ast.List, ast.Dict, ast.Set)) and not (getattr(v, 'elts', None) or getattr(v, 'keys', None)):
        return True
    return isinstance(v, ast.Call) and not v.args and not v.keywords and \
        ((isinstance(v.func, ast.Name) and (v.func.id in ('list', 'dict', 'set') or v.func.id[:1].isupper())) or
         (isinstance(v.func, ast.Attribute) and v.func.attr[:1].isupper()))


def containers_filled_in_loops(fn):
    """[(var, loop, creation stmt, where)] for every local that is filled inside a loop by method calls (``var.add_x(..)``,
    ``var.append(..)``) and read after that loop; ``where`` is 'before' when the (fresh, empty) container is created before
    the loop, 'inside' when it is created by an unconditional statement of the loop body itself - then every iteration
    starts from an empty container and only what the last iteration added is left after the loop."""
    out = []
    stack = [fn]
    while stack:
        node = stack.pop()
        for blk in _blocks(node):
            for i, st in enumerate(blk):
                stack.append(st)
                if not isinstance(st, (ast.For, ast.While)):
                    continue
                filled = {c.func.value.id for s_ in ast.walk(st) if isinstance(s_, ast.Expr) and isinstance(s_.value, ast.Call)
                          for c in [s_.value] if isinstance(c.func, ast.Attribute) and isinstance(c.func.value, ast.Name)}
                for var in sorted(filled):
                    read_after = any(isinstance(x, ast.Name) and x.id == var and isinstance(x.ctx, ast.Load) for later in blk[i + 1:] for x in ast.walk(later))
                    if not read_after:
                        continue
                    inside = [a for a in st.body if isinstance(a, ast.Assign) and len(a.targets) == 1 and isinstance(a.targets[0], ast.Name) and
                              a.targets[0].id == var and _fresh_container(a.value)]
                    before = [a for a in blk[:i] if isinstance(a, ast.Assign) and len(a.targets) == 1 and isinstance(a.targets[0], ast.Name) and
                              a.targets[0].id == var and _fresh_container(a.value)]
                    if inside:
                        out.append((var, st, inside[0], 'inside'))
                    elif before:
                        out.append((var, st, before[-1], 'before'))
    return out


def loops_left_early(fn, kinds=(ast.Return, ast.Break)):
    """[(loop, stmt)] for every ``return`` / ``break`` that leaves a for-loop of ``fn`` from inside its body (innermost loop
    only; nested function bodies excluded)."""
    out = []
    for l in [n for n in walk_no_nested(fn) if isinstance(n, ast.For)]:
        for b in l.body:
            for x in ast.walk(b):
                if isinstance(x, kinds):
                    p = getattr(x, '_parent', None)
                    inner = False
                    while p is not None and p is not l:
                        if isinstance(p, (ast.For, ast.While)) and isinstance(x, ast.Break):
                            inner = True
                        if isinstance(p, (ast.FunctionDef, ast.Lambda)):
                            inner = True
                        p = getattr(p, '_parent', None)
                    if not inner:
                        out.append((l, x))
    return out


def stale_whole_node_writes(fn, read_call='get_node_properties', write_all='update_node_properties',
                            writers=('update_node_property', 'unset_node_property', 'update_node_properties')):
    """[(write call, dict name, intervening write)]: a property dictionary read from the graph is written back as a whole
    after another write to the graph happened in between (positions compared inside the same innermost loop body or the
    function body): the whole-node write-back restores the values read before that other write."""
    out = []
    reads = {}
    for a in walk_no_nested(fn):
        if isinstance(a, ast.Assign) and isinstance(a.value, ast.Call) and _cn(a.value) == read_call:
            t = a.targets[0]
            if isinstance(t, ast.Tuple) and len(t.elts) == 2 and isinstance(t.elts[1], ast.Name):
                reads[t.elts[1].id] = a
            elif isinstance(t, ast.Name):
                reads[t.id] = a
    calls = [c for c in walk_no_nested(fn) if isinstance(c, ast.Call) and _cn(c) in writers]
    for w in calls:
        if _cn(w) != write_all:
            continue
        pv = None
        for k in w.keywords:
            if k.arg == 'props' and isinstance(k.value, ast.Name):
                pv = k.value.id
        if pv is None and len(w.args) > 1 and isinstance(w.args[1], ast.Name):
            pv = w.args[1].id
        if pv not in reads:
            continue
        r = reads[pv]
        for o in calls:
            if o is w:
                continue
            if (r.lineno, r.col_offset) < (o.lineno, o.col_offset) < (w.lineno, w.col_offset) and _same_scope(r, o, w, fn):
                out.append((w, pv, o))
                break
    return out


def _cn(c):
    f = c.func
    return f.attr if isinstance(f, ast.Attribute) else (f.id if isinstance(f, ast.Name) else None)


def _loop_of(n, fn):
    p = getattr(n, '_parent', None)
    while p is not None and p is not fn:
        if isinstance(p, (ast.For, ast.While)):
            return p
        p = getattr(p, '_parent', None)
    return None


def _same_scope(r, o, w, fn):
    """the read, the other write and the write-back happen in the same iteration: all inside the loop that holds the read"""
    lr = _loop_of(r, fn)
    if lr is None:
        return True

    def inside(n):
        p = getattr(n, '_parent', None)
        while p is not None and p is not fn:
            if p is lr:
                return True
            p = getattr(p, '_parent', None)
        return False
    return inside(o) and inside(w)


def _stores(node):
    return {x.id for x in ast.walk(node) if isinstance(x, ast.Name) and isinstance(x.ctx, ast.Store)}


def _ends_abruptly(block):
    return bool(block) and isinstance(block[-1], (ast.Continue, ast.Break, ast.Return, ast.Raise))


def iteration_values_carried(fn):
    """[(name, loop, read)]: inside a for-loop, a local that is given a value computed from the loop variable (the data of THIS
    iteration) on some paths only, and is read later in the body on a path where this iteration has not assigned it - so the
    read sees what an earlier iteration (or the code before the loop) left there. Accumulators (``x = x + ..``, ``x += ..``)
    and flags set to constants are not iteration data and are left alone."""
    out = []
    for loop in [n for n in walk_no_nested(fn) if isinstance(n, ast.For)]:
        targets = _stores(loop.target)
        # iteration data: assigned in the body from an expression that mentions the loop variable, directly or through another
        # such local
        derived = set(targets)
        assigns = [a for a in ast.walk(loop) if isinstance(a, ast.Assign) and a is not loop]
        changed = True
        tracked = set()
        while changed:
            changed = False
            for a in assigns:
                names = {x.id for x in ast.walk(a.value) if isinstance(x, ast.Name) and isinstance(x.ctx, ast.Load)}
                tg = set()
                for t in a.targets:
                    if isinstance(t, ast.Name):
                        tg.add(t.id)
                    elif isinstance(t, (ast.Tuple, ast.List)) and all(isinstance(e, ast.Name) for e in t.elts):
                        tg |= {e.id for e in t.elts}
                if not tg or not (names & derived) or (names & tg):
                    continue
                if not tg <= tracked:
                    tracked |= tg
                    derived |= tg
                    changed = True
        tracked -= targets
        # names that are accumulated somewhere in the loop are not per-iteration values
        for a in ast.walk(loop):
            if isinstance(a, ast.AugAssign) and isinstance(a.target, ast.Name):
                tracked.discard(a.target.id)
            if isinstance(a, ast.Assign):
                names = {x.id for x in ast.walk(a.value) if isinstance(x, ast.Name)}
                for t in a.targets:
                    if isinstance(t, ast.Name) and t.id in names:
                        tracked.discard(t.id)
        # "best so far": the assignment is guarded by a test that reads the name itself - carried on purpose
        def _guards(node, acc):
            for ch in ast.iter_child_nodes(node):
                if isinstance(ch, (ast.If, ast.While)):
                    rd = {x.id for x in ast.walk(ch.test) if isinstance(x, ast.Name)}
                    for a in ast.walk(ch):
                        if isinstance(a, ast.Assign):
                            for t in a.targets:
                                if isinstance(t, ast.Name) and t.id in rd:
                                    acc.add(t.id)
                _guards(ch, acc)
        best = set()
        _guards(loop, best)
        tracked -= best
        if not tracked:
            continue
        found = {}

        def reads(expr, assigned):
            for x in ast.walk(expr):
                if isinstance(x, ast.Name) and isinstance(x.ctx, ast.Load) and x.id in tracked and x.id not in assigned:
                    found.setdefault(x.id, x)

        def run_block(block, assigned):
            assigned = set(assigned)
            for st in block:
                assigned = run_stmt(st, assigned)
            return assigned

        def run_stmt(st, assigned):
            if isinstance(st, (ast.FunctionDef, ast.AsyncFunctionDef, ast.ClassDef)):
                return assigned
            if isinstance(st, ast.Assign):
                reads(st.value, assigned)
                return assigned | _stores(st)
            if isinstance(st, (ast.AnnAssign, ast.AugAssign)):
                if getattr(st, 'value', None) is not None:
                    reads(st.value, assigned)
                return assigned | _stores(st.target)
            if isinstance(st, ast.If):
                reads(st.test, assigned)
                a1 = run_block(st.body, assigned | _stores(st.test))
                a2 = run_block(st.orelse, assigned | _stores(st.test))
                if _ends_abruptly(st.body) and _ends_abruptly(st.orelse):
                    return a1 | a2
                if _ends_abruptly(st.body):
                    return a2
                if _ends_abruptly(st.orelse):
                    return a1
                return a1 & a2
            if isinstance(st, (ast.For, ast.AsyncFor)):
                reads(st.iter, assigned)
                run_block(st.body, assigned | _stores(st.target))
                run_block(st.orelse, assigned)
                return assigned
            if isinstance(st, ast.While):
                reads(st.test, assigned)
                run_block(st.body, assigned)
                return assigned
            if isinstance(st, (ast.With, ast.AsyncWith)):
                for it in st.items:
                    reads(it.context_expr, assigned)
                    if it.optional_vars is not None:
                        assigned = assigned | _stores(it.optional_vars)
                return run_block(st.body, assigned)
            if isinstance(st, ast.Try):
                a_body = run_block(st.body, assigned)
                outs = [run_block(st.orelse, a_body)] if not _ends_abruptly(st.body) or st.orelse else []
                for h in st.handlers:
                    ah = run_block(h.body, assigned | ({h.name} if h.name else set()))
                    if not _ends_abruptly(h.body):
                        outs.append(ah)
                res = set.intersection(*outs) if outs else a_body
                return run_block(st.finalbody, res) if st.finalbody else res
            if hasattr(ast, 'Match') and isinstance(st, ast.Match):
                reads(st.subject, assigned)
                outs = []
                for c in st.cases:
                    ac = run_block(c.body, assigned | _stores(c.pattern))
                    if not _ends_abruptly(c.body):
                        outs.append(ac)
                outs.append(assigned)
                return set.intersection(*outs)
            for ch in ast.iter_child_nodes(st):
                if isinstance(ch, ast.expr):
                    reads(ch, assigned)
            return assigned | _stores(st)
        run_block(loop.body, set())
        for name, node in sorted(found.items()):
            out.append((name, loop, node))
    return out


def exception_ctor_arity(prog, package_prefix='fim.'):
    """[(module, function qualname, call, class name, [missing parameter names])] for every construction of a library exception
    class (a class of the package whose name ends in Exception / Error) that does not supply a required parameter of its
    ``__init__`` (positional without default, or keyword-only without default). Calls with * / ** arguments are skipped.
    Such a call raises TypeError instead of the intended exception - on the one code path that reaches it."""
    out = []
    ninst = 0
    for m, c, f in prog.all_functions():
        if not m.name.startswith(package_prefix):
            continue
        for call in walk_no_nested(f):
            if not isinstance(call, ast.Call):
                continue
            fn = call.func
            name = fn.id if isinstance(fn, ast.Name) else (fn.attr if isinstance(fn, ast.Attribute) else None)
            if not name or not (name.endswith('Exception') or name.endswith('Error')):
                continue
            cands = prog.class_by_simple.get(name, [])
            if len(cands) != 1:
                continue
            cls = cands[0]
            init = None
            for k in cls.mro():
                if '__init__' in k.methods:
                    init = k.methods['__init__']
                    break
            if init is None:
                continue
            if any(isinstance(a, ast.Starred) for a in call.args) or any(k.arg is None for k in call.keywords):
                continue
            ninst += 1
            a = init.args
            pos = [x.arg for x in a.posonlyargs + a.args][1:]
            npos_default = len(a.defaults)
            required_pos = pos[:len(pos) - npos_default] if npos_default else pos
            required_kw = [x.arg for x, d in zip(a.kwonlyargs, a.kw_defaults) if d is None]
            given_kw = {k.arg for k in call.keywords}
            missing = [p for i, p in enumerate(required_pos) if i >= len(call.args) and p not in given_kw]
            missing += [p for p in required_kw if p not in given_kw]
            if missing:
                out.append((m, (c.name + '.' if c else '') + f.name, call, name, missing))
    return out, ninst
