"""
fimsa.cfg -- statement-level control-flow graph with exceptional edges, hand-built for the
statement kinds FIM uses, plus a small set-valued forward dataflow solver and dominators.

Node kinds
  entry, exit (normal return / fall-through), raise_exit (exception leaves the function)
  stmt      simple statement (Assign, Expr, AugAssign, Return, Raise, Pass, Delete, Import, nested def...)
  test      condition of if / while / assert / (synthetic) for-has-next; successors via 'true' / 'false' edges
  iter      evaluation of a for-loop iterable
  with_enter / with_exit   (with_exit is duplicated per way of leaving the block)
  join      synthetic no-op (handler dispatch, finally entry)
  handler   entry of an except clause
Edge kinds
  'n' normal, 't' true branch, 'f' false branch, 'x' exceptional (state *before* the source statement flows)
"""
import ast

from .core import AnalysisError, walk_no_nested


class Node:
    __slots__ = ('id', 'kind', 'ast', 'succ', 'pred', 'tag')

    def __init__(self, nid, kind, node=None, tag=None):
        self.id = nid
        self.kind = kind
        self.ast = node
        self.succ = []   # (Node, edgekind)
        self.pred = []
        self.tag = tag

    def __repr__(self):
        t = ''
        if self.ast is not None:
            try:
                t = ' '.join(ast.unparse(self.ast).split())[:60]
            except Exception:
                t = type(self.ast).__name__
        return f'<{self.id}:{self.kind}{":" + self.tag if self.tag else ""} {t}>'

    @property
    def lineno(self):
        return getattr(self.ast, 'lineno', 0)


class _Frame:
    """One enclosing try / with / loop during construction."""

    def __init__(self, kind, **kw):
        self.kind = kind           # 'try', 'loop'
        self.__dict__.update(kw)


def default_may_raise(stmt_or_expr):
    """Conservative: anything that calls, subscripts, does arithmetic or touches an attribute may raise."""
    if stmt_or_expr is None:
        return False
    for n in walk_no_nested(stmt_or_expr):
        if isinstance(n, (ast.Call, ast.Subscript, ast.BinOp, ast.Attribute, ast.Compare, ast.Await,
                          ast.Yield, ast.YieldFrom, ast.Starred, ast.UnaryOp)):
            if isinstance(n, ast.UnaryOp) and isinstance(n.op, ast.Not):
                continue
            return True
    return False


class CFG:
    def __init__(self, fn, may_raise=None):
        self.fn = fn
        self.nodes = []
        self.may_raise = may_raise or default_may_raise
        self.entry = self._new('entry')
        self.exit = self._new('exit')
        self.raise_exit = self._new('raise_exit')
        self.frames = []
        outs = self._block(fn.body, [(self.entry, 'n')])
        self._connect(outs, self.exit)

    # -- construction helpers ------------------------------------------------
    def _new(self, kind, node=None, tag=None):
        n = Node(len(self.nodes), kind, node, tag)
        self.nodes.append(n)
        return n

    def _connect(self, outs, target):
        for src, ek in outs:
            if (target, ek) not in src.succ:
                src.succ.append((target, ek))
                target.pred.append((src, ek))

    def _block(self, stmts, preds):
        for st in stmts:
            if not preds:
                # unreachable code: still build it (so that rules can see it) from a dangling join
                preds = [(self._new('join', tag='unreachable'), 'n')]
            preds = self._stmt(st, preds)
        return preds

    # exception routing ---------------------------------------------------------
    def _exc_target(self, depth=None):
        """Node to which an exception raised at the current position flows."""
        frames = self.frames if depth is None else self.frames[:depth]
        for i in range(len(frames) - 1, -1, -1):
            fr = frames[i]
            if fr.kind == 'try':
                if fr.phase == 'body' and fr.dispatch is not None:
                    return fr.dispatch
                if fr.phase in ('body', 'handler', 'else') and fr.has_finally:
                    return self._finally_copy(fr, i, 'exc')
                # phase 'finally': exception propagates outward
        return self.raise_exit

    def _finally_copy(self, fr, depth, why):
        """Entry join of a copy of the finally body of frame `fr` for the leaving reason `why`."""
        key = why
        if key in fr.copies:
            return fr.copies[key]
        j = self._new('join', tag=f'finally-{why}')
        fr.copies[key] = j
        saved = self.frames
        self.frames = saved[:depth] + [_Frame('try', phase='finally', dispatch=None, has_finally=False,
                                              copies={}, node=fr.node)]
        outs = fr.build_final([(j, 'n')])
        self.frames = saved[:depth]
        # where to go after the copy
        if why == 'exc':
            self._connect(outs, self._exc_target(depth))
        elif why == 'return':
            self._connect(outs, self._return_target(depth))
        elif why == 'break':
            self._connect(outs, self._loop_target(depth, 'break'))
        elif why == 'continue':
            self._connect(outs, self._loop_target(depth, 'continue'))
        self.frames = saved
        return j

    def _return_target(self, depth=None):
        frames = self.frames if depth is None else self.frames[:depth]
        for i in range(len(frames) - 1, -1, -1):
            fr = frames[i]
            if fr.kind == 'try' and fr.has_finally and fr.phase != 'finally':
                return self._finally_copy(fr, i, 'return')
        return self.exit

    def _loop_target(self, depth, which):
        frames = self.frames if depth is None else self.frames[:depth]
        for i in range(len(frames) - 1, -1, -1):
            fr = frames[i]
            if fr.kind == 'try' and fr.has_finally and fr.phase != 'finally':
                return self._finally_copy(fr, i, which)
            if fr.kind == 'loop':
                if which == 'break':
                    return fr.break_join
                return fr.head
        raise AnalysisError(f'{which} outside loop')

    def _raise_edge(self, node):
        tgt = self._exc_target()
        if (tgt, 'x') not in node.succ:
            node.succ.append((tgt, 'x'))
            tgt.pred.append((node, 'x'))

    # -- statements ------------------------------------------------------------
    def _stmt(self, st, preds):
        if isinstance(st, ast.If):
            t = self._new('test', st.test, tag='if')
            t.tag = 'if'
            self._connect(preds, t)
            if self.may_raise(st.test):
                self._raise_edge(t)
            outs = self._block(st.body, [(t, 't')])
            if st.orelse:
                outs = outs + self._block(st.orelse, [(t, 'f')])
            else:
                outs = outs + [(t, 'f')]
            return outs
        if isinstance(st, ast.While):
            t = self._new('test', st.test, tag='while')
            self._connect(preds, t)
            if self.may_raise(st.test):
                self._raise_edge(t)
            bj = self._new('join', tag='break')
            self.frames.append(_Frame('loop', head=t, break_join=bj))
            outs = self._block(st.body, [(t, 't')])
            self.frames.pop()
            self._connect(outs, t)
            res = [(t, 'f')]
            if st.orelse:
                res = self._block(st.orelse, res)
            if bj.pred:
                res = res + [(bj, 'n')]
            return res
        if isinstance(st, (ast.For, ast.AsyncFor)):
            it = self._new('iter', st.iter, tag='for-iter')
            self._connect(preds, it)
            if self.may_raise(st.iter):
                self._raise_edge(it)
            h = self._new('test', st, tag='for')
            self._connect([(it, 'n')], h)
            self._raise_edge(h)   # the iterator's __next__ may raise
            bj = self._new('join', tag='break')
            self.frames.append(_Frame('loop', head=h, break_join=bj))
            outs = self._block(st.body, [(h, 't')])
            self.frames.pop()
            self._connect(outs, h)
            res = [(h, 'f')]
            if st.orelse:
                res = self._block(st.orelse, res)
            if bj.pred:
                res = res + [(bj, 'n')]
            return res
        if isinstance(st, ast.Try):
            return self._try(st, preds)
        if isinstance(st, (ast.With, ast.AsyncWith)):
            return self._with(st, preds)
        if isinstance(st, ast.Return):
            n = self._new('stmt', st, tag='return')
            self._connect(preds, n)
            if self.may_raise(st.value):
                self._raise_edge(n)
            self._connect([(n, 'n')], self._return_target())
            return []
        if isinstance(st, ast.Raise):
            n = self._new('stmt', st, tag='raise')
            self._connect(preds, n)
            self._raise_edge(n)
            return []
        if isinstance(st, ast.Assert):
            t = self._new('test', st.test, tag='assert')
            self._connect(preds, t)
            if self.may_raise(st.test):
                self._raise_edge(t)
            fail = self._new('stmt', st, tag='assert-fail')
            self._connect([(t, 'f')], fail)
            self._raise_edge(fail)
            return [(t, 't')]
        if isinstance(st, ast.Break):
            n = self._new('stmt', st, tag='break')
            self._connect(preds, n)
            self._connect([(n, 'n')], self._loop_target(None, 'break'))
            return []
        if isinstance(st, ast.Continue):
            n = self._new('stmt', st, tag='continue')
            self._connect(preds, n)
            self._connect([(n, 'n')], self._loop_target(None, 'continue'))
            return []
        if isinstance(st, (ast.FunctionDef, ast.AsyncFunctionDef, ast.ClassDef)):
            n = self._new('stmt', st, tag='def')
            self._connect(preds, n)
            return [(n, 'n')]
        if hasattr(ast, 'Match') and isinstance(st, ast.Match):
            raise AnalysisError('match statement not supported by the CFG builder')
        # simple statement
        n = self._new('stmt', st)
        self._connect(preds, n)
        if not isinstance(st, (ast.Pass, ast.Global, ast.Nonlocal, ast.Import, ast.ImportFrom)) and self.may_raise(st):
            self._raise_edge(n)
        return [(n, 'n')]

    def _try(self, st, preds):
        has_finally = bool(st.finalbody)
        depth = len(self.frames)
        fr = _Frame('try', phase='body', dispatch=None, has_finally=has_finally, copies={}, node=st)
        fr.build_final = (lambda p, st=st: self._block(st.finalbody, p))
        if st.handlers:
            fr.dispatch = self._new('join', tag='except-dispatch')
        self.frames.append(fr)
        outs = self._block(st.body, preds)
        # else clause: exceptions there are not caught by the handlers
        fr.phase = 'else'
        if st.orelse:
            outs = self._block(st.orelse, outs)
        # handlers
        fr.phase = 'handler'
        catch_all = False
        for h in st.handlers:
            hn = self._new('handler', h, tag='except')
            self._connect([(fr.dispatch, 'n')], hn)
            outs = outs + self._block(h.body, [(hn, 'n')])
            if h.type is None or (isinstance(h.type, ast.Name) and h.type.id in ('Exception', 'BaseException')):
                catch_all = True
        if st.handlers and not catch_all:
            # exception not matched by any handler
            if has_finally:
                self._connect([(fr.dispatch, 'n')], self._finally_copy(fr, depth, 'exc'))
            else:
                self.frames.pop()
                self._connect([(fr.dispatch, 'n')], self._exc_target())
                self.frames.append(fr)
        self.frames.pop()
        if has_finally:
            # normal completion copy
            self.frames.append(_Frame('try', phase='finally', dispatch=None, has_finally=False, copies={}, node=st))
            j = self._new('join', tag='finally-normal')
            self._connect(outs, j)
            outs = self._block(st.finalbody, [(j, 'n')]) if outs else []
            self.frames.pop()
        return outs

    def _with(self, st, preds):
        enter = self._new('with_enter', st, tag='with')
        self._connect(preds, enter)
        self._raise_edge(enter)
        depth = len(self.frames)
        fr = _Frame('try', phase='body', dispatch=None, has_finally=True, copies={}, node=st)

        def build_final(p, st=st):
            x = self._new('with_exit', st, tag='with')
            self._connect(p, x)
            return [(x, 'n')]
        fr.build_final = build_final
        self.frames.append(fr)
        outs = self._block(st.body, [(enter, 'n')])
        self.frames.pop()
        if outs:
            x = self._new('with_exit', st, tag='with')
            self._connect(outs, x)
            outs = [(x, 'n')]
        return outs

    # -- queries -----------------------------------------------------------------
    def reachable(self):
        seen = {self.entry.id}
        stack = [self.entry]
        while stack:
            n = stack.pop()
            for s, _ in n.succ:
                if s.id not in seen:
                    seen.add(s.id)
                    stack.append(s)
        return seen

    def nodes_for(self, astnode):
        return [n for n in self.nodes if n.ast is astnode]

    def find_nodes(self, pred):
        return [n for n in self.nodes if pred(n)]

    def dominators(self):
        """dom[n.id] = set of node ids that lie on every path entry -> n (only reachable nodes)."""
        reach = self.reachable()
        allids = set(reach)
        dom = {i: set(allids) for i in reach}
        dom[self.entry.id] = {self.entry.id}
        changed = True
        order = [n for n in self.nodes if n.id in reach]
        while changed:
            changed = False
            for n in order:
                if n is self.entry:
                    continue
                ps = [p.id for p, _ in n.pred if p.id in reach]
                new = set(allids)
                for p in ps:
                    new &= dom[p]
                new = new | {n.id}
                if new != dom[n.id]:
                    dom[n.id] = new
                    changed = True
        return dom

    def edge_dominates(self, test_node, edgekind, target, dom=None):
        """True iff every path entry -> target leaves `test_node` through an `edgekind` edge
        (i.e. the guard was evaluated and took that branch)."""
        # remove the chosen edge(s); target must become unreachable
        seen = {self.entry.id}
        stack = [self.entry]
        while stack:
            n = stack.pop()
            for s, ek in n.succ:
                if n is test_node and ek == edgekind:
                    continue
                if s.id not in seen:
                    seen.add(s.id)
                    stack.append(s)
        return target.id not in seen and target.id in self.reachable()

    def paths_avoiding(self, start, goal, avoid):
        """Is there a path start -> goal that touches no node in `avoid` (ids)?"""
        seen = {start.id}
        stack = [start]
        while stack:
            n = stack.pop()
            if n is goal:
                return True
            for s, _ in n.succ:
                if s.id not in seen and s.id not in avoid:
                    seen.add(s.id)
                    stack.append(s)
        return False


def solve_forward(cfg, init, transfer, edge_filter=None, parents=None):
    """Collecting semantics over a finite value domain.
    state[n] = frozenset of abstract values that may hold *on entry* to node n.
    transfer(node, value) -> iterable of values holding after the node completes normally.
    Along 'x' edges the entry state flows unchanged (the statement did not complete).
    edge_filter(node, edgekind, value) -> bool may prune (branch sensitivity).
    parents: optional dict filled with (succ_id, value) -> (node_id, value_on_entry) for witnesses."""
    state = {n.id: set() for n in cfg.nodes}
    state[cfg.entry.id] = set(init)
    work = [cfg.entry]
    inwork = {cfg.entry.id}
    steps = 0
    while work:
        n = work.pop(0)
        inwork.discard(n.id)
        steps += 1
        if steps > 400000:
            raise AnalysisError('dataflow did not converge')
        for v in list(state[n.id]):
            after = None
            for s, ek in n.succ:
                if ek == 'x':
                    outs = (v,)
                else:
                    if after is None:
                        after = tuple(transfer(n, v))
                    outs = after
                for w in outs:
                    if edge_filter is not None and not edge_filter(n, ek, w):
                        continue
                    if w not in state[s.id]:
                        state[s.id].add(w)
                        if parents is not None:
                            parents[(s.id, w)] = (n.id, v)
                        if s.id not in inwork:
                            inwork.add(s.id)
                            work.append(s)
    return {k: frozenset(v) for k, v in state.items()}


def witness(cfg, parents, node, value, limit=60):
    """Reconstruct one path (list of Node) reaching (node, value) from the parents map."""
    path = []
    cur = (node.id, value)
    seen = set()
    while cur in parents and cur not in seen and len(path) < limit:
        seen.add(cur)
        path.append(cfg.nodes[cur[0]])
        cur = parents[cur]
    path.append(cfg.nodes[cur[0]])
    path.reverse()
    return path


def describe_path(path, max_items=14):
    out = []
    for n in path:
        if n.kind in ('entry', 'join'):
            continue
        if n.ast is not None and n.kind in ('stmt', 'test', 'iter', 'with_enter', 'with_exit', 'handler'):
            try:
                if n.kind == 'handler':
                    txt = 'except ' + (ast.unparse(n.ast.type) if n.ast.type is not None else '') + ':'
                elif n.tag == 'for':
                    txt = 'for ' + ast.unparse(n.ast.target) + ' in ...'
                elif n.kind in ('with_enter', 'with_exit'):
                    txt = n.kind + ' ' + ', '.join(ast.unparse(i.context_expr) for i in n.ast.items)
                else:
                    txt = ' '.join(ast.unparse(n.ast).split())
            except Exception:
                txt = n.kind
            out.append(f'L{n.lineno}: {txt[:90]}')
        else:
            out.append(n.kind)
    if len(out) > max_items:
        out = out[:max_items // 2] + ['...'] + out[-max_items // 2:]
    return out


def enumerate_paths(cfg, cap=100000, loop_bound=1):
    """Explicit path enumeration entry -> {exit, raise_exit}; each node visited at most loop_bound+1 times
    per path. Yields lists of (node, edgekind_taken). Stops after `cap` paths (returns False in .capped)."""
    out = []
    capped = [False]

    def rec(n, path, counts):
        if len(out) >= cap:
            capped[0] = True
            return
        if n is cfg.exit or n is cfg.raise_exit:
            out.append(path + [(n, None)])
            return
        c = counts.get(n.id, 0)
        if c > loop_bound:
            return
        counts[n.id] = c + 1
        for s, ek in n.succ:
            rec(s, path + [(n, ek)], counts)
        counts[n.id] = c
    import sys
    old = sys.getrecursionlimit()
    sys.setrecursionlimit(max(old, 10000))
    try:
        rec(cfg.entry, [], {})
    finally:
        sys.setrecursionlimit(old)
    return out, capped[0]
