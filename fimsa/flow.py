"""
fimsa.flow -- value-flow analyses on the CFG of one (possibly helper-inlined) function.

taint(fn, is_source, is_sanitizer): which ``return`` statements may return a value that derives from a *source* call
without having passed through a *sanitizer* call. Flow- and path-sensitive (collecting semantics over sets of raw locals),
so ``s = src(); s = clean(s); return s`` is clean while ``s = src(); return s`` on another branch is raw.

reaching_value(fn, name): expressions that may define local ``name`` (flow-insensitive), used to resolve temporaries whose
value is chosen by an if/else or conditional expression.
"""
import ast

from .cfg import CFG, solve_forward, witness, describe_path
from .core import walk_no_nested, call_name


def _expr_raw(e, raw, is_source, is_sanitizer):
    """Does evaluating ``e`` yield (or contain) a raw value, given the set of raw locals?"""
    if e is None:
        return False
    if isinstance(e, ast.Call):
        if is_sanitizer(e):
            return False
        if is_source(e):
            return True
    if isinstance(e, ast.Name):
        return e.id in raw
    if isinstance(e, ast.Lambda):
        return False
    return any(_expr_raw(c, raw, is_source, is_sanitizer) for c in ast.iter_child_nodes(e))


def taint(fn, is_source, is_sanitizer, cfg=None, is_sink=None):
    """Returns (results, cfg) where results = [(return_stmt, 'raw' | 'clean' | 'none', witness_path or None)] for every
    reachable return statement; 'raw' when on some path the returned expression derives from a source call that did not
    go through a sanitizer call, 'clean' when it derives only from sanitized values, 'none' when no source is involved."""
    cfg = cfg or CFG(fn)

    def transfer(node, raw):
        st = node.ast
        if node.kind == 'stmt' and isinstance(st, (ast.Assign, ast.AnnAssign, ast.AugAssign)):
            value = st.value
            targets = st.targets if isinstance(st, ast.Assign) else [st.target]
            r = _expr_raw(value, raw, is_source, is_sanitizer)
            if isinstance(st, ast.AugAssign):
                r = r or (isinstance(st.target, ast.Name) and st.target.id in raw)
            new = set(raw)
            for t in targets:
                for n in ast.walk(t):
                    if isinstance(n, ast.Name) and isinstance(n.ctx, ast.Store):
                        if r:
                            new.add(n.id)
                        else:
                            new.discard(n.id)
            return (frozenset(new),)
        if node.kind == 'test' and node.tag == 'for' and isinstance(st, (ast.For, ast.AsyncFor)):
            r = _expr_raw(st.iter, raw, is_source, is_sanitizer)
            new = set(raw)
            for n in ast.walk(st.target):
                if isinstance(n, ast.Name):
                    (new.add if r else new.discard)(n.id)
            return (frozenset(new),)
        if node.kind == 'with_enter':
            new = set(raw)
            for it in st.items:
                if it.optional_vars is not None:
                    r = _expr_raw(it.context_expr, raw, is_source, is_sanitizer)
                    for n in ast.walk(it.optional_vars):
                        if isinstance(n, ast.Name):
                            (new.add if r else new.discard)(n.id)
            return (frozenset(new),)
        return (raw,)

    parents = {}
    state = solve_forward(cfg, [frozenset()], transfer, parents=parents)
    results = []
    for node in cfg.nodes:
        if node.kind == 'stmt' and isinstance(node.ast, ast.Return):
            if not state[node.id]:
                continue
            verdict, wit = 'none', None
            involves = any(isinstance(c, ast.Call) and (is_source(c) or is_sanitizer(c)) for c in ast.walk(node.ast)) if node.ast.value is not None else False
            for raw in state[node.id]:
                if _expr_raw(node.ast.value, raw, is_source, is_sanitizer):
                    verdict = 'raw'
                    wit = describe_path(witness(cfg, parents, node, raw))
                    break
            if verdict != 'raw' and (involves or _mentions_sanitized(fn, node.ast, is_sanitizer)):
                verdict = 'clean'
            results.append((node.ast, verdict, wit))
        if is_sink is not None and node.ast is not None and node.kind in ('stmt', 'test', 'iter', 'with_enter') and state[node.id]:
            root = node.ast
            if node.kind == 'test' and node.tag == 'for':
                continue
            if node.kind == 'with_enter':
                calls = [c for it in root.items for c in ast.walk(it.context_expr) if isinstance(c, ast.Call)]
            else:
                calls = [c for c in walk_no_nested(root) if isinstance(c, ast.Call)]
            for c in calls:
                if not is_sink(c):
                    continue
                verdict, wit = 'clean', None
                for raw in state[node.id]:
                    if any(_expr_raw(a, raw, is_source, is_sanitizer) for a in list(c.args) + [k.value for k in c.keywords]):
                        verdict = 'raw'
                        wit = describe_path(witness(cfg, parents, node, raw))
                        break
                results.append((c, verdict, wit))
    return results, cfg


def _mentions_sanitized(fn, ret, is_sanitizer):
    if ret.value is None:
        return False
    names = {n.id for n in ast.walk(ret.value) if isinstance(n, ast.Name)}
    for n in walk_no_nested(fn):
        if isinstance(n, ast.Assign) and any(isinstance(c, ast.Call) and is_sanitizer(c) for c in ast.walk(n.value)):
            for t in n.targets:
                if isinstance(t, ast.Name) and t.id in names:
                    return True
    return False


def reaching_values(fn, name, depth=4):
    """All expressions assigned to local ``name`` anywhere in fn (flow-insensitive); conditional expressions are split
    into their arms; names that are themselves locals are followed ``depth`` levels."""
    out = []
    seen = set()

    def add(e, d):
        if isinstance(e, ast.IfExp):
            add(e.body, d)
            add(e.orelse, d)
            return
        if isinstance(e, ast.BoolOp) and isinstance(e.op, ast.Or):
            for v in e.values:
                add(v, d)
            return
        if isinstance(e, ast.Name) and d > 0 and e.id not in seen:
            sub = defs(e.id)
            if sub:
                seen.add(e.id)
                for s in sub:
                    add(s, d - 1)
                return
        out.append(e)

    def defs(nm):
        res = []
        for n in walk_no_nested(fn):
            if isinstance(n, ast.Assign):
                for t in n.targets:
                    if isinstance(t, ast.Name) and t.id == nm:
                        res.append(n.value)
                    elif isinstance(t, ast.Tuple) and isinstance(n.value, ast.Tuple) and len(t.elts) == len(n.value.elts):
                        for a, b in zip(t.elts, n.value.elts):
                            if isinstance(a, ast.Name) and a.id == nm:
                                res.append(b)
            elif isinstance(n, ast.AnnAssign) and isinstance(n.target, ast.Name) and n.target.id == nm and n.value is not None:
                res.append(n.value)
        return res

    seen.add(name)
    for e in defs(name):
        add(e, depth)
    return out


def node_of(cfg, astnode):
    """The CFG node whose statement / test expression contains ``astnode`` (identity)."""
    for n in cfg.nodes:
        if n.ast is None or n.kind in ('with_exit',):
            continue
        root = n.ast
        if n.kind == 'test' and n.tag == 'for':
            if astnode is root:
                return n
            continue
        if n.kind == 'iter':
            if any(x is astnode for x in ast.walk(root)):
                return n
            continue
        if n.kind == 'with_enter':
            if any(x is astnode for it in root.items for x in ast.walk(it.context_expr)):
                return n
            continue
        if isinstance(root, (ast.FunctionDef, ast.AsyncFunctionDef, ast.ClassDef)):
            continue
        if any(x is astnode for x in walk_no_nested(root)):
            return n
    return None


def dominates(cfg, a, b, dom=None):
    """Does every path entry -> (the statement holding ast node b) pass through (the statement holding ast node a)?"""
    dom = dom or cfg.dominators()
    na, nb = node_of(cfg, a), node_of(cfg, b)
    if na is None or nb is None or nb.id not in dom:
        return False
    return na.id in dom[nb.id]
