"""
fimsa.schema -- the containment schema of a FIM model, derived from the writers (ABCPropertyGraph.add_*_sliver):
edges (ParentClass, relationship, ChildClass).  Readers, removers and helpers must traverse pairs of this schema.
"""
import ast

from .core import AnalysisError, Unfoldable, norm, walk_no_nested, call_name, kwarg

APG = 'fim.graph.abc_property_graph:ABCPropertyGraph'

# pairs that exist only in models the library imports but never builds (broker-produced BQMs), or whose parent end is
# created by the user layer rather than by a sliver writer
FROZEN_EDGES = [
    ('ConnectionPoint', 'connects', 'ConnectionPoint', 'sub-interface under a dedicated port: Interface.add_child_interface passes the parent interface id to add_interface_sliver'),
    ('Link', 'connects', 'ConnectionPoint', 'add_network_link_sliver links the Link node to the interface ids it is given'),
    ('CompositeNode', 'has', 'NetworkNode', 'aggregate BQM produced by the broker, imported only'),
    ('CompositeNode', 'has', 'Component', 'aggregate BQM produced by the broker, imported only'),
    ('CompositeNode', 'has', 'NetworkService', 'aggregate BQM produced by the broker, imported only'),
]


class Schema:
    def __init__(self, prog):
        self.prog = prog
        self.edges = set()       # (parent, rel, child)
        self.derived = []
        self.frozen = []
        self.non_owning = {('Link', 'connects', 'ConnectionPoint')}

    def pairs(self):
        out = set()
        for a, r, b in self.edges:
            out.add((r, a))
            out.add((r, b))
        return out

    def has_pair(self, rel, label):
        return (rel, label) in self.pairs()

    def children_of(self, cls):
        return {(r, b) for a, r, b in self.edges if a == cls}

    def owned_children_of(self, cls):
        """children the element owns (a Link is connected to interfaces but does not own them)"""
        return {(r, b) for a, r, b in self.edges if a == cls and (a, r, b) not in self.non_owning}

    def parents_of(self, cls):
        return {(r, a) for a, r, b in self.edges if b == cls}

    def neighbours_of(self, cls):
        return self.children_of(cls) | self.parents_of(cls)

    def fold(self, expr, cls):
        if expr is None:
            return None
        try:
            return self.prog.const_eval(expr, cls.module, cls)
        except Unfoldable:
            return None

    def pairs_of_call(self, call, cls):
        """[(rel, label)] requested by a get_first_neighbor / get_first_and_second_neighbor call (None if not constant)."""
        cn = call_name(call)
        if cn == 'get_first_neighbor':
            return [(self.fold(kwarg(call, 'rel'), cls), self.fold(kwarg(call, 'node_label'), cls))]
        if cn == 'get_first_and_second_neighbor':
            return [(self.fold(kwarg(call, 'rel1'), cls), self.fold(kwarg(call, 'node1_label'), cls)),
                    (self.fold(kwarg(call, 'rel2'), cls), self.fold(kwarg(call, 'node2_label'), cls))]
        if cn == 'get_parent':
            return [(self.fold(kwarg(call, 'rel'), cls), self.fold(kwarg(call, 'parent'), cls))]
        return []


_cache = {}


def containment_schema(prog):
    if id(prog) in _cache:
        return _cache[id(prog)]
    apg = prog.cls(APG)
    sch = Schema(prog)
    writers = {n: f for n, f in apg.methods.items() if n.startswith('add_') and n.endswith('_sliver')}
    if len(writers) < 5:
        raise AnalysisError(f'expected 5 add_*_sliver writers, found {sorted(writers)}')
    label_of = {}
    rel_of = {}
    for name, fn in writers.items():
        for c in walk_no_nested(fn):
            if isinstance(c, ast.Call) and call_name(c) == 'add_node':
                lab = sch.fold(kwarg(c, 'label'), apg)
                if lab is None:
                    raise AnalysisError(f'{name}: node label is not a constant')
                label_of[name] = lab
            if isinstance(c, ast.Call) and call_name(c) == 'add_link':
                rel = sch.fold(kwarg(c, 'rel'), apg)
                if rel is None:
                    raise AnalysisError(f'{name}: relationship is not a constant')
                rel_of[name] = rel
    for name in writers:
        if name not in label_of:
            raise AnalysisError(f'{name} creates no node')
    # parent -> child through nested writer calls
    for name, fn in writers.items():
        for c in walk_no_nested(fn):
            if isinstance(c, ast.Call) and call_name(c) in writers and call_name(c) != name:
                child = call_name(c)
                parent_arg = kwarg(c, 'parent_node_id')
                if parent_arg is None or child not in rel_of:
                    continue
                sch.edges.add((label_of[name], rel_of[child], label_of[child]))
                sch.derived.append(f'{name} -> {child}: ({label_of[name]}, {rel_of[child]}, {label_of[child]})')
    for a, r, b, why in FROZEN_EDGES:
        sch.edges.add((a, r, b))
        sch.frozen.append(f'({a}, {r}, {b}): {why}')
    sch.label_of = label_of
    sch.rel_of = rel_of
    _cache[id(prog)] = sch
    return sch
