"""
fimsa.strinterp -- flow-sensitive symbolic evaluation of the string-building code that precedes a call
(used for the Cypher statements of C19).  Strings are sequences of literal characters and *markers*; a marker
stands for a run-time value and carries its origin (parameter, attribute of self, key/value of a dict parameter,
element of a computed collection).  Unknown conditions fork the path; loops over collections of unknown size are
unrolled 0 and 2 times.  Nothing of the analysed program is executed.
"""
import ast

from .core import AnalysisError, norm


class Marker:
    __slots__ = ('origin',)

    def __init__(self, origin):
        self.origin = origin

    def __repr__(self):
        return '⟦' + self.origin + '⟧'


class S:
    """Symbolic string: list of single characters and Markers."""
    __slots__ = ('toks',)

    def __init__(self, toks=()):
        self.toks = list(toks)

    @staticmethod
    def lit(text):
        return S(list(text))

    def __add__(self, other):
        return S(self.toks + to_s(other).toks)

    def __len__(self):
        return len(self.toks)

    def slice(self, lo, hi):
        return S(self.toks[lo:hi])

    def markers(self):
        return [t for t in self.toks if isinstance(t, Marker)]

    def render(self, fn=None):
        out = []
        for t in self.toks:
            if isinstance(t, Marker):
                out.append(fn(t) if fn else repr(t))
            else:
                out.append(t)
        return ''.join(out)

    def __repr__(self):
        return self.render()


class Atom:
    """Opaque run-time value with an origin; ``nonnull`` when an invariant says it is never None."""
    __slots__ = ('origin', 'nonnull')

    def __init__(self, origin, nonnull=False):
        self.origin = origin
        self.nonnull = nonnull

    def __repr__(self):
        return f'<{self.origin}>'


class DictModel:
    """dict with known literal entries plus optionally the (unknown) entries of a source dict."""

    def __init__(self, entries=None, sources=None):
        self.entries = list(entries or [])      # list of (key value, value value)
        self.sources = list(sources or [])      # origins of dicts merged in (param:props ...)

    def items(self, n_unknown):
        out = list(self.entries)
        for src in self.sources:
            for i in range(n_unknown):
                out.append((Atom(f'key-of:{src}'), Atom(f'value-of:{src}')))
        return out


class Opaque:
    """Result we do not model (driver results etc.)."""

    def __init__(self, origin='opaque'):
        self.origin = origin


class NoneVal:
    pass


NONE = NoneVal()


def to_s(v):
    if isinstance(v, S):
        return v
    if isinstance(v, str):
        return S.lit(v)
    if isinstance(v, (int, float)) and not isinstance(v, bool):
        return S.lit(str(v))
    if isinstance(v, Atom):
        return S([Marker(v.origin)])
    if isinstance(v, Opaque):
        return S([Marker('opaque:' + v.origin)])
    if isinstance(v, NoneVal):
        return S.lit('None')
    if isinstance(v, bool):
        return S.lit(str(v))
    raise AnalysisError(f'cannot use {type(v).__name__} as a string in a statement template')


class Fork(Exception):
    def __init__(self, node):
        self.node = node


class RunSite:
    def __init__(self, call, query, kwargs, star_kwargs):
        self.call = call
        self.query = query          # S or other value
        self.kwargs = kwargs        # list of names
        self.star_kwargs = star_kwargs


class Interp:
    """Interpret one function; collect the arguments of every `<x>.run(...)` call per path."""

    MAX_PATHS = 512

    def __init__(self, fn, run_attr='run', unroll=(0, 2), resolver=None, module_const=None, max_paths=None, assume=None,
                 class_const=None):
        self.class_const = class_const      # class_const(attr) -> constant expression assigned at class level, or None
        # assume(test node) -> True / False for tests whose outcome is fixed by an invariant established elsewhere, else None
        self.assume = assume
        # resolver(call) -> (helper FunctionDef, skip_first_param) for private helpers of the same class / module, or None
        # module_const(name) -> expression of a module-level constant, or None
        self.resolver = resolver
        self.module_const = module_const
        if max_paths:
            self.MAX_PATHS = max_paths
        self.depth = 0
        self.fn = fn
        self.run_attr = run_attr
        self.unroll = unroll
        self.paths = 0
        self.sites = []     # list of (RunSite) over all paths (de-duplicated by rendering later)

    # -- driver ---------------------------------------------------------------
    def run(self):
        env = {}
        a = self.fn.args
        for p in a.posonlyargs + a.args + a.kwonlyargs:
            if p.arg in ('self', 'cls'):
                continue
            env[p.arg] = Atom('param:' + p.arg)
        if a.kwarg:
            env[a.kwarg.arg] = DictModel(sources=['param:**' + a.kwarg.arg])
        self._exec_block(self.fn.body, env, {})
        return self.sites

    # decisions: map id(ast node) -> chosen alternative, explored depth first
    def _exec_block(self, stmts, env, _unused):
        # explore all decision vectors by re-execution (simple and robust for the small functions analysed)
        pending = [dict()]
        seen = set()
        while pending:
            dec = pending.pop()
            self.paths += 1
            if self.paths > self.MAX_PATHS:
                raise AnalysisError(f'too many paths while interpreting {self.fn.name}')
            self._decisions = dec
            self._new_decisions = []
            e = dict(env)
            try:
                self._block(stmts, e)
            except _Return:
                pass
            for node_id, alts in self._new_decisions:
                for alt in alts[1:]:
                    d2 = dict(dec)
                    d2[node_id] = alt
                    # all earlier new decisions of this run took their first alternative
                    for nid, al in self._new_decisions:
                        if nid == node_id:
                            break
                        d2.setdefault(nid, al[0])
                    key = tuple(sorted(d2.items(), key=lambda kv: repr(kv[0])))
                    if key not in seen:
                        seen.add(key)
                        pending.append(d2)

    def _decide(self, node, alternatives):
        k = node if isinstance(node, tuple) else id(node)
        if k in self._decisions:
            return self._decisions[k]
        if not any(k == nid for nid, _ in self._new_decisions):
            self._new_decisions.append((k, list(alternatives)))
        return alternatives[0]

    # -- statements -------------------------------------------------------------
    def _block(self, stmts, env):
        for st in stmts:
            self._stmt(st, env)

    def _stmt(self, st, env):
        if isinstance(st, ast.Expr):
            self._expr(st.value, env)
        elif isinstance(st, ast.Assign):
            v = self._expr(st.value, env)
            for t in st.targets:
                self._assign(t, v, env)
        elif isinstance(st, ast.AnnAssign):
            if st.value is not None:
                self._assign(st.target, self._expr(st.value, env), env)
        elif isinstance(st, ast.AugAssign):
            if isinstance(st.target, ast.Name) and isinstance(st.op, ast.Add):
                cur = env.get(st.target.id)
                v = self._expr(st.value, env)
                if isinstance(cur, (S, str)):
                    env[st.target.id] = to_s(cur) + v
                elif isinstance(cur, list) and isinstance(v, list):
                    env[st.target.id] = cur + v
                elif isinstance(cur, (int, float)) and isinstance(v, (int, float)):
                    env[st.target.id] = cur + v
                else:
                    env[st.target.id] = Opaque('augassign')
            else:
                self._expr(st.value, env)
        elif isinstance(st, ast.If):
            c = self._cond(st.test, env)
            if c is None:
                c = self._decide(st, [True, False])
            self._block(st.body if c else st.orelse, env)
        elif isinstance(st, (ast.For, ast.AsyncFor)):
            seq = self._iterable(st.iter, env, st)
            for item in seq:
                self._assign(st.target, item, env)
                try:
                    self._block(st.body, env)
                except _Break:
                    break
                except _Continue:
                    continue
        elif isinstance(st, ast.While):
            # retry loops etc.: execute the body once
            try:
                self._block(st.body, env)
            except (_Break, _Continue):
                pass
        elif isinstance(st, (ast.With, ast.AsyncWith)):
            for it in st.items:
                v = self._expr(it.context_expr, env)
                if it.optional_vars is not None:
                    self._assign(it.optional_vars, v, env)
            self._block(st.body, env)
        elif isinstance(st, ast.Try):
            self._block(st.body, env)
            self._block(st.orelse, env)
            self._block(st.finalbody, env)
        elif isinstance(st, ast.Return):
            v = self._expr(st.value, env) if st.value is not None else NONE
            raise _Return(v)
        elif isinstance(st, ast.Raise):
            raise _Return()
        elif isinstance(st, ast.Break):
            raise _Break()
        elif isinstance(st, ast.Continue):
            raise _Continue()
        elif isinstance(st, (ast.Assert, ast.Pass, ast.Import, ast.ImportFrom, ast.Global, ast.Nonlocal,
                             ast.FunctionDef, ast.ClassDef, ast.Delete)):
            return
        else:
            raise AnalysisError(f'statement kind {type(st).__name__} not understood by the template builder')

    def _assign(self, target, value, env):
        if isinstance(target, ast.Name):
            env[target.id] = value
        elif isinstance(target, (ast.Tuple, ast.List)):
            if isinstance(value, (tuple, list)) and len(value) == len(target.elts):
                for t, v in zip(target.elts, value):
                    self._assign(t, v, env)
            else:
                origin = value.origin if isinstance(value, (Atom, Opaque)) else 'unpack'
                for i, t in enumerate(target.elts):
                    self._assign(t, Atom(f'{origin}[{i}]'), env)
        elif isinstance(target, ast.Subscript):
            base = self._expr(target.value, env)
            if isinstance(base, DictModel):
                try:
                    k = self._expr(target.slice, env)
                except AnalysisError:
                    k = Atom('key')
                base.entries = [(kk, vv) for kk, vv in base.entries if not _same(kk, k)] + [(k, value)]
        elif isinstance(target, ast.Attribute):
            return
        else:
            raise AnalysisError(f'assignment target {norm(target)} not understood')

    # -- expressions ------------------------------------------------------------
    def _size_key(self, e):
        """Key of the decision "how many elements does this collection of unknown size have": the local it is held in
        (``d``, ``d.items()``, ``list(d.values())`` ... all talk about ``d``), so that an emptiness test and a loop over the
        same collection agree along one path."""
        while True:
            if isinstance(e, ast.Call) and isinstance(e.func, ast.Attribute) and e.func.attr in ('items', 'keys', 'values') and not e.args:
                e = e.func.value
            elif isinstance(e, ast.Call) and isinstance(e.func, ast.Name) and e.func.id in ('list', 'tuple', 'set', 'sorted', 'enumerate') and e.args:
                e = e.args[0]
            else:
                break
        if isinstance(e, ast.Name):
            return ('size', self.fn.name, self.depth, e.id)
        return None

    def _unknown_size(self, e, env):
        """number of elements decided for the collection ``e`` when its size is not known, else None"""
        k = self._size_key(e)
        if k is None:
            return None
        v = self._try(e, env)
        if isinstance(v, _Items):
            v = v.model
        if isinstance(v, DictModel):
            if not v.sources:
                return len(v.entries)
            return len(v.entries) + len(v.sources) * self._decide(k, list(self.unroll))
        if isinstance(v, (Atom, Opaque)) and not isinstance(v, S):
            return self._decide(k, list(self.unroll))
        return None

    def _cond(self, test, env):
        """True/False when decidable, None otherwise."""
        if self.assume is not None:
            a_ = self.assume(test)
            if a_ is not None:
                return a_
        # emptiness tests on collections of unknown size: len(X) <op> k, X, not X
        if isinstance(test, ast.Compare) and len(test.ops) == 1 and isinstance(test.left, ast.Call) and isinstance(test.left.func, ast.Name) and \
                test.left.func.id == 'len' and len(test.left.args) == 1 and isinstance(test.comparators[0], ast.Constant) and \
                isinstance(test.comparators[0].value, int):
            n_ = self._unknown_size(test.left.args[0], env)
            if n_ is not None:
                r = test.comparators[0].value
                return {ast.Gt: n_ > r, ast.Lt: n_ < r, ast.GtE: n_ >= r, ast.LtE: n_ <= r, ast.Eq: n_ == r, ast.NotEq: n_ != r}.get(type(test.ops[0]))
        if isinstance(test, ast.Compare) and len(test.ops) == 1:
            l = self._try(test.left, env)
            r = self._try(test.comparators[0], env)
            if isinstance(test.ops[0], (ast.Is, ast.IsNot)) and isinstance(r, NoneVal) and isinstance(l, Atom) and l.nonnull:
                return isinstance(test.ops[0], ast.IsNot)
            if isinstance(l, (int, float)) and isinstance(r, (int, float)):
                op = test.ops[0]
                return {ast.Gt: l > r, ast.Lt: l < r, ast.GtE: l >= r, ast.LtE: l <= r,
                        ast.Eq: l == r, ast.NotEq: l != r}.get(type(op))
            return None
        if isinstance(test, ast.UnaryOp) and isinstance(test.op, ast.Not):
            c = self._cond(test.operand, env)
            return None if c is None else (not c)
        v = self._try(test, env)
        if isinstance(v, _Items):
            v = v.model
        if isinstance(v, DictModel):
            if not v.sources:
                return len(v.entries) > 0
            n_ = self._unknown_size(test, env)
            return None if n_ is None else n_ > 0
        if isinstance(v, list):
            return len(v) > 0
        if isinstance(v, S):
            return len(v) > 0
        if isinstance(v, NoneVal):
            return False
        if isinstance(v, bool):
            return v
        return None

    def _try(self, e, env):
        try:
            return self._expr(e, env)
        except AnalysisError:
            return Opaque('unmodelled')

    def _iterable(self, it, env, node):
        v = self._expr(it, env)
        if isinstance(v, list):
            return v
        if isinstance(v, tuple):
            return list(v)
        sk = self._size_key(it)
        if isinstance(v, _Items):
            n = 0
            if v.model.sources:
                n = self._decide(sk or node, list(self.unroll))
            its = v.model.items(n)
            if v.kind == 'items':
                return [(k, val) for k, val in its]
            if v.kind == 'keys':
                return [k for k, _ in its]
            return [val for _, val in its]
        if isinstance(v, DictModel):
            n = self._decide(sk or node, list(self.unroll)) if v.sources else 0
            return [k for k, _ in v.items(n)]
        if isinstance(v, (Atom, Opaque)):
            n = self._decide(sk or node, list(self.unroll))
            return [Atom(f'elem-of:{v.origin}') for _ in range(n)]
        if isinstance(v, range):
            return list(v)[:2]
        raise AnalysisError(f'cannot iterate over {norm(it)}')

    def _expr(self, e, env):
        if isinstance(e, ast.Constant):
            if e.value is None:
                return NONE
            if isinstance(e.value, str):
                return S.lit(e.value)
            return e.value
        if isinstance(e, ast.JoinedStr):
            out = S()
            for v in e.values:
                if isinstance(v, ast.Constant):
                    out = out + S.lit(str(v.value))
                else:
                    val = self._expr(v.value, env)
                    if v.format_spec is not None or v.conversion not in (-1, 115):
                        # !r / format specs: still the same origin
                        pass
                    out = out + to_s(val)
            return out
        if isinstance(e, ast.Name):
            if e.id in env:
                return env[e.id]
            if self.module_const is not None:
                ce = self.module_const(e.id)
                if ce is not None and isinstance(ce, (ast.Constant, ast.JoinedStr, ast.BinOp)):
                    try:
                        return self._expr(ce, {})
                    except AnalysisError:
                        pass
            return Atom('global:' + e.id)
        if isinstance(e, ast.Attribute):
            base = e.value
            if isinstance(base, ast.Name) and base.id in ('self', 'cls'):
                if self.class_const is not None:
                    ce = self.class_const(e.attr)
                    if ce is not None and isinstance(ce, (ast.Constant, ast.JoinedStr, ast.BinOp)):
                        try:
                            return self._expr(ce, {})
                        except AnalysisError:
                            pass
                return Atom('attr:self.' + e.attr)
            bv = self._expr(base, env)
            if isinstance(bv, (Atom, Opaque)):
                return Atom(f'{bv.origin}.{e.attr}', nonnull=bool(self.assume is not None and self.assume(e)))
            return Opaque('attr')
        if isinstance(e, ast.BinOp):
            l = self._expr(e.left, env)
            r = self._expr(e.right, env)
            if isinstance(e.op, ast.Add):
                if isinstance(l, (S, str)) or isinstance(r, (S, str)):
                    return to_s(l) + r
                if isinstance(l, list) and isinstance(r, list):
                    return l + r
                if isinstance(l, (int, float)) and isinstance(r, (int, float)):
                    return l + r
                if (isinstance(l, (int, float)) and isinstance(r, (Atom, Opaque))) or \
                        (isinstance(r, (int, float)) and isinstance(l, (Atom, Opaque))):
                    return Atom('computed:int')
            if isinstance(e.op, ast.Mod) and isinstance(l, S):
                raise AnalysisError('%-formatting of a statement template is not modelled')
            return Opaque('binop')
        if isinstance(e, ast.Dict):
            ents = []
            srcs = []
            for k, v in zip(e.keys, e.values):
                if k is None:
                    vv = self._expr(v, env)
                    if isinstance(vv, DictModel):
                        ents += vv.entries
                        srcs += vv.sources
                    elif isinstance(vv, Atom):
                        srcs.append(vv.origin)
                else:
                    ents.append((self._expr(k, env), self._expr(v, env)))
            return DictModel(ents, srcs)
        if isinstance(e, (ast.List, ast.Tuple)):
            vals = [self._expr(x, env) for x in e.elts]
            return vals if isinstance(e, ast.List) else tuple(vals)
        if isinstance(e, ast.Set):
            return [self._expr(x, env) for x in e.elts]
        if isinstance(e, (ast.ListComp, ast.GeneratorExp, ast.SetComp)):
            return self._comp(e, env)
        if isinstance(e, ast.IfExp):
            c = self._cond(e.test, env)
            if c is None:
                c = self._decide(e, [True, False])
            return self._expr(e.body if c else e.orelse, env)
        if isinstance(e, ast.Subscript):
            base = self._expr(e.value, env)
            if isinstance(e.slice, ast.Slice):
                lo = self._expr(e.slice.lower, env) if e.slice.lower else None
                hi = self._expr(e.slice.upper, env) if e.slice.upper else None
                if isinstance(base, S) and (lo is None or isinstance(lo, int)) and (hi is None or isinstance(hi, int)):
                    return base.slice(lo, hi)
                if isinstance(base, list):
                    return base[lo:hi]
                return Opaque('slice')
            idx = self._expr(e.slice, env)
            if isinstance(base, (list, tuple)) and isinstance(idx, int):
                try:
                    return base[idx]
                except IndexError:
                    return Opaque('index')
            if isinstance(base, DictModel):
                for k, v in base.entries:
                    if _same(k, idx):
                        return v
                if isinstance(idx, Atom) and idx.origin.startswith('key-of:'):
                    return Atom('value-of:' + idx.origin[len('key-of:'):])
                if base.sources:
                    return Atom('value-of:' + base.sources[0])
                return Opaque('dict-miss')
            if isinstance(base, Atom):
                if base.origin.startswith('param:') and isinstance(idx, Atom) and idx.origin.startswith('key-of:' + base.origin):
                    return Atom('value-of:' + base.origin)
                if isinstance(idx, int):
                    return Atom(f'{base.origin}[{idx}]')
                if isinstance(idx, S) and not idx.markers():
                    return Atom(f'{base.origin}[{idx.render()!r}]')
                return Atom(f'value-of:{base.origin}')
            return Opaque('subscript')
        if isinstance(e, ast.Call):
            return self._call(e, env)
        if isinstance(e, ast.UnaryOp) and isinstance(e.op, ast.USub):
            v = self._expr(e.operand, env)
            if isinstance(v, (int, float)):
                return -v
            return Opaque('neg')
        if isinstance(e, ast.Compare) or isinstance(e, ast.BoolOp) or isinstance(e, ast.UnaryOp):
            for sub in ast.iter_child_nodes(e):
                if isinstance(sub, ast.expr):
                    self._try(sub, env)
            return Opaque('bool')
        if isinstance(e, ast.Lambda):
            return Opaque('lambda')
        if isinstance(e, ast.Starred):
            return self._expr(e.value, env)
        if isinstance(e, ast.NamedExpr):
            v = self._expr(e.value, env)
            self._assign(e.target, v, env)
            return v
        raise AnalysisError(f'expression kind {type(e).__name__} not understood by the template builder: {norm(e)}')

    def _comp(self, e, env):
        if len(e.generators) != 1:
            raise AnalysisError('nested comprehension in a statement template')
        g = e.generators[0]
        seq = self._iterable(g.iter, env, e)
        out = []
        for item in seq:
            env2 = dict(env)
            self._assign(g.target, item, env2)
            out.append(self._expr(e.elt, env2))
        return out

    def _call_helper(self, fn, skip_first, e, env):
        a = fn.args
        params = [x.arg for x in a.posonlyargs + a.args]
        if skip_first and params:
            params = params[1:]
        env2 = {}
        vals = [self._expr(x, env) for x in e.args]
        for p_, v_ in zip(params, vals):
            env2[p_] = v_
        if len(vals) > len(params) and a.vararg is not None:
            env2[a.vararg.arg] = list(vals[len(params):])
        for k in e.keywords:
            if k.arg is not None:
                env2[k.arg] = self._expr(k.value, env)
        defaults = dict(zip(params[len(params) - len(a.defaults):], a.defaults)) if a.defaults else {}
        for p_ in params:
            if p_ not in env2:
                env2[p_] = self._expr(defaults[p_], {}) if p_ in defaults else Atom('param:' + p_)
        for x, d in zip(a.kwonlyargs, a.kw_defaults):
            if x.arg not in env2:
                env2[x.arg] = self._expr(d, {}) if d is not None else Atom('param:' + x.arg)
        self.depth += 1
        try:
            self._block(fn.body, env2)
            return NONE
        except _Return as r:
            return r.value if r.value is not None else NONE
        finally:
            self.depth -= 1

    def _format(self, tmpl, e, env):
        """str.format on a template made of literal text only: fields become holes of the argument values"""
        import string
        text = tmpl.render()
        if tmpl.markers():
            raise AnalysisError('str.format on a statement template that already has holes is not modelled')
        pos = [self._expr(a, env) for a in e.args]
        kw = {k.arg: self._expr(k.value, env) for k in e.keywords if k.arg}
        out = S()
        auto = 0
        for lit, field, spec, conv in string.Formatter().parse(text):
            if lit:
                out = out + S.lit(lit)
            if field is None:
                continue
            if field == '':
                v = pos[auto] if auto < len(pos) else Opaque('format-arg')
                auto += 1
            elif field.isdigit():
                v = pos[int(field)] if int(field) < len(pos) else Opaque('format-arg')
            else:
                v = kw.get(field.split('.')[0].split('[')[0], Opaque('format-arg:' + field))
            out = out + to_s(v)
        return out

    def _call(self, e, env):
        f = e.func
        if self.resolver is not None and self.depth < 3 and not (isinstance(f, ast.Attribute) and f.attr == self.run_attr):
            r = self.resolver(e)
            if r is not None:
                return self._call_helper(r[0], r[1], e, env)
        # <driver>.session(): whatever the receiver is, the result is a driver session
        if isinstance(f, ast.Attribute) and f.attr == 'session' and not e.args:
            self._try(f.value, env)
            return Opaque('session')
        # <x>.run(query, **params)
        if isinstance(f, ast.Attribute) and f.attr == self.run_attr:
            recv = self._try(f.value, env)
            if isinstance(recv, Opaque) and recv.origin == 'session':
                q = self._expr(e.args[0], env) if e.args else None
                kws = [k.arg for k in e.keywords if k.arg]
                star = [k for k in e.keywords if k.arg is None]
                for k in e.keywords:
                    self._try(k.value, env)
                self.sites.append(RunSite(e, q, kws, star))
                return Opaque('result')
        if isinstance(f, ast.Name):
            name = f.id
            args = [self._expr(a, env) for a in e.args]
            if name == 'str' and len(args) == 1:
                a = args[0]
                if isinstance(a, (S, Atom, int, float)):
                    return to_s(a)
                if isinstance(a, Opaque):
                    return to_s(a)
                return Opaque('str')
            if name == 'len' and len(args) == 1:
                a = args[0]
                if isinstance(a, (S, list, tuple)):
                    return len(a)
                return Opaque('len')
            if name in ('list', 'tuple', 'set') and len(args) <= 1:
                if not args:
                    return []
                a = args[0]
                if isinstance(a, (list, tuple)):
                    return list(a)
                if isinstance(a, _Items):
                    return self._iterable_from_items(a, e)
                return a
            if name in ('dict', 'defaultdict'):
                if not args or name == 'defaultdict':
                    return DictModel()       # a locally created dictionary holds exactly what this function stores in it
                return args[0]
            if name in ('int', 'float', 'repr', 'format'):
                a = args[0] if args else Opaque(name)
                if isinstance(a, (Atom, Opaque)):
                    return Atom(a.origin)
                return a
            if name == 'open':
                return Opaque('file')
            if name in ('isinstance', 'hasattr', 'callable', 'all', 'any', 'sorted', 'print', 'range', 'enumerate',
                        'zip', 'deque', 'max', 'min'):
                return Opaque(name)
            # constructor / helper call: opaque, origin = union of argument origins
            return self._opaque_call(e, env, args)
        if isinstance(f, ast.Attribute):
            meth = f.attr
            # "sep".join(seq)
            if meth == 'join':
                sep = self._expr(f.value, env)
                seq = self._expr(e.args[0], env) if e.args else []
                if isinstance(seq, _Items):
                    seq = self._iterable_from_items(seq, e)
                if isinstance(sep, S) and isinstance(seq, (list, tuple)):
                    out = S()
                    for i, it in enumerate(seq):
                        if i:
                            out = out + sep
                        out = out + to_s(it)
                    return out
                if isinstance(seq, (Atom, Opaque)):
                    return S([Marker('joined:' + seq.origin)])
                raise AnalysisError(f'join over {norm(e)} not understood')
            recv = self._expr(f.value, env)
            args = [self._expr(a, env) for a in e.args]
            if isinstance(recv, DictModel):
                if meth in ('items', 'keys', 'values'):
                    return _Items(recv, meth)
                if meth == 'update' and args:
                    a = args[0]
                    if isinstance(a, DictModel):
                        recv.entries += a.entries
                        recv.sources += a.sources
                    elif isinstance(a, Atom):
                        recv.sources.append(a.origin)
                    return NONE
                if meth == 'get' and args:
                    for k, v in recv.entries:
                        if _same(k, args[0]):
                            return v
                    return Opaque('dict-get')
                return Opaque('dictmeth')
            if isinstance(recv, Atom):
                if meth in ('items', 'keys', 'values') and not args:
                    return _Items(DictModel(sources=[recv.origin]), meth)
                if meth == 'get' and args:
                    a0 = args[0]
                    if isinstance(a0, S) and not a0.markers():
                        return Atom(f'{recv.origin}[{a0.render()!r}]')
                    return Atom(f'value-of:{recv.origin}')
                if meth in ('strip', 'lower', 'upper', 'format', 'replace', 'encode', 'decode'):
                    return Atom(recv.origin)
                # method call on a run-time object: result origin derives from the receiver
                return Atom(f'{recv.origin}.{meth}()')
            if isinstance(recv, list):
                if meth == 'append' and args:
                    recv.append(args[0])
                    return NONE
                if meth == 'extend' and args and isinstance(args[0], list):
                    recv.extend(args[0])
                    return NONE
                return Opaque('listmeth')
            if isinstance(recv, S):
                if meth in ('strip', 'rstrip', 'lstrip') and not args:
                    return recv
                if meth == 'format':
                    return self._format(recv, e, env)
                return Opaque('strmeth')
            if isinstance(recv, Opaque):
                if meth == 'session':
                    return Opaque('session')
                return Opaque(recv.origin)
            return Opaque('call')
        return Opaque('call')

    def _iterable_from_items(self, items, node):
        n = self._decide(node, list(self.unroll)) if items.model.sources else 0
        its = items.model.items(n)
        if items.kind == 'items':
            return [(k, v) for k, v in its]
        if items.kind == 'keys':
            return [k for k, _ in its]
        return [v for _, v in its]

    def _opaque_call(self, e, env, args):
        origins = []
        for a in args:
            if isinstance(a, (Atom, Opaque)):
                origins.append(a.origin)
            elif isinstance(a, S):
                origins += [m.origin for m in a.markers()]
        for k in e.keywords:
            v = self._try(k.value, env)
            if isinstance(v, (Atom, Opaque)):
                origins.append(v.origin)
        return Atom('call:' + norm(e.func, 40) + '(' + ','.join(sorted(set(origins))) + ')')


class _Items:
    def __init__(self, model, kind):
        self.model = model
        self.kind = kind


class _Return(Exception):
    def __init__(self, value=None):
        self.value = value


class _Break(Exception):
    pass


class _Continue(Exception):
    pass


def _same(a, b):
    if isinstance(a, S) and isinstance(b, S):
        return a.render() == b.render()
    if isinstance(a, Atom) and isinstance(b, Atom):
        return a.origin == b.origin
    return a is b
