"""
fimsa.report -- instances, violations, known findings, evidence and exit codes.
"""
import json
import os
import time

from .core import AnalysisError

VERIF_DIR = os.path.dirname(os.path.dirname(os.path.abspath(__file__)))
KNOWN_FILE = os.path.join(VERIF_DIR, 'known_findings.jsonl')


def load_known(path=KNOWN_FILE):
    out = []
    if os.path.exists(path):
        with open(path, encoding='utf-8') as f:
            for line in f:
                line = line.strip()
                if not line or line.startswith('#'):
                    continue
                out.append(json.loads(line))
    return out


class Violation:
    def __init__(self, rule, where, function, construct, message, witness=None):
        self.rule = rule
        self.where = where
        self.function = function
        self.construct = construct
        self.message = message
        self.witness = witness
        self.known = None

    def key(self):
        return (self.rule, self.function, self.construct)

    def as_dict(self):
        d = {'rule': self.rule, 'where': self.where, 'function': self.function,
             'construct': self.construct, 'message': self.message}
        if self.witness is not None:
            d['witness'] = self.witness
        if self.known is not None:
            d['known_finding'] = self.known.get('what')
        return d


class Reporter:
    def __init__(self, prop_id, tier='quick', seed=0, quiet=False):
        self.prop = prop_id
        self.tier = tier
        self.seed = seed
        self.quiet = quiet
        self.t0 = time.time()
        self.instances = {}      # rule -> list of dicts
        self.rule_text = {}      # rule -> description
        self.floors = {}
        self.violations = []
        self.notes = []
        self.assumptions = []
        self.extra = {}
        self.program_stats = {}

    # -- recording ----------------------------------------------------------
    def rule(self, rule, text, floor=None):
        self.rule_text[rule] = text
        self.instances.setdefault(rule, [])
        if floor is not None:
            self.floors[rule] = floor

    def instance(self, rule, construct, detail=None, ok=True):
        d = {'construct': construct}
        if detail is not None:
            d['detail'] = detail
        d['ok'] = ok
        self.instances.setdefault(rule, []).append(d)

    def violation(self, rule, where, function, construct, message, witness=None):
        v = Violation(rule, where, function, construct, message, witness)
        # de-duplicate
        for o in self.violations:
            if o.key() == v.key():
                return o
        self.violations.append(v)
        return v

    def note(self, text):
        if text not in self.notes:
            self.notes.append(text)

    def assume(self, text):
        if text not in self.assumptions:
            self.assumptions.append(text)

    # -- finishing -----------------------------------------------------------
    def check_floors(self):
        for rule, floor in self.floors.items():
            n = len(self.instances.get(rule, []))
            if n < floor:
                raise AnalysisError(f'rule {rule} matched {n} instance(s), fewer than the {floor} confirmed by reading: '
                                    f'the code moved away from the shape the rule recognises')

    def classify(self, known=None):
        known = load_known() if known is None else known
        mine = [k for k in known if k.get('property') == self.prop and k.get('status') == 'known']
        used = set()
        for v in self.violations:
            for i, k in enumerate(mine):
                if k.get('rule') == v.rule and k.get('function') == v.function and \
                        (k.get('construct') in (None, '*') or k.get('construct') == v.construct):
                    v.known = k
                    used.add(i)
                    break
        stale = [k for i, k in enumerate(mine) if i not in used]
        return [v for v in self.violations if v.known is None], [v for v in self.violations if v.known], stale

    def evidence(self, new, known, stale, selftest=None):
        evaluations = sum(len(v) for v in self.instances.values())
        distinct = set()
        for rule, lst in self.instances.items():
            for d in lst:
                distinct.add((rule, d['construct']))
        samples = []
        per_rule = {}
        for rule, lst in sorted(self.instances.items()):
            per_rule[rule] = {'instances': len(lst), 'floor': self.floors.get(rule),
                              'rule': self.rule_text.get(rule, '')}
            for d in lst[:4]:
                samples.append({'rule': rule, **d})
        cov = {
            'evaluations': evaluations,
            'distinct_nontrivial': len(distinct),
            'rule': 'one evaluation = one rule instance (a call site, table row, statement template, CFG path class or '
                    'guard/write pair) found in the analysed tree and checked against its obligation; distinct = '
                    'distinct (rule, normalised construct) pairs; all carry an obligation, none is trivial',
            'samples': samples,
            'explanation': self.extra.get('explanation', ''),
            'exhaustive': True,
            'per_rule': per_rule,
            'program': self.program_stats,
            'violations_new': [v.as_dict() for v in new],
            'known_findings_matched': [v.as_dict() for v in known],
            'known_findings_not_reproduced': [k.get('what') for k in stale],
            'notes': self.notes,
        }
        for k, v in self.extra.items():
            if k != 'explanation':
                cov[k] = v
        if selftest is not None:
            cov['selftest'] = selftest
        return {
            'property_id': self.prop,
            'tier': self.tier,
            'seed': self.seed,
            'level': 'other',
            'coverage': cov,
            'assumptions': self.assumptions,
            'wall_s': round(time.time() - self.t0, 3),
            'violations': len(new),
        }
