"""
fimsa.normalize -- normalisations that make the rules insensitive to behaviour-preserving rewrites:

* inline(prog, cls, fn): a copy of ``fn`` in which calls to private helpers of the same class / module are replaced by
  the helper's body (parameters substituted, ``return`` turned into the assignment / return of the call site). Rules that
  look for "a statement of shape X in function F" look in the inlined copy, so extracting part of F into a helper (or the
  reverse) does not move the statement out of sight.
* local_env(fn) / expand(expr, env): copy propagation for single-assignment temporaries, so ``t = a.b; f(t)`` and
  ``f(a.b)`` have the same shape.
* canon(expr): canonical form of tests: ``k in d.keys()`` = ``k in d``; ``d.get(k, None) is None`` = ``k not in d``;
  ``len(x) == 0`` = ``not x``; ``not a == b`` = ``a != b``; mirrored comparisons; ``True if c else False`` = ``c``.
* builders(fn): every way a local collection is built (comprehension, or loop + append/add/subscript store), as one
  normal form (element, generators, conditions).

None of this executes repository code; everything is a transformation of the syntax tree.
"""
import ast
import copy

from .core import walk_no_nested, call_name, func_params


def alpha(expr):
    """Copy of an expression with the variables bound by comprehensions / lambdas renamed to _c0, _c1, ... in order of
    appearance (alpha-equivalence of bound variables)."""
    e = clone(expr)
    mapping = {}

    def bind(t):
        for n in ast.walk(t):
            if isinstance(n, ast.Name) and n.id not in mapping:
                mapping[n.id] = f'_c{len(mapping)}'
    for n in ast.walk(e):
        if isinstance(n, (ast.ListComp, ast.SetComp, ast.GeneratorExp, ast.DictComp)):
            for g in n.generators:
                bind(g.target)
        elif isinstance(n, ast.Lambda):
            for a in n.args.args:
                if a.arg not in mapping:
                    mapping[a.arg] = f'_c{len(mapping)}'
    for n in ast.walk(e):
        if isinstance(n, ast.Name) and n.id in mapping:
            n.id = mapping[n.id]
        elif isinstance(n, ast.arg) and n.arg in mapping:
            n.arg = mapping[n.arg]
    return e


def clone(node):
    """Deep copy of a syntax tree that follows only syntactic children (not the ``_parent`` / ``_cls`` links the
    Program adds, which would drag the whole module along); keeps positions and the ``_src_*`` marks."""
    if isinstance(node, list):
        return [clone(x) for x in node]
    if not isinstance(node, ast.AST):
        return node
    new = type(node)()
    for f in node._fields:
        if hasattr(node, f):
            setattr(new, f, clone(getattr(node, f)))
    for a in node._attributes:
        if hasattr(node, a):
            setattr(new, a, getattr(node, a))
    for a in ('_src_fn', '_src_module'):
        if hasattr(node, a):
            setattr(new, a, getattr(node, a))
    return new


# ---------------------------------------------------------------------------
# copy propagation
# ---------------------------------------------------------------------------

def stored_names(fn):
    """name -> number of stores (assignment, augmented assignment, loop target, with/except alias, walrus)."""
    counts = {}
    def add(n):
        counts[n] = counts.get(n, 0) + 1
    for n in walk_no_nested(fn):
        if isinstance(n, ast.Name) and isinstance(n.ctx, (ast.Store, ast.Del)):
            add(n.id)
        elif isinstance(n, ast.ExceptHandler) and n.name:
            add(n.name)
        elif isinstance(n, ast.AugAssign) and isinstance(n.target, ast.Name):
            add(n.target.id)
    return counts


_MUTATING_METHODS = {'add', 'append', 'extend', 'insert', 'update', 'pop', 'popitem', 'remove', 'discard', 'clear', 'setdefault',
                     'sort', 'reverse', 'difference_update', 'intersection_update', 'symmetric_difference_update', 'appendleft'}


def local_env(fn):
    """Locals assigned exactly once, by a plain ``name = expr`` (not a parameter, not a loop/with/except target):
    name -> expr."""
    counts = stored_names(fn)
    params = set(func_params(fn)) if isinstance(fn, (ast.FunctionDef, ast.AsyncFunctionDef, ast.Lambda)) else set()
    comp_bound = set()
    for n in walk_no_nested(fn):
        if isinstance(n, ast.comprehension):
            for t in ast.walk(n.target):
                if isinstance(t, ast.Name):
                    comp_bound.add(t.id)
    env = {}
    for n in walk_no_nested(fn):
        if isinstance(n, ast.Assign) and len(n.targets) == 1 and isinstance(n.targets[0], ast.Name):
            name = n.targets[0].id
            if counts.get(name) == 1 and name not in params:
                env[name] = n.value
        elif isinstance(n, ast.AnnAssign) and isinstance(n.target, ast.Name) and n.value is not None:
            name = n.target.id
            if counts.get(name) == 1 and name not in params:
                env[name] = n.value
        elif isinstance(n, ast.Assign) and len(n.targets) == 1 and isinstance(n.targets[0], ast.Tuple) and isinstance(n.value, ast.Tuple) and \
                len(n.targets[0].elts) == len(n.value.elts) and all(isinstance(t, ast.Name) for t in n.targets[0].elts):
            # a, b = x, y  with none of the targets read on the right-hand side: two plain assignments
            tnames = {t.id for t in n.targets[0].elts}
            if not any(isinstance(x, ast.Name) and x.id in tnames for x in ast.walk(n.value)):
                for t, v in zip(n.targets[0].elts, n.value.elts):
                    if counts.get(t.id) == 1 and t.id not in params:
                        env[t.id] = v
    # a comprehension variable with the same name is a different variable; do not expand those names at all
    for c in comp_bound:
        env.pop(c, None)
    # a local whose object is changed in place after its definition does not equal its defining expression
    # (a local that merely names an existing object - an attribute, an element of a container - stays an alias of it)
    def fresh(e):
        return not isinstance(e, (ast.Name, ast.Attribute, ast.Subscript))
    for n in walk_no_nested(fn):
        nm = None
        if isinstance(n, ast.Call) and isinstance(n.func, ast.Attribute) and isinstance(n.func.value, ast.Name) and \
                n.func.attr in _MUTATING_METHODS:
            nm = n.func.value.id
        elif isinstance(n, ast.Subscript) and isinstance(n.ctx, (ast.Store, ast.Del)) and isinstance(n.value, ast.Name):
            nm = n.value.id
        elif isinstance(n, ast.Attribute) and isinstance(n.ctx, (ast.Store, ast.Del)) and isinstance(n.value, ast.Name):
            nm = n.value.id
        if nm is not None and nm in env and fresh(env[nm]):
            env.pop(nm, None)
    return env


class _Expander(ast.NodeTransformer):
    def __init__(self, env, depth):
        self.env = env
        self.depth = depth
        self.stack = []

    def visit_Name(self, node):
        if isinstance(node.ctx, ast.Load) and node.id in self.env and node.id not in self.stack \
                and len(self.stack) < self.depth:
            self.stack.append(node.id)
            new = self.visit(clone(self.env[node.id]))
            self.stack.pop()
            return ast.copy_location(new, node)
        return node

    def visit_Lambda(self, node):
        return node


def expand(expr, env, depth=6):
    """Deep copy of ``expr`` with single-assignment locals replaced by their defining expressions."""
    if expr is None:
        return None
    return _Expander(env, depth).visit(clone(expr))


# ---------------------------------------------------------------------------
# canonical form of expressions
# ---------------------------------------------------------------------------

_NEG = {ast.Eq: ast.NotEq, ast.NotEq: ast.Eq, ast.Lt: ast.GtE, ast.GtE: ast.Lt, ast.Gt: ast.LtE, ast.LtE: ast.Gt,
        ast.In: ast.NotIn, ast.NotIn: ast.In, ast.Is: ast.IsNot, ast.IsNot: ast.Is}
_MIRROR = {ast.Gt: ast.Lt, ast.GtE: ast.LtE}


def _is_none(e):
    return isinstance(e, ast.Constant) and e.value is None


def _is_call(e, name, nargs=None):
    return isinstance(e, ast.Call) and call_name(e) == name and (nargs is None or len(e.args) in nargs)


class _Canon(ast.NodeTransformer):
    def visit_IfExp(self, node):
        node = self.generic_visit(node)
        if isinstance(node.body, ast.Constant) and isinstance(node.orelse, ast.Constant):
            if node.body.value is True and node.orelse.value is False:
                return node.test
            if node.body.value is False and node.orelse.value is True:
                return self.visit(ast.UnaryOp(op=ast.Not(), operand=node.test))
        return node

    def visit_UnaryOp(self, node):
        node = self.generic_visit(node)
        if isinstance(node.op, ast.Not):
            o = node.operand
            if isinstance(o, ast.UnaryOp) and isinstance(o.op, ast.Not):
                return o.operand
            if isinstance(o, ast.Compare) and len(o.ops) == 1 and type(o.ops[0]) in _NEG:
                return self.visit(ast.Compare(left=o.left, ops=[_NEG[type(o.ops[0])]()], comparators=o.comparators))
            if _is_call(o, 'len', (1,)) and isinstance(o.func, ast.Name):
                return ast.UnaryOp(op=ast.Not(), operand=o.args[0])
            # De Morgan: not (a and b) -> (not a) or (not b) ; not (a or b) -> (not a) and (not b)
            if isinstance(o, ast.BoolOp):
                newop = ast.Or() if isinstance(o.op, ast.And) else ast.And()
                return ast.BoolOp(op=newop, values=[self.visit(ast.UnaryOp(op=ast.Not(), operand=v)) for v in o.values])
            # not any(E for ..) -> all(not E for ..) ; not all(E for ..) -> any(not E for ..)
            if isinstance(o, ast.Call) and isinstance(o.func, ast.Name) and o.func.id in ('any', 'all') and len(o.args) == 1 and \
                    isinstance(o.args[0], (ast.GeneratorExp, ast.ListComp)) and not o.keywords:
                g = o.args[0]
                flipped = ast.GeneratorExp(elt=self.visit(ast.UnaryOp(op=ast.Not(), operand=g.elt)), generators=g.generators)
                return ast.Call(func=ast.Name(id='all' if o.func.id == 'any' else 'any', ctx=ast.Load()), args=[flipped], keywords=[])
        return node

    def visit_ListComp(self, node):
        node = self.generic_visit(node)
        return node

    def visit_Call(self, node):
        node = self.generic_visit(node)
        # any([..]) / all([..]) : list and generator forms are the same test
        if isinstance(node.func, ast.Name) and node.func.id in ('any', 'all') and len(node.args) == 1 and isinstance(node.args[0], ast.ListComp):
            node.args[0] = ast.GeneratorExp(elt=node.args[0].elt, generators=node.args[0].generators)
        # any(f(y) == X for y in S)  (no filter, X free of y)  ->  X in [f(y) for y in S] : a membership test
        if isinstance(node.func, ast.Name) and node.func.id == 'any' and len(node.args) == 1 and isinstance(node.args[0], ast.GeneratorExp) and \
                len(node.args[0].generators) == 1 and not node.args[0].generators[0].ifs and isinstance(node.args[0].elt, ast.Compare) and \
                len(node.args[0].elt.ops) == 1 and isinstance(node.args[0].elt.ops[0], ast.Eq):
            g = node.args[0].generators[0]
            bound = {x.id for x in ast.walk(g.target) if isinstance(x, ast.Name)}
            a, b = node.args[0].elt.left, node.args[0].elt.comparators[0]

            def free(e):
                return not any(isinstance(x, ast.Name) and x.id in bound for x in ast.walk(e))
            if free(a) != free(b):
                x_, f_ = (a, b) if free(a) else (b, a)
                return ast.Compare(left=x_, ops=[ast.In()], comparators=[ast.ListComp(elt=f_, generators=[g])])
        return node

    def visit_Compare(self, node):
        node = self.generic_visit(node)
        if len(node.ops) != 1:
            return node
        op, l, r = node.ops[0], node.left, node.comparators[0]
        # k in d.keys()  ->  k in d
        if isinstance(op, (ast.In, ast.NotIn)) and _is_call(r, 'keys', (0,)) and isinstance(r.func, ast.Attribute):
            r = r.func.value
            node = ast.Compare(left=l, ops=[op], comparators=[r])
        # d.get(k[, None]) is [not] None  ->  k [not] in d
        if isinstance(op, (ast.Is, ast.IsNot, ast.Eq, ast.NotEq)) and _is_none(r) and _is_call(l, 'get', (1, 2)) \
                and isinstance(l.func, ast.Attribute) and (len(l.args) == 1 or _is_none(l.args[1])) and not l.keywords:
            newop = ast.NotIn() if isinstance(op, (ast.Is, ast.Eq)) else ast.In()
            return ast.Compare(left=l.args[0], ops=[newop], comparators=[l.func.value])
        # len(x) == 0 -> not x ; len(x) > 0 / != 0 / >= 1 -> bool-of x (kept as x)
        if _is_call(l, 'len', (1,)) and isinstance(l.func, ast.Name) and isinstance(r, ast.Constant) \
                and isinstance(r.value, int) and not isinstance(r.value, bool):
            x = l.args[0]
            if (isinstance(op, ast.Eq) and r.value == 0) or (isinstance(op, ast.Lt) and r.value == 1) or \
                    (isinstance(op, ast.LtE) and r.value == 0):
                return ast.UnaryOp(op=ast.Not(), operand=x)
            if (isinstance(op, (ast.NotEq, ast.Gt)) and r.value == 0) or (isinstance(op, ast.GtE) and r.value == 1):
                return x
        # mirrored comparisons
        if type(op) in _MIRROR:
            return ast.Compare(left=r, ops=[_MIRROR[type(op)]()], comparators=[l])
        if isinstance(op, (ast.Eq, ast.NotEq)):
            if ast.unparse(l) > ast.unparse(r) and not isinstance(r, ast.Constant) or isinstance(l, ast.Constant) and \
                    not isinstance(r, ast.Constant):
                return ast.Compare(left=r, ops=[op], comparators=[l])
        return node


def canon(expr):
    """Canonical form (a new tree)."""
    if expr is None:
        return None
    return ast.fix_missing_locations(_Canon().visit(clone(expr)))


def ctext(expr, env=None):
    """Canonical text of an expression after copy propagation."""
    if expr is None:
        return ''
    e = expand(expr, env) if env else clone(expr)
    return ' '.join(ast.unparse(canon(e)).split())


def conjuncts(test):
    """Flatten ``a and b and c`` (after canonicalisation) into [a, b, c]."""
    if isinstance(test, ast.BoolOp) and isinstance(test.op, ast.And):
        out = []
        for v in test.values:
            out.extend(conjuncts(v))
        return out
    return [test]


def negate(test):
    return canon(ast.UnaryOp(op=ast.Not(), operand=clone(test)))


# ---------------------------------------------------------------------------
# helper inlining
# ---------------------------------------------------------------------------

class NoInline(Exception):
    pass


def _is_private(name):
    return name.startswith('_') and not (name.startswith('__') and name.endswith('__'))


def _decorators(fn):
    out = set()
    for d in fn.decorator_list:
        if isinstance(d, ast.Name):
            out.add(d.id)
        elif isinstance(d, ast.Attribute):
            out.add(d.attr)
    return out


# attributes whose class is fixed by the constructors of the user-level API (ModelElement.topo is the Topology the element
# belongs to; Topology.graph_model is its property graph)
RECEIVER_CLASSES = {
    'self.topo': 'fim.user.topology:Topology',
}


def resolve_helper(prog, cls, module, call, public=(), exclude=(), generators=False):
    """(helper FunctionDef, defining ClassInfo or None, skip_first_param) for a call to a private helper of the same
    class (self.x / cls.x / ClassName.x) or module (x); None when the callee is not such a helper."""
    f = call.func
    name = None
    owner = None
    if isinstance(f, ast.Attribute) and isinstance(f.value, ast.Attribute) and _is_private(f.attr) and f.attr not in exclude:
        # a private helper of another class reached through an attribute whose class is fixed by construction
        spec = RECEIVER_CLASSES.get(ast.unparse(f.value))
        if spec is not None:
            try:
                oc = prog.cls(spec)
            except Exception:
                oc = None
            if oc is not None:
                owner, fn = oc.find_method(f.attr)
                if fn is not None and f.attr not in owner.properties and 'staticmethod' not in _decorators(fn):
                    return fn, owner, True
        return None
    if isinstance(f, ast.Attribute) and isinstance(f.value, ast.Name):
        name = f.attr
        recv = f.value.id
        if cls is None:
            return None
        if recv in ('self', 'cls') or recv == cls.simple or any(c.simple == recv for c in cls.mro()):
            if name.startswith('__') and not name.endswith('__'):
                fn = cls.methods.get(name)
                owner = cls if fn is not None else None
                if fn is None:
                    for c in cls.mro():
                        if name in c.methods:
                            owner, fn = c, c.methods[name]
                            break
            else:
                owner, fn = cls.find_method(name)
            if fn is None:
                return None
        else:
            return None
    elif isinstance(f, ast.Name):
        name = f.id
        fn = module.functions.get(name) if module is not None else None
        if fn is None and module is not None and name in module.imports:
            # a module-level function of the package imported by name
            target = module.imports[name]
            modname, _, fname = target.rpartition('.')
            m2 = prog.modules.get(modname)
            if m2 is not None and fname in m2.functions:
                fn = m2.functions[fname]
        if fn is None:
            return None
        # module-level functions of the library are few and are helpers by nature: all of them are inlinable
        if name in exclude or (not generators and any(isinstance(x, (ast.Yield, ast.YieldFrom)) for x in ast.walk(fn))):
            return None
        return fn, None, False
    else:
        return None
    if not (_is_private(name) or name in public) or name in exclude:
        return None
    if owner is not None and name in owner.properties:
        return None
    decos = _decorators(fn)
    skip_first = owner is not None and 'staticmethod' not in decos
    return fn, owner, skip_first


def _bind(helper, call, skip_first):
    """param name -> argument expression. Raises NoInline on *args/**kwargs at the call site."""
    a = helper.args
    if any(isinstance(x, ast.Starred) for x in call.args) or any(k.arg is None for k in call.keywords):
        raise NoInline('star arguments at the call site')
    params = [x.arg for x in a.posonlyargs + a.args]
    defaults = dict(zip(params[len(params) - len(a.defaults):], a.defaults))
    if skip_first and params:
        first = params[0]
        params = params[1:]
    else:
        first = None
    binding = {}
    pos = list(call.args)
    for p in params:
        if pos:
            binding[p] = pos.pop(0)
    if pos:
        if a.vararg is None:
            raise NoInline('too many positional arguments')
        binding[a.vararg.arg] = ast.Tuple(elts=pos, ctx=ast.Load())
    elif a.vararg is not None:
        binding[a.vararg.arg] = ast.Tuple(elts=[], ctx=ast.Load())
    kwonly = [x.arg for x in a.kwonlyargs]
    kwdefaults = {x.arg: d for x, d in zip(a.kwonlyargs, a.kw_defaults) if d is not None}
    extra = {}
    for k in call.keywords:
        if k.arg in params or k.arg in kwonly:
            binding[k.arg] = k.value
        else:
            extra[k.arg] = k.value
    if extra:
        if a.kwarg is None:
            raise NoInline('unexpected keyword')
        binding[a.kwarg.arg] = ast.Dict(keys=[ast.Constant(value=k) for k in extra], values=list(extra.values()))
    elif a.kwarg is not None:
        binding[a.kwarg.arg] = ast.Dict(keys=[], values=[])
    for p in params:
        if p not in binding:
            if p in defaults:
                binding[p] = defaults[p]
            else:
                raise NoInline(f'parameter {p} not bound')
    for p in kwonly:
        if p not in binding:
            if p in kwdefaults:
                binding[p] = kwdefaults[p]
            else:
                raise NoInline(f'parameter {p} not bound')
    if first is not None and isinstance(call.func, ast.Attribute):
        if isinstance(call.func.value, ast.Name) and call.func.value.id in ('self', 'cls'):
            binding[first] = call.func.value
        elif isinstance(call.func.value, ast.Attribute) and ast.unparse(call.func.value) in RECEIVER_CLASSES:
            binding[first] = call.func.value
        else:
            binding[first] = ast.Name(id=first, ctx=ast.Load())
    return binding


class _Subst(ast.NodeTransformer):
    def __init__(self, mapping, renames):
        self.mapping = mapping
        self.renames = renames

    def visit_Name(self, node):
        if isinstance(node.ctx, ast.Load) and node.id in self.mapping:
            return ast.copy_location(clone(self.mapping[node.id]), node)
        if node.id in self.renames:
            return ast.copy_location(ast.Name(id=self.renames[node.id], ctx=node.ctx), node)
        return node

    def visit_ExceptHandler(self, node):
        node = self.generic_visit(node)
        if node.name in self.renames:
            node.name = self.renames[node.name]
        return node


def _body_no_doc(fn):
    body = list(fn.body)
    if body and isinstance(body[0], ast.Expr) and isinstance(body[0].value, ast.Constant) and \
            isinstance(body[0].value.value, str):
        body = body[1:]
    return body


def _always_exits(stmts):
    if not stmts:
        return False
    last = stmts[-1]
    if isinstance(last, (ast.Return, ast.Raise)):
        return True
    if isinstance(last, ast.If):
        return _always_exits(last.body) and _always_exits(last.orelse)
    if isinstance(last, ast.With):
        return _always_exits(last.body)
    if isinstance(last, ast.Try):
        if last.finalbody and _always_exits(last.finalbody):
            return True
        return _always_exits(last.body + last.orelse) and all(_always_exits(h.body) for h in last.handlers)
    return False


def _has_return(node):
    return any(isinstance(n, ast.Return) for n in walk_no_nested(node))


def _desugar(stmts, make):
    """Rewrite a helper body so that ``return E`` becomes ``make(E)`` and the statements after a conditional return move
    into the branches that do not return. Raises NoInline for returns inside loops/try/with (in non-tail position)."""
    out = []
    for i, s in enumerate(stmts):
        rest = stmts[i + 1:]
        if isinstance(s, ast.Return):
            out.extend(make(s))
            return out
        if not _has_return(s):
            out.append(s)
            continue
        if isinstance(s, ast.If):
            new = ast.If(test=s.test, body=_desugar(list(s.body) + ([] if _always_exits(s.body) else clone(rest)), make) or [ast.Pass()],
                         orelse=_desugar(list(s.orelse) + ([] if (s.orelse and _always_exits(s.orelse)) else clone(rest)), make))
            ast.copy_location(new, s)
            out.append(new)
            return out
        if isinstance(s, (ast.With, ast.Try)) and not rest:
            # tail position: the returns inside can be rewritten in place (nothing follows that must be skipped)
            new = copy.copy(s)
            if isinstance(s, ast.With):
                new.body = _desugar(list(s.body), make) or [ast.Pass()]
            else:
                new.body = _desugar(list(s.body), make) or [ast.Pass()]
                new.orelse = _desugar(list(s.orelse), make)
                new.handlers = []
                for h in s.handlers:
                    h2 = copy.copy(h)
                    h2.body = _desugar(list(h.body), make) or [ast.Pass()]
                    new.handlers.append(h2)
                if any(_has_return(x) for x in s.finalbody):
                    raise NoInline('return in finally')
            out.append(new)
            return out
        if isinstance(s, (ast.For, ast.While)) and not s.orelse and len(rest) <= 1 and \
                (not rest or (isinstance(rest[0], ast.Return) and (rest[0].value is None or isinstance(rest[0].value, (ast.Constant, ast.Name))))) and \
                not any(isinstance(x, (ast.For, ast.While)) and any(_has_return(y) for y in x.body) for b_ in s.body for x in ast.walk(b_)):
            # the search idiom: ``for e in C: ... if c: return V`` followed by ``return DEFAULT`` becomes
            # ``<make(DEFAULT)>; for e in C: ... if c: <make(V)>; break``
            default = rest[0] if rest else ast.copy_location(ast.Return(value=None), s)
            pre = make(default)

            def in_loop(body):
                res = []
                for j, b_ in enumerate(body):
                    if isinstance(b_, ast.Return):
                        res.extend(make(b_))
                        res.append(ast.copy_location(ast.Break(), b_))
                        return res
                    if not _has_return(b_):
                        res.append(b_)
                        continue
                    if isinstance(b_, ast.If):
                        nb = ast.If(test=b_.test, body=in_loop(list(b_.body)) or [ast.Pass()], orelse=in_loop(list(b_.orelse)))
                        res.append(ast.copy_location(nb, b_))
                        continue
                    raise NoInline(f'return inside {type(b_).__name__} inside a loop')
                return res
            new = copy.copy(s)
            new.body = in_loop(list(s.body)) or [ast.Pass()]
            out.extend(pre)
            out.append(new)
            return out
        raise NoInline(f'return inside {type(s).__name__} in non-tail position')
    return out


def _names_in(node):
    return {n.id for n in ast.walk(node) if isinstance(n, ast.Name)}


class _Inliner:
    def __init__(self, prog, cls, module, public=(), depth=3, exclude=()):
        self.exclude = tuple(exclude)
        self.prog = prog
        self.cls = cls
        self.module = module
        self.public = tuple(public)
        self.depth = depth
        self.inlined = []       # names of helpers inlined
        self.counter = 0

    # -- expression helpers: body is a single ``return E``
    def _expr_helper(self, call, stack):
        r = resolve_helper(self.prog, self.cls, self.module, call, self.public, self.exclude)
        if r is None:
            return None
        fn, owner, skip = r
        if fn.name in stack or len(stack) >= self.depth:
            return None
        body = _body_no_doc(fn)
        if len(body) != 1 or not isinstance(body[0], ast.Return) or body[0].value is None:
            return None
        try:
            binding = _bind(fn, call, skip)
        except NoInline:
            return None
        e = _Subst(binding, {}).visit(clone(body[0].value))
        self.inlined.append(fn.name)
        e = self._inline_exprs(e, stack + [fn.name])
        self._mark(e, fn, owner)
        return e

    def _inline_exprs(self, node, stack):
        inl = self

        class T(ast.NodeTransformer):
            def visit_Call(self, n):
                n = self.generic_visit(n)
                e = inl._expr_helper(n, stack)
                return ast.copy_location(e, n) if e is not None else n

            def visit_Lambda(self, n):
                return n

            def visit_FunctionDef(self, n):
                return n
        return T().visit(node)

    def _mark(self, node, fn, owner):
        mod = owner.module if owner is not None else self.module
        for n in ast.walk(node):
            if not hasattr(n, '_src_fn'):
                n._src_fn = fn.name
                n._src_module = mod

    def _stmt_helper(self, st, caller_names, stack):
        """If statement ``st`` is ``helper(...)``, ``x = helper(...)`` or ``return helper(...)``: list of replacement
        statements, else None."""
        if isinstance(st, ast.Expr) and isinstance(st.value, ast.Call):
            call, kind = st.value, 'expr'
        elif isinstance(st, ast.Assign) and isinstance(st.value, ast.Call):
            call, kind = st.value, 'assign'
        elif isinstance(st, ast.AnnAssign) and isinstance(st.value, ast.Call):
            call, kind = st.value, 'assign'
        elif isinstance(st, ast.Return) and isinstance(st.value, ast.Call):
            call, kind = st.value, 'return'
        else:
            return None
        r = resolve_helper(self.prog, self.cls, self.module, call, self.public, self.exclude)
        if r is None:
            return None
        fn, owner, skip = r
        if fn.name in stack or len(stack) >= self.depth:
            return None
        if any(isinstance(n, (ast.Yield, ast.YieldFrom)) for n in walk_no_nested(fn)):
            return None
        try:
            binding = _bind(fn, call, skip)
            stored = stored_names(fn)
            prefix = []
            renames = {}
            self.counter += 1
            uses = {}
            for n_ in ast.walk(fn):
                if isinstance(n_, ast.Name) and isinstance(n_.ctx, ast.Load):
                    uses[n_.id] = uses.get(n_.id, 0) + 1
            for p in list(binding):
                computed = any(isinstance(x, ast.Call) for x in ast.walk(binding[p])) and uses.get(p, 0) > 1
                if p in stored or computed:
                    # the helper rebinds its parameter (or uses a computed argument more than once): keep it as a local
                    # initialised from the argument
                    new = p if p not in caller_names else f'{p}__{fn.name.strip("_")}{self.counter}'
                    prefix.append(ast.copy_location(
                        ast.Assign(targets=[ast.Name(id=new, ctx=ast.Store())], value=binding.pop(p), lineno=st.lineno), st))
                    if new != p:
                        renames[p] = new
            for name in stored:
                if name in caller_names and name not in renames and name not in func_params(fn):
                    renames[name] = f'{name}__{fn.name.strip("_")}{self.counter}'
            body = [_Subst(binding, renames).visit(clone(s)) for s in _body_no_doc(fn)]
            if kind == 'return':
                new_body = body        # returns stay returns
                if not _always_exits(new_body):
                    new_body = new_body + [ast.copy_location(ast.Return(value=ast.Constant(value=None)), st)]
            else:
                if kind == 'assign':
                    targets = st.targets if isinstance(st, ast.Assign) else [st.target]

                    def make(ret, targets=targets):
                        v = ret.value if ret.value is not None else ast.Constant(value=None)
                        return [ast.copy_location(ast.Assign(targets=clone(targets), value=v, lineno=ret.lineno), ret)]
                else:
                    def make(ret):
                        if ret.value is None or isinstance(ret.value, (ast.Constant, ast.Name)):
                            return []
                        return [ast.copy_location(ast.Expr(value=ret.value), ret)]
                falls = not _always_exits(body)
                new_body = _desugar(body, make)
                if kind == 'assign' and falls:
                    new_body = new_body + make(ast.copy_location(ast.Return(value=None), st))
        except NoInline:
            return None
        for s in prefix + new_body:
            self._mark(s, fn, owner)
        self.inlined.append(fn.name)
        inner_names = caller_names | set().union(*[_names_in(s) for s in new_body]) if new_body else caller_names
        return prefix + self._block(new_body, inner_names, stack + [fn.name])

    def _gen_helper(self, st, caller_names, stack):
        """``T = set(g(..))`` / ``T = list(g(..))`` / ``T.update(g(..))`` / ``T.extend(g(..))`` / ``return list(g(..))`` with ``g`` a
        generator helper (no ``return`` of its own): the helper's body with every ``yield E`` turned into ``T.add(E)`` /
        ``T.append(E)`` and every ``yield from G`` into ``T.update(G)`` / ``T.extend(G)``. None when the statement is not of
        that form."""
        pre, tname, adder, ext, tail = [], None, None, None, []
        v = st.value if isinstance(st, (ast.Assign, ast.Return, ast.Expr)) else None
        if isinstance(st, ast.Assign) and len(st.targets) == 1 and isinstance(st.targets[0], ast.Name) and isinstance(v, ast.Call) and \
                isinstance(v.func, ast.Name) and v.func.id in ('set', 'list') and len(v.args) == 1 and not v.keywords and isinstance(v.args[0], ast.Call):
            tname, call = st.targets[0].id, v.args[0]
            adder, ext = ('add', 'update') if v.func.id == 'set' else ('append', 'extend')
            pre = [ast.Assign(targets=[ast.Name(id=tname, ctx=ast.Store())], value=ast.Call(func=ast.Name(id=v.func.id, ctx=ast.Load()), args=[], keywords=[]),
                              lineno=st.lineno)]
        elif isinstance(st, ast.Return) and isinstance(v, ast.Call) and isinstance(v.func, ast.Name) and v.func.id in ('set', 'list') and \
                len(v.args) == 1 and not v.keywords and isinstance(v.args[0], ast.Call):
            self.counter += 1
            tname, call = f'_gz{self.counter}', v.args[0]
            adder, ext = ('add', 'update') if v.func.id == 'set' else ('append', 'extend')
            pre = [ast.Assign(targets=[ast.Name(id=tname, ctx=ast.Store())], value=ast.Call(func=ast.Name(id=v.func.id, ctx=ast.Load()), args=[], keywords=[]),
                              lineno=st.lineno)]
            tail = [ast.Return(value=ast.Name(id=tname, ctx=ast.Load()))]
        elif isinstance(st, ast.Expr) and isinstance(v, ast.Call) and isinstance(v.func, ast.Attribute) and v.func.attr in ('update', 'extend') and \
                isinstance(v.func.value, ast.Name) and len(v.args) == 1 and not v.keywords and isinstance(v.args[0], ast.Call):
            tname, call = v.func.value.id, v.args[0]
            adder, ext = ('add', 'update') if v.func.attr == 'update' else ('append', 'extend')
        else:
            return None
        r = resolve_helper(self.prog, self.cls, self.module, call, self.public, self.exclude, generators=True)
        if r is None:
            return None
        fn, owner, skip = r
        if fn.name in stack or len(stack) >= self.depth:
            return None
        if not any(isinstance(n, (ast.Yield, ast.YieldFrom)) for n in walk_no_nested(fn)):
            return None
        if any(isinstance(n, ast.Return) for n in walk_no_nested(fn)):
            return None
        try:
            binding = _bind(fn, call, skip)
        except NoInline:
            return None
        stored = stored_names(fn)
        self.counter += 1
        renames, prefix = {}, []
        for p_ in list(binding):
            if p_ in stored:
                new = p_ if p_ not in caller_names else f'{p_}__{fn.name.strip("_")}{self.counter}'
                prefix.append(ast.Assign(targets=[ast.Name(id=new, ctx=ast.Store())], value=binding.pop(p_), lineno=st.lineno))
                if new != p_:
                    renames[p_] = new
        for name in stored:
            if name in caller_names and name not in renames and name not in func_params(fn):
                renames[name] = f'{name}__{fn.name.strip("_")}{self.counter}'
        body = [_Subst(binding, renames).visit(clone(s_)) for s_ in _body_no_doc(fn)]
        ok = [True]

        def tcall(meth, arg):
            return ast.Expr(value=ast.Call(func=ast.Attribute(value=ast.Name(id=tname, ctx=ast.Load()), attr=meth, ctx=ast.Load()), args=[arg], keywords=[]))

        class Y(ast.NodeTransformer):
            def visit_Expr(self, n):
                if isinstance(n.value, ast.Yield):
                    return ast.copy_location(tcall(adder, n.value.value if n.value.value is not None else ast.Constant(value=None)), n)
                if isinstance(n.value, ast.YieldFrom):
                    return ast.copy_location(tcall(ext, n.value.value), n)
                return n

            def visit_FunctionDef(self, n):
                return n

            def visit_Lambda(self, n):
                return n
        body = [Y().visit(b_) for b_ in body]
        if any(isinstance(x, (ast.Yield, ast.YieldFrom)) for b_ in body for x in walk_no_nested(b_)):
            return None
        new_body = pre + prefix + body + tail
        for x in new_body:
            ast.copy_location(x, st)
            for y in ast.walk(x):
                if isinstance(y, (ast.stmt, ast.expr)) and not hasattr(y, 'lineno'):
                    ast.copy_location(y, st)
        for s_ in prefix + body:
            self._mark(s_, fn, owner)
        self.inlined.append(fn.name)
        inner_names = caller_names | set().union(*[_names_in(s_) for s_ in new_body])
        return self._block(new_body, inner_names, stack + [fn.name])

    def _hoist(self, st, caller_names, stack):
        """Calls to multi-statement helpers nested inside the expressions of a simple statement (or an if test) are
        hoisted into ``tmp = helper(...)`` statements placed before it (evaluation order is irrelevant for shape rules)."""
        if isinstance(st, (ast.Expr, ast.Assign, ast.AnnAssign, ast.AugAssign, ast.Return)):
            top = st.value
            roots = [st.value] if st.value is not None else []
        elif isinstance(st, ast.If):
            top = None
            roots = [st.test]
        else:
            return [], st
        found = []

        def unconditional_calls(node):
            """calls evaluated exactly once whenever the statement runs (not inside comprehensions, lambdas, conditional
            expressions or the right operands of and/or)"""
            if isinstance(node, (ast.ListComp, ast.SetComp, ast.DictComp, ast.GeneratorExp, ast.Lambda)):
                return
            if isinstance(node, ast.IfExp):
                yield from unconditional_calls(node.test)
                return
            if isinstance(node, ast.BoolOp):
                yield from unconditional_calls(node.values[0])
                return
            if isinstance(node, ast.Call):
                yield node
            for ch in ast.iter_child_nodes(node):
                yield from unconditional_calls(ch)
        for root in roots:
            for c in unconditional_calls(root):
                if isinstance(c, ast.Call) and c is not top:
                    r = resolve_helper(self.prog, self.cls, self.module, c, self.public, self.exclude)
                    if r is None or r[0].name in stack or len(stack) >= self.depth:
                        continue
                    body = _body_no_doc(r[0])
                    if len(body) == 1 and isinstance(body[0], ast.Return):
                        continue        # expression helper, substituted in place
                    if any(isinstance(n, (ast.Yield, ast.YieldFrom)) for n in walk_no_nested(r[0])):
                        continue
                    found.append(c)
        if not found:
            return [], st
        pre = []
        mapping = {}
        for c in found:
            self.counter += 1
            tmp = f'_h{self.counter}_{call_name(c).strip("_")}'
            mapping[id(c)] = tmp
            pre.append(ast.copy_location(ast.Assign(targets=[ast.Name(id=tmp, ctx=ast.Store())], value=c, lineno=st.lineno), st))

        class R(ast.NodeTransformer):
            def visit_Call(self, n):
                if id(n) in mapping:
                    return ast.copy_location(ast.Name(id=mapping[id(n)], ctx=ast.Load()), n)
                return self.generic_visit(n)
        st2 = copy.copy(st)
        if isinstance(st, ast.If):
            st2.test = R().visit(st.test)
        else:
            st2.value = R().visit(st.value)
        return pre, st2

    def _block(self, stmts, caller_names, stack):
        out = []
        queue = list(stmts)
        stmts = []
        for st in queue:
            pre, st2 = self._hoist(st, caller_names, stack)
            stmts.extend(pre)
            stmts.append(st2)
        for st in stmts:
            rep = self._gen_helper(st, caller_names, stack)
            if rep is None:
                rep = self._stmt_helper(st, caller_names, stack)
            if rep is not None:
                out.extend(rep)
                continue
            st = copy.copy(st)
            for field in ('body', 'orelse', 'finalbody'):
                v = getattr(st, field, None)
                if isinstance(v, list) and v and isinstance(v[0], ast.stmt):
                    setattr(st, field, self._block(v, caller_names, stack))
            if isinstance(st, ast.Try):
                hs = []
                for h in st.handlers:
                    h = copy.copy(h)
                    h.body = self._block(h.body, caller_names, stack)
                    hs.append(h)
                st.handlers = hs
            # expression-level helpers in the statement's own expressions
            for field, v in list(ast.iter_fields(st)):
                if isinstance(v, ast.expr):
                    setattr(st, field, self._inline_exprs(clone(v), stack))
                elif isinstance(v, list) and v and isinstance(v[0], ast.expr):
                    setattr(st, field, [self._inline_exprs(clone(x), stack) for x in v])
                elif isinstance(v, list) and v and isinstance(v[0], ast.withitem):
                    items = []
                    for it in v:
                        it = copy.copy(it)
                        it.context_expr = self._inline_exprs(clone(it.context_expr), stack)
                        items.append(it)
                    setattr(st, field, items)
            out.append(st)
        return out


def fold_getattr(tree):
    """``getattr(X, '<identifier>')`` (two arguments, constant name) -> ``X.<identifier>`` in place; the two are the
    same expression, and after a helper that receives a method name has been inlined only the first form is left."""
    class _G(ast.NodeTransformer):
        def visit_Call(self, node):
            self.generic_visit(node)
            if isinstance(node.func, ast.Name) and node.func.id == 'getattr' and len(node.args) == 2 and not node.keywords and \
                    isinstance(node.args[1], ast.Constant) and isinstance(node.args[1].value, str) and node.args[1].value.isidentifier():
                return ast.copy_location(ast.Attribute(value=node.args[0], attr=node.args[1].value, ctx=ast.Load()), node)
            return node
    _G().visit(tree)
    return tree


def inline(prog, cls, fn, public=(), depth=3, module=None, exclude=()):
    """A copy of ``fn`` with calls to private helpers (and the named ``public`` ones) of the same class / module inlined.
    The copy has ``_inlined`` (list of helper names), ``_cls`` and parent links; node line numbers are those of the
    original statements (helper statements keep the helper's, and carry ``_src_module`` / ``_src_fn``)."""
    cache = prog.__dict__.setdefault('_inline_cache', {})
    key = (id(fn), cls.qual if cls is not None else None, tuple(public), depth, tuple(exclude))
    if key in cache:
        return cache[key]
    if module is None:
        module = cls.module if cls is not None else getattr(fn, '_module', None)
    if module is None:
        for m in prog.modules.values():
            if fn in m.functions.values():
                module = m
    inl = _Inliner(prog, cls, module, public, depth, exclude)
    caller_names = _names_in(fn) | set(func_params(fn))
    new = clone(fn)
    new.body = inl._block(list(new.body), caller_names, [fn.name])
    new._inlined = inl.inlined
    new._cls = getattr(fn, '_cls', cls)
    new._orig = fn
    fold_getattr(new)
    scalarize_records(prog, new)
    ast.fix_missing_locations(new)
    for node in ast.walk(new):
        for child in ast.iter_child_nodes(node):
            child._parent = node
    cache[key] = new
    return new


def _namedtuples(prog):
    """{type name: [field, ...]} for every module-level ``N = namedtuple('N', [...])`` of the library"""
    cache = prog.__dict__.get('_namedtuple_cache')
    if cache is not None:
        return cache
    out = {}
    for m in prog.modules.values():
        for name, v in getattr(m, 'assigns', {}).items():
            if isinstance(v, ast.Call) and call_name(v) == 'namedtuple' and len(v.args) >= 2:
                f = v.args[1]
                fields = None
                if isinstance(f, (ast.List, ast.Tuple)) and all(isinstance(e, ast.Constant) and isinstance(e.value, str) for e in f.elts):
                    fields = [e.value for e in f.elts]
                elif isinstance(f, ast.Constant) and isinstance(f.value, str):
                    fields = f.value.replace(',', ' ').split()
                if fields:
                    out[name] = fields
    prog.__dict__['_namedtuple_cache'] = out
    return out


def scalarize_records(prog, fn):
    """In place: a local that is only ever bound to ``N(...)`` with N a namedtuple type of the library and only ever read as
    ``x.<field>`` is replaced by one local per field (``x__field``). After a helper that returns such a record has been
    inlined this gives back the plain assignments the helper's caller would have had."""
    nts = _namedtuples(prog)
    if not nts:
        return fn
    cands = {}
    for n in walk_no_nested(fn):
        if isinstance(n, ast.Assign) and len(n.targets) == 1 and isinstance(n.targets[0], ast.Name) and isinstance(n.value, ast.Call) and \
                call_name(n.value) in nts and not any(isinstance(a, ast.Starred) for a in n.value.args) and all(k.arg for k in n.value.keywords):
            cands.setdefault(n.targets[0].id, []).append(n)
    if not cands:
        return fn
    parents = {}
    for node in ast.walk(fn):
        for ch in ast.iter_child_nodes(node):
            parents[id(ch)] = node
    for x, assigns in list(cands.items()):
        tnames = {call_name(a.value) for a in assigns}
        if len(tnames) != 1:
            cands.pop(x)
            continue
        fields = nts[next(iter(tnames))]
        ok = True
        for n in ast.walk(fn):
            if isinstance(n, ast.Name) and n.id == x:
                par = parents.get(id(n))
                if isinstance(n.ctx, ast.Store):
                    if not (isinstance(par, ast.Assign) and par in assigns):
                        ok = False
                elif not (isinstance(par, ast.Attribute) and par.value is n and par.attr in fields and isinstance(par.ctx, ast.Load)):
                    ok = False
        if not ok:
            cands.pop(x)
    if not cands:
        return fn

    class R(ast.NodeTransformer):
        def visit_Attribute(self, n):
            if isinstance(n.value, ast.Name) and n.value.id in cands:
                return ast.copy_location(ast.Name(id=f'{n.value.id}__{n.attr}', ctx=ast.Load()), n)
            return self.generic_visit(n)

    def block(stmts):
        out = []
        for st in stmts:
            if isinstance(st, ast.Assign) and len(st.targets) == 1 and isinstance(st.targets[0], ast.Name) and st.targets[0].id in cands and \
                    any(st is a for a in cands[st.targets[0].id]):
                x = st.targets[0].id
                fields = nts[call_name(st.value)]
                vals = dict(zip(fields, st.value.args))
                vals.update({k.arg: k.value for k in st.value.keywords})
                for f in fields:
                    v = vals.get(f, ast.Constant(value=None))
                    out.append(ast.copy_location(ast.Assign(targets=[ast.Name(id=f'{x}__{f}', ctx=ast.Store())], value=R().visit(v), lineno=st.lineno), st))
                continue
            for field in ('body', 'orelse', 'finalbody'):
                v = getattr(st, field, None)
                if isinstance(v, list) and v and isinstance(v[0], ast.stmt):
                    setattr(st, field, block(v))
            for h in getattr(st, 'handlers', []) or []:
                h.body = block(h.body)
            out.append(st)
        return out
    fn.body = block(fn.body)
    R().visit(fn)
    return fn


# ---------------------------------------------------------------------------
# collection builders
# ---------------------------------------------------------------------------

class Builder:
    """One way a local collection gets elements: ``elt`` (or key/value) produced under ``gens`` =
    [(target, iter)] and ``conds`` = [test, ...] (all must hold)."""
    def __init__(self, name, kind, elt, gens, conds, node, key=None):
        self.name = name
        self.kind = kind        # 'list' | 'set' | 'dict' | 'gen'
        self.elt = elt
        self.key = key
        self.gens = gens
        self.conds = conds
        self.node = node

    def __repr__(self):
        return f'<Builder {self.name} {self.kind} elt={ast.unparse(self.elt)} gens={[(ast.unparse(t), ast.unparse(i)) for t, i in self.gens]} ' \
               f'conds={[ast.unparse(c) for c in self.conds]}>'


def comp_builder(name, comp):
    if isinstance(comp, (ast.ListComp, ast.SetComp, ast.GeneratorExp)):
        kind = {'ListComp': 'list', 'SetComp': 'set', 'GeneratorExp': 'gen'}[type(comp).__name__]
        elt, key = comp.elt, None
    elif isinstance(comp, ast.DictComp):
        kind, elt, key = 'dict', comp.value, comp.key
    else:
        return None
    gens = [(g.target, g.iter) for g in comp.generators]
    conds = [c for g in comp.generators for c in g.ifs]
    return Builder(name, kind, elt, gens, conds, comp, key)


def _unwrap_collection_call(e):
    """list(<comp>) / set(<comp>) / sorted(<comp>) / tuple(<comp>) -> <comp>"""
    while isinstance(e, ast.Call) and isinstance(e.func, ast.Name) and e.func.id in ('list', 'set', 'tuple', 'sorted', 'frozenset') \
            and len(e.args) == 1:
        e = e.args[0]
    return e


def builders(fn):
    """name -> [Builder]. Recognised: ``name = [..comp..]`` (also wrapped in list()/set()), ``name.append(e)`` /
    ``name.add(e)`` / ``name[k] = v`` under any nest of ``for`` and ``if`` statements, ``name = list(filter(lambda x: c, it))``."""
    out = {}
    for n in walk_no_nested(fn):
        if isinstance(n, ast.Assign) and len(n.targets) == 1 and isinstance(n.targets[0], ast.Name):
            v = _unwrap_collection_call(n.value)
            b = comp_builder(n.targets[0].id, v)
            if b is None and isinstance(v, ast.Call) and isinstance(v.func, ast.Name) and v.func.id == 'filter' and \
                    len(v.args) == 2 and isinstance(v.args[0], ast.Lambda) and len(v.args[0].args.args) == 1:
                lam = v.args[0]
                tgt = ast.Name(id=lam.args.args[0].arg, ctx=ast.Store())
                b = Builder(n.targets[0].id, 'list', ast.Name(id=lam.args.args[0].arg, ctx=ast.Load()),
                            [(tgt, v.args[1])], [lam.body], n.value)
            if b is not None:
                out.setdefault(b.name, []).append(b)
        elif isinstance(n, ast.Call) and isinstance(n.func, ast.Attribute) and n.func.attr in ('append', 'add') and \
                isinstance(n.func.value, ast.Name) and len(n.args) == 1:
            gens, conds = _enclosing(n, fn)
            kind = 'list' if n.func.attr == 'append' else 'set'
            out.setdefault(n.func.value.id, []).append(Builder(n.func.value.id, kind, n.args[0], gens, conds, n))
        elif isinstance(n, ast.Assign) and len(n.targets) == 1 and isinstance(n.targets[0], ast.Subscript) and \
                isinstance(n.targets[0].value, ast.Name):
            gens, conds = _enclosing(n, fn)
            t = n.targets[0]
            out.setdefault(t.value.id, []).append(Builder(t.value.id, 'dict', n.value, gens, conds, n, key=t.slice))
    return out


def _enclosing(node, fn):
    """(gens, conds) of the for / if statements that enclose ``node`` inside ``fn`` (outermost first)."""
    gens, conds = [], []
    child = node
    p = getattr(node, '_parent', None)
    while p is not None and p is not fn:
        if isinstance(p, (ast.For, ast.AsyncFor)) and _in_list(child, p.body):
            gens.append((p.target, p.iter))
        elif isinstance(p, ast.If):
            if _in_list(child, p.body):
                conds.append(p.test)
            elif _in_list(child, p.orelse):
                conds.append(ast.UnaryOp(op=ast.Not(), operand=p.test))
        child = p
        p = getattr(p, '_parent', None)
    gens.reverse()
    conds.reverse()
    # guard-clause form: ``if c: continue`` before the statement inside the same loop body
    extra = []
    st = node
    while st is not None and not isinstance(st, ast.stmt):
        st = getattr(st, '_parent', None)
    blk_owner = getattr(st, '_parent', None) if st is not None else None
    while st is not None and blk_owner is not None:
        for field in ('body', 'orelse', 'finalbody'):
            blk = getattr(blk_owner, field, None)
            if isinstance(blk, list) and any(st is x for x in blk):
                idx = [k for k, x in enumerate(blk) if x is st][0]
                for prev in blk[:idx]:
                    if isinstance(prev, ast.If) and not prev.orelse and prev.body and \
                            isinstance(prev.body[-1], (ast.Continue, ast.Return, ast.Raise, ast.Break)):
                        g_ = ast.UnaryOp(op=ast.Not(), operand=prev.test)
                        g_._guard = type(prev.body[-1]).__name__        # 'Raise' | 'Return' | 'Continue' | 'Break'
                        extra.append(g_)
        if blk_owner is fn:
            break
        st = blk_owner
        blk_owner = getattr(blk_owner, '_parent', None)
    return gens, conds + extra


def _in_list(node, lst):
    return any(node is x for x in lst)


# ---------------------------------------------------------------------------
# partial evaluation of a test for a given binding of sub-expressions to constants
# ---------------------------------------------------------------------------

class Unknown(Exception):
    pass


def eval_test(expr, bindings, fold=None):
    """Evaluate ``expr`` where every sub-expression whose canonical text is a key of ``bindings`` has that constant value.
    ``fold(e)`` may fold other constant expressions (class constants ...). Only total, side-effect free operators are
    interpreted: comparisons, boolean operators, not, len(), str methods lower/upper/strip, isinstance(x, str/int/...).
    Raises Unknown for anything else."""
    key = ' '.join(ast.unparse(expr).split())
    if key in bindings:
        return bindings[key]
    ev = lambda e: eval_test(e, bindings, fold)
    if isinstance(expr, ast.Constant):
        return expr.value
    if isinstance(expr, ast.BoolOp):
        if isinstance(expr.op, ast.And):
            r = True
            for v in expr.values:
                r = ev(v)
                if not r:
                    return r
            return r
        r = False
        for v in expr.values:
            r = ev(v)
            if r:
                return r
        return r
    if isinstance(expr, ast.UnaryOp) and isinstance(expr.op, ast.Not):
        return not ev(expr.operand)
    if isinstance(expr, ast.Compare):
        left = ev(expr.left)
        for op, c in zip(expr.ops, expr.comparators):
            right = ev(c)
            try:
                if isinstance(op, ast.Is):
                    ok = left is right
                elif isinstance(op, ast.IsNot):
                    ok = left is not right
                elif isinstance(op, ast.Eq):
                    ok = left == right
                elif isinstance(op, ast.NotEq):
                    ok = left != right
                elif isinstance(op, ast.Lt):
                    ok = left < right
                elif isinstance(op, ast.LtE):
                    ok = left <= right
                elif isinstance(op, ast.Gt):
                    ok = left > right
                elif isinstance(op, ast.GtE):
                    ok = left >= right
                elif isinstance(op, ast.In):
                    ok = left in right
                elif isinstance(op, ast.NotIn):
                    ok = left not in right
                else:
                    raise Unknown(ast.dump(op))
            except TypeError:
                raise Unknown('type error in comparison')
            if not ok:
                return False
            left = right
        return True
    if isinstance(expr, ast.Call):
        if isinstance(expr.func, ast.Name) and expr.func.id == 'len' and len(expr.args) == 1:
            v = ev(expr.args[0])
            try:
                return len(v)
            except TypeError:
                raise Unknown('len of non-sized')
        if isinstance(expr.func, ast.Name) and expr.func.id == 'isinstance' and len(expr.args) == 2 and \
                isinstance(expr.args[1], ast.Name) and expr.args[1].id in ('str', 'int', 'float', 'list', 'dict', 'bool'):
            return isinstance(ev(expr.args[0]), {'str': str, 'int': int, 'float': float, 'list': list, 'dict': dict, 'bool': bool}[expr.args[1].id])
        if isinstance(expr.func, ast.Attribute) and expr.func.attr in ('lower', 'upper', 'strip') and not expr.args:
            v = ev(expr.func.value)
            if isinstance(v, str):
                return getattr(v, expr.func.attr)()
    if isinstance(expr, (ast.Tuple, ast.List, ast.Set)):
        return tuple(ev(x) for x in expr.elts)
    if fold is not None:
        try:
            return fold(expr)
        except Exception:
            pass
    raise Unknown(key)


# ---------------------------------------------------------------------------
# path-sensitive value extraction over a block of statements
# ---------------------------------------------------------------------------

class Outcome:
    """One way a sink statement is reached: ``conds`` = canonical texts of the conditions that hold on the path (negated
    tests are stored in negated canonical form), ``value`` = the sink's value expression with temporaries expanded and
    conditional expressions resolved, ``stmt`` = the sink statement, ``cond_nodes`` = the condition expressions."""
    def __init__(self, conds, value, stmt, cond_nodes, target=None):
        self.conds = conds
        self.value = value
        self.stmt = stmt
        self.cond_nodes = cond_nodes
        self.target = target

    @property
    def vtext(self):
        return ' '.join(ast.unparse(self.value).split()) if self.value is not None else None

    def __repr__(self):
        return f'<Outcome {self.conds} -> {self.vtext}>'


def _split_ifexp(e, conds, nodes):
    """[(conds, nodes, expr-without-top-level-IfExp)]"""
    if isinstance(e, ast.IfExp):
        t = canon(e.test)
        nt = negate(t)
        tt, ntt = ctext(t), ctext(nt)
        out = []
        if ntt not in conds:
            out += _split_ifexp(e.body, conds + [tt], nodes + [t])
        if tt not in conds:
            out += _split_ifexp(e.orelse, conds + [ntt], nodes + [nt])
        return out
    return [(conds, nodes, e)]


def split_target_ifexp(outcomes):
    """Outcomes whose *target* expression is a conditional expression, split into one outcome per branch (path conditions
    extended by the test / its negation) - the same resolution branch_values applies to values."""
    out = []
    for o in outcomes:
        if isinstance(o.target, ast.IfExp):
            for conds, nodes, e in _split_ifexp(o.target, list(o.conds), list(o.cond_nodes)):
                out.append(Outcome(conds, o.value, o.stmt, nodes, target=e))
        else:
            out.append(o)
    return out


def _replace_node(root, target, repl):
    """clone of `root` with the sub-tree `target` (identity) replaced by `repl`"""
    if root is target:
        return clone(repl)
    if isinstance(root, list):
        return [_replace_node(x, target, repl) for x in root]
    if not isinstance(root, ast.AST):
        return root
    new = type(root)()
    for f in root._fields:
        if hasattr(root, f):
            setattr(new, f, _replace_node(getattr(root, f), target, repl))
    for a in root._attributes:
        if hasattr(root, a):
            setattr(new, a, getattr(root, a))
    return new


def branch_values(stmts, sink, env0=None, max_paths=2000, follow_loops=False, opaque=()):
    """Enumerate the acyclic paths through ``stmts`` (if / elif / else, guard clauses with continue / return / raise /
    break) and return an Outcome for every execution of a sink statement. ``sink(stmt)`` returns the value expression of
    a sink statement (and optionally a (target, value) pair) or None. Local temporaries are propagated along each path.
    Loops / try / with blocks are entered as straight-line code when ``follow_loops`` is set, otherwise skipped
    (assignments inside them invalidate the temporaries they set)."""
    outcomes = []
    count = [0]

    def kill(env, node):
        names = {n.id for n in ast.walk(node) if isinstance(n, ast.Name) and isinstance(n.ctx, ast.Store)}
        return {k: v for k, v in env.items() if k not in names}

    def run(block, env, conds, nodes):
        count[0] += 1
        if count[0] > max_paths:
            raise Unknown('too many paths')
        for i, st in enumerate(block):
            rest = block[i + 1:]
            compound = isinstance(st, (ast.If, ast.For, ast.While, ast.Try, ast.With, ast.AsyncFor, ast.AsyncWith, ast.FunctionDef, ast.ClassDef))
            r = None if compound else sink(st)
            if r is not None:
                target, value = r if isinstance(r, tuple) else (None, r)
                v = expand(value, env) if value is not None else None
                t = expand(target, env) if target is not None else None
                if v is not None:
                    for c2, n2, e2 in _split_ifexp(v, list(conds), list(nodes)):
                        outcomes.append(Outcome(c2, canon(e2), st, n2, t))
                else:
                    outcomes.append(Outcome(list(conds), None, st, list(nodes), t))
            if isinstance(st, ast.Assign) and len(st.targets) == 1 and isinstance(st.targets[0], ast.Name):
                env = dict(env)
                if st.targets[0].id in opaque:
                    env.pop(st.targets[0].id, None)
                else:
                    env[st.targets[0].id] = expand(st.value, env)
                continue
            if isinstance(st, ast.AnnAssign) and isinstance(st.target, ast.Name) and st.value is not None:
                env = dict(env)
                env[st.target.id] = expand(st.value, env)
                continue
            if isinstance(st, (ast.Assign, ast.AugAssign, ast.AnnAssign)):
                env = kill(env, st)
                continue
            if isinstance(st, ast.If):
                t0 = expand(st.test, env)
                inner = next((x for x in ast.walk(t0) if isinstance(x, ast.IfExp)), None)
                if inner is not None:
                    # a conditional expression inside the test: case split on its condition
                    class _Sub(ast.NodeTransformer):
                        def __init__(self, target, repl):
                            self.target, self.repl = target, repl

                        def visit_IfExp(self, n):
                            return self.repl if n is self.target else self.generic_visit(n)
                    ct = canon(inner.test)
                    nct = negate(ct)
                    for cond_node, arm in ((ct, inner.body), (nct, inner.orelse)):
                        ctt, nctt = ctext(cond_node), ctext(negate(cond_node))
                        if nctt in conds:
                            continue
                        st2 = ast.If(test=_replace_node(t0, inner, arm), body=st.body, orelse=st.orelse)
                        ast.copy_location(st2, st)
                        run([st2] + rest, env, conds + ([ctt] if ctt not in conds else []), nodes + ([cond_node] if ctt not in conds else []))
                    return
                t = canon(t0)
                nt = negate(t)
                tt, ntt = ctext(t), ctext(nt)
                folded = None
                if isinstance(t, ast.Constant):
                    folded = bool(t.value)
                else:
                    try:
                        folded = bool(eval_test(t, {}))
                    except Unknown:
                        folded = None
                    except Exception:
                        folded = None
                if folded is not None:
                    # the test folded to a constant on this path (e.g. a temporary that is still None): one branch only
                    run(list(st.body if folded else st.orelse) + rest, env, conds, nodes)
                    return
                # a path that assumes both a condition and its negation is infeasible; a conjunction contributes its
                # conjuncts one by one (``if a and b`` and ``if a: if b`` give the same path conditions)
                def assume(c_node):
                    parts = c_node.values if isinstance(c_node, ast.BoolOp) and isinstance(c_node.op, ast.And) else [c_node]
                    cs, ns = list(conds), list(nodes)
                    for p_ in parts:
                        p_ = canon(p_)
                        pt, npt = ctext(p_), ctext(negate(p_))
                        if npt in cs:
                            return None
                        if pt not in cs:
                            cs.append(pt)
                            ns.append(p_)
                    return cs, ns
                a_true = assume(t) if ntt not in conds else None
                a_false = assume(nt) if tt not in conds else None
                if a_true is not None:
                    run(list(st.body) + rest, env, a_true[0], a_true[1])
                if a_false is not None:
                    run(list(st.orelse) + rest, env, a_false[0], a_false[1])
                return
            if isinstance(st, (ast.Return, ast.Raise, ast.Continue, ast.Break)):
                return
            if isinstance(st, (ast.For, ast.While, ast.With, ast.Try, ast.AsyncFor, ast.AsyncWith)):
                if follow_loops:
                    inner = list(st.body)
                    if isinstance(st, ast.Try):
                        inner = list(st.body) + list(st.orelse) + list(st.finalbody)
                    e2 = kill(env, st) if isinstance(st, (ast.For, ast.While)) else env
                    run(inner + rest, e2, conds, nodes)
                    if isinstance(st, (ast.For, ast.While)):
                        run(rest, e2, conds, nodes)
                    return
                env = kill(env, st)
                continue
            if isinstance(st, ast.Assert):
                t = canon(expand(st.test, env))
                conds = conds + [ctext(t)]
                nodes = nodes + [t]
                continue
    run(list(stmts), dict(env0 or {}), [], [])
    return outcomes


def merge_outcomes(outs, max_vars=14):
    """Boolean simplification of the outcomes of one sink. The outcomes of one statement (same value) form a DNF over the
    path conditions; a condition matters for the sink only if flipping it changes the truth of that DNF for some assignment
    (decided on the truth table, conditions treated as independent variables). Conditions that do not matter are dropped,
    e.g. an earlier, already closed ``if``; an early ``return`` guard stays."""
    import itertools
    groups = {}
    for o in outs:
        groups.setdefault((id(o.stmt), o.vtext, ctext(o.target) if o.target is not None else None), []).append(o)

    def form(n):
        """Boolean formula over atomic conditions: ('and'|'or', [..]) | ('not', f) | ('atom', var, polarity)."""
        if isinstance(n, ast.BoolOp):
            return ('and' if isinstance(n.op, ast.And) else 'or', [form(v) for v in n.values])
        if isinstance(n, ast.UnaryOp) and isinstance(n.op, ast.Not) and isinstance(n.operand, ast.BoolOp):
            return ('not', form(n.operand))
        t = ctext(n)
        nt = ctext(negate(n))
        var = min(t, nt)
        return ('atom', var, t == var)

    def atoms(f, acc):
        if f[0] == 'atom':
            acc.add(f[1])
        elif f[0] == 'not':
            atoms(f[1], acc)
        else:
            for g in f[1]:
                atoms(g, acc)
        return acc

    def ev(f, assign):
        if f[0] == 'atom':
            return assign[f[1]] == f[2]
        if f[0] == 'not':
            return not ev(f[1], assign)
        if f[0] == 'and':
            return all(ev(g, assign) for g in f[1])
        return any(ev(g, assign) for g in f[1])

    result = []
    for key, members in groups.items():
        terms = []          # [(text, node, formula)]
        for o in members:
            terms.append([(t, n, form(n)) for t, n in zip(o.conds, o.cond_nodes)])
        variables = sorted({v for term in terms for _, _, f in term for v in atoms(f, set())})
        if not terms:
            continue
        if len(variables) > max_vars:
            relevant = set(variables)
            live = terms
        else:
            def term_holds(term, assign):
                return all(ev(f, assign) for _, _, f in term)

            def holds(assign):
                return any(term_holds(t, assign) for t in terms)
            relevant = set()
            sat = [False] * len(terms)
            for bits in itertools.product((False, True), repeat=len(variables)):
                assign = dict(zip(variables, bits))
                for k, t in enumerate(terms):
                    if not sat[k] and term_holds(t, assign):
                        sat[k] = True
                base = holds(assign)
                for v in variables:
                    if v in relevant:
                        continue
                    assign[v] = not assign[v]
                    if holds(assign) != base:
                        relevant.add(v)
                    assign[v] = not assign[v]
            live = [t for k, t in enumerate(terms) if sat[k]]       # contradictory paths are dropped
            if not live:
                continue
        projected = {}
        for term in live:
            kept = [(t, n) for t, n, f in term if atoms(f, set()) & relevant]
            k = frozenset(t for t, _ in kept)
            projected.setdefault(k, dict(kept))
        keys = [a for a in projected if not any(b < a for b in projected)]      # absorption
        proto = members[0]
        for k in keys:
            texts = sorted(k)
            result.append(Outcome(texts, proto.value, proto.stmt, [projected[k][t] for t in texts], proto.target))
    return result


# ---------------------------------------------------------------------------
# value of an expression under an assumption about discriminating sub-expressions
# ---------------------------------------------------------------------------

def value_under(expr, bindings, fold, env=None, fn=None):
    """Constant value of ``expr`` given ``bindings`` (canonical text of a sub-expression -> constant) and a folder for
    constants; understands lookups in constant tables (``TABLE[k]``, ``TABLE.get(k, d)``), conditional expressions, and
    ``a or b`` / ``a and b`` on constants. Raises Unknown when the value is not determined."""
    e = expand(expr, env) if env else expr
    key = ' '.join(ast.unparse(e).split())
    if key in bindings:
        return bindings[key]
    if isinstance(e, ast.Constant):
        return e.value
    if isinstance(e, ast.Name) and fn is not None:
        # a local set in several branches: the definitions whose guards hold under the assumption
        vals = []
        for n in walk_no_nested(fn):
            if isinstance(n, ast.Assign) and any(isinstance(t, ast.Name) and t.id == e.id for t in n.targets):
                _, conds_ = _enclosing(n, fn)
                ok = True
                for c_ in conds_:
                    c2 = canon(expand(c_, env) if env else c_)
                    if any(' '.join(ast.unparse(x).split()) in bindings for x in ast.walk(c2)):
                        if not eval_test(c2, bindings, fold):
                            ok = False
                            break
                if ok:
                    vals.append(value_under(n.value, bindings, fold, env, None))
        if vals and all(v == vals[0] for v in vals):
            return vals[0]
        raise Unknown(key)
    if isinstance(e, ast.IfExp):
        t = eval_test(canon(e.test), bindings, fold)
        return value_under(e.body if t else e.orelse, bindings, fold)
    if isinstance(e, ast.Subscript):
        try:
            table = fold(e.value)
        except Exception:
            table = None
        if not isinstance(table, dict):
            try:
                table = value_under(e.value, bindings, fold)
            except Unknown:
                table = None
        if isinstance(table, dict):
            k = value_under(e.slice, bindings, fold)
            if k in table:
                return table[k]
            raise Unknown(f'{key}: key {k!r} not in the table')
    if isinstance(e, ast.Call) and isinstance(e.func, ast.Attribute) and e.func.attr == 'get' and e.args:
        try:
            table = fold(e.func.value)
        except Exception:
            table = None
        if not isinstance(table, dict):
            # the table is itself the result of a lookup (nested tables)
            try:
                table = value_under(e.func.value, bindings, fold)
            except Unknown:
                table = None
        if isinstance(table, dict):
            k = value_under(e.args[0], bindings, fold)
            if k in table:
                return table[k]
            return value_under(e.args[1], bindings, fold) if len(e.args) > 1 else None
    if isinstance(e, ast.BoolOp):
        vals = [value_under(v, bindings, fold) for v in e.values]
        if isinstance(e.op, ast.Or):
            for v in vals:
                if v:
                    return v
            return vals[-1]
        for v in vals:
            if not v:
                return v
        return vals[-1]
    if isinstance(e, (ast.Tuple, ast.List, ast.Set)):
        return tuple(value_under(x, bindings, fold) for x in e.elts)
    try:
        return fold(e)
    except Exception:
        raise Unknown(key)


def truth_under(test, bindings, fold, env=None, fn=None):
    """Truth value of ``test`` under ``bindings`` (see value_under); locals are expanded through ``env``. Raises Unknown."""
    import operator as _op
    t = canon(expand(test, env) if env else test)
    try:
        return bool(eval_test(t, bindings, fold))
    except Unknown:
        pass
    except Exception:
        pass
    if isinstance(t, ast.BoolOp):
        unknown = False
        for v in t.values:
            try:
                r = truth_under(v, bindings, fold, None, fn)
            except Unknown:
                unknown = True
                continue
            if isinstance(t.op, ast.And) and not r:
                return False
            if isinstance(t.op, ast.Or) and r:
                return True
        if unknown:
            raise Unknown(ctext(t))
        return isinstance(t.op, ast.And)
    if isinstance(t, ast.UnaryOp) and isinstance(t.op, ast.Not):
        return not truth_under(t.operand, bindings, fold, None, fn)
    if isinstance(t, ast.Compare) and len(t.ops) == 1:
        l = value_under(t.left, bindings, fold, None, fn)
        r = value_under(t.comparators[0], bindings, fold, None, fn)
        op = t.ops[0]
        if isinstance(op, ast.Is):
            return l is r if (l is None or r is None) else l == r
        if isinstance(op, ast.IsNot):
            return not (l is r if (l is None or r is None) else l == r)
        if isinstance(op, ast.Eq):
            return l == r
        if isinstance(op, ast.NotEq):
            return l != r
        if isinstance(op, ast.In):
            return l in r
        if isinstance(op, ast.NotIn):
            return l not in r
        raise Unknown(ctext(t))
    return bool(value_under(t, bindings, fold, None, fn))


# ---------------------------------------------------------------------------
# comprehension -> loop, and naming of nested calls (the inverse direction of ``builders``): rules that follow data flow
# through named collections see ``for x in f(..)`` / ``S.update(y for y in g(..) if c)`` as the loops they abbreviate
# ---------------------------------------------------------------------------

def _set_parents(fn):
    for node in ast.walk(fn):
        for child in ast.iter_child_nodes(node):
            child._parent = node
    return fn


def loopify(fn):
    """Copy of ``fn`` in which, at statement level, ``T = [comprehension]`` / ``T = {comprehension}``,
    ``T.update(<comprehension>)`` / ``T.extend(<comprehension>)`` and ``return [comprehension]`` are written as explicit
    loops (``T.append`` / ``T.add`` / ``T[k] = v`` under the same generators and conditions)."""
    new = clone(fn)
    counter = [0]

    def nest(comp, leaf):
        body = leaf
        for g in reversed(comp.generators):
            for c in reversed(g.ifs):
                body = [ast.If(test=c, body=body, orelse=[])]
            body = [ast.For(target=g.target, iter=g.iter, body=body, orelse=[], type_comment=None)]
        return body

    def adder(name, comp, method=None):
        tgt = ast.Name(id=name, ctx=ast.Load())
        if isinstance(comp, ast.DictComp):
            return [ast.Assign(targets=[ast.Subscript(value=tgt, slice=comp.key, ctx=ast.Store())], value=comp.value, lineno=comp.lineno)]
        m = method or ('add' if isinstance(comp, ast.SetComp) else 'append')
        return [ast.Expr(value=ast.Call(func=ast.Attribute(value=tgt, attr=m, ctx=ast.Load()), args=[comp.elt], keywords=[]))]

    def empty(comp):
        if isinstance(comp, ast.DictComp):
            return ast.Call(func=ast.Name(id='dict', ctx=ast.Load()), args=[], keywords=[])
        if isinstance(comp, ast.SetComp):
            return ast.Call(func=ast.Name(id='set', ctx=ast.Load()), args=[], keywords=[])
        return ast.Call(func=ast.Name(id='list', ctx=ast.Load()), args=[], keywords=[])

    COMPS = (ast.ListComp, ast.SetComp, ast.DictComp)

    def rewrite(st):
        if isinstance(st, ast.Assign) and len(st.targets) == 1 and isinstance(st.targets[0], ast.Name) and isinstance(st.value, COMPS):
            name = st.targets[0].id
            if any(isinstance(x, ast.Name) and x.id == name for x in ast.walk(st.value)):
                return None
            out = [ast.Assign(targets=[ast.Name(id=name, ctx=ast.Store())], value=empty(st.value), lineno=st.lineno)]
            return out + nest(st.value, adder(name, st.value))
        if isinstance(st, ast.Expr) and isinstance(st.value, ast.Call) and isinstance(st.value.func, ast.Attribute) and \
                st.value.func.attr in ('update', 'extend') and isinstance(st.value.func.value, ast.Name) and len(st.value.args) == 1 and \
                isinstance(st.value.args[0], (ast.GeneratorExp, ast.ListComp, ast.SetComp)) and not st.value.keywords:
            comp = st.value.args[0]
            m = 'add' if st.value.func.attr == 'update' else 'append'
            return nest(comp, adder(st.value.func.value.id, comp, m))
        if isinstance(st, ast.Return) and isinstance(st.value, COMPS):
            counter[0] += 1
            name = f'_lz{counter[0]}'
            out = [ast.Assign(targets=[ast.Name(id=name, ctx=ast.Store())], value=empty(st.value), lineno=st.lineno)]
            return out + nest(st.value, adder(name, st.value)) + [ast.Return(value=ast.Name(id=name, ctx=ast.Load()))]
        return None

    def block(stmts):
        out = []
        for st in stmts:
            r = rewrite(st)
            if r is not None:
                for x in r:
                    ast.copy_location(x, st)
                    for y in ast.walk(x):
                        if not hasattr(y, 'lineno') and isinstance(y, (ast.stmt, ast.expr)):
                            ast.copy_location(y, st)
                out.extend(block(r))
                continue
            for field in ('body', 'orelse', 'finalbody'):
                v = getattr(st, field, None)
                if isinstance(v, list) and v and isinstance(v[0], ast.stmt) and not isinstance(st, (ast.FunctionDef, ast.AsyncFunctionDef, ast.ClassDef)):
                    setattr(st, field, block(v))
            if isinstance(st, ast.Try):
                for h in st.handlers:
                    h.body = block(h.body)
            out.append(st)
        return out
    new.body = block(list(new.body))
    ast.fix_missing_locations(new)
    for attr in ('_inlined', '_cls', '_orig'):
        if hasattr(fn, attr):
            setattr(new, attr, getattr(fn, attr))
    return _set_parents(new)


def name_calls(fn, callees):
    """Copy of ``fn`` in which every call to one of ``callees`` (method / function names) that is not already the whole
    right-hand side of ``NAME = call`` is bound to a fresh local ``_ncN`` in a statement placed just before the statement
    (or loop header / if test) that contains it. Only for side-effect free queries: the order of evaluation inside one
    statement is not preserved."""
    new = clone(fn)
    counter = [0]

    def head_exprs(st):
        if isinstance(st, (ast.For, ast.AsyncFor)):
            return ['iter']
        if isinstance(st, (ast.If, ast.While)):
            return ['test']
        if isinstance(st, (ast.Expr, ast.Return, ast.AugAssign, ast.AnnAssign)):
            return ['value']
        if isinstance(st, ast.Assign):
            return ['value']
        return []

    def block(stmts):
        out = []
        for st in stmts:
            pre = []
            for field in head_exprs(st):
                root = getattr(st, field, None)
                if root is None:
                    continue
                whole = isinstance(st, ast.Assign) and len(st.targets) == 1 and isinstance(st.targets[0], ast.Name) and \
                    isinstance(root, ast.Call) and call_name(root) in callees
                # innermost first, never inside comprehensions / lambdas (their variables are not in scope outside)
                def find(node, acc):
                    if isinstance(node, (ast.ListComp, ast.SetComp, ast.DictComp, ast.GeneratorExp, ast.Lambda)):
                        return
                    for ch in ast.iter_child_nodes(node):
                        find(ch, acc)
                    if isinstance(node, ast.Call) and call_name(node) in callees and not (whole and node is root):
                        acc.append(node)
                found = []
                find(root, found)
                for c in found:
                    counter[0] += 1
                    nm = f'_nc{counter[0]}'
                    a = ast.copy_location(ast.Assign(targets=[ast.Name(id=nm, ctx=ast.Store())], value=c, lineno=st.lineno), st)
                    pre.append(a)
                    repl = ast.copy_location(ast.Name(id=nm, ctx=ast.Load()), c)
                    if c is root:
                        setattr(st, field, repl)
                        root = repl
                    else:
                        for parent in ast.walk(root):
                            for f2, v in ast.iter_fields(parent):
                                if v is c:
                                    setattr(parent, f2, repl)
                                elif isinstance(v, list):
                                    for i, x in enumerate(v):
                                        if x is c:
                                            v[i] = repl
                        # keyword values
                        for parent in ast.walk(root):
                            if isinstance(parent, ast.keyword) and parent.value is c:
                                parent.value = repl
            for field in ('body', 'orelse', 'finalbody'):
                v = getattr(st, field, None)
                if isinstance(v, list) and v and isinstance(v[0], ast.stmt) and not isinstance(st, (ast.FunctionDef, ast.AsyncFunctionDef, ast.ClassDef)):
                    setattr(st, field, block(v))
            if isinstance(st, ast.Try):
                for h in st.handlers:
                    h.body = block(h.body)
            out.extend(pre)
            out.append(st)
        return out
    new.body = block(list(new.body))
    ast.fix_missing_locations(new)
    for attr in ('_inlined', '_cls', '_orig'):
        if hasattr(fn, attr):
            setattr(new, attr, getattr(fn, attr))
    return _set_parents(new)


# ---------------------------------------------------------------------------
# propositional view of a test: atoms and truth-table queries
# ---------------------------------------------------------------------------

def bool_atoms(test):
    """Atomic conditions of a test (canonical text -> node); an atom and its negation count once (the smaller text)."""
    out = {}

    def walk(n):
        n = canon(n)
        if isinstance(n, ast.BoolOp):
            for v in n.values:
                walk(v)
        elif isinstance(n, ast.UnaryOp) and isinstance(n.op, ast.Not):
            walk(n.operand)
        else:
            t, nt = ctext(n), ctext(negate(n))
            out.setdefault(min(t, nt), n if t <= nt else negate(n))
    walk(test)
    return out


def bool_eval(test, assignment):
    """Truth of ``test`` when the atoms (see bool_atoms) have the given truth values."""
    n = canon(test)
    if isinstance(n, ast.BoolOp):
        vals = [bool_eval(v, assignment) for v in n.values]
        return all(vals) if isinstance(n.op, ast.And) else any(vals)
    if isinstance(n, ast.UnaryOp) and isinstance(n.op, ast.Not):
        return not bool_eval(n.operand, assignment)
    t, nt = ctext(n), ctext(negate(n))
    return assignment[t] if t <= nt else not assignment[nt]


def bool_implies(test, pred, max_atoms=12):
    """Does ``test`` imply that at least one literal (atom or negated atom) satisfying ``pred(node)`` holds (atoms treated
    as independent)?"""
    import itertools
    atoms = bool_atoms(test)
    keys = sorted(atoms)
    if len(keys) > max_atoms:
        raise Unknown('too many atoms')
    good = []
    for k in keys:
        if pred(atoms[k]):
            good.append((k, True))
        if pred(canon(negate(atoms[k]))):
            good.append((k, False))
    if not good:
        return False
    for bits in itertools.product((False, True), repeat=len(keys)):
        a = dict(zip(keys, bits))
        if bool_eval(test, a) and not any(a[k] == pol for k, pol in good):
            return False
    return True


def bool_literals(test):
    """Both polarities of every atom of ``test`` (nodes)."""
    out = []
    for n in bool_atoms(test).values():
        out.append(n)
        out.append(canon(negate(n)))
    return out


# ---------------------------------------------------------------------------
# loops over constant tables: ``for a, b in TABLE: body`` with TABLE a class / module level tuple of tuples
# ---------------------------------------------------------------------------

def unroll_const_loops(prog, cls, fn, module=None, max_rows=60, literal_iter=False):
    """Copy of ``fn`` in which every ``for <names> in <class or module level constant sequence literal>`` is replaced by one copy
    of its body per row, the loop variables substituted by the row's expressions and the locals assigned inside the body
    renamed per row (so that each copy is single-assignment). A walrus that is the first operand of an ``if`` test becomes an
    assignment before the ``if``; ``getattr(x, '<name>', None)`` becomes ``x.<name>`` (an absent attribute reads as None,
    which is what the ``is not None`` guards of this code base test). Loops with break / continue / else are left alone."""
    module = module or (cls.module if cls is not None else None)
    new = clone(fn)
    counter = [0]

    def table_of(it):
        e = None
        if isinstance(it, ast.Attribute) and isinstance(it.value, ast.Name) and cls is not None and \
                (it.value.id in ('self', 'cls') or it.value.id == cls.simple or any(c.simple == it.value.id for c in cls.mro())):
            _, e = cls.find_assign(it.attr)
        elif isinstance(it, ast.Name) and module is not None:
            e = module.assigns.get(it.id)
        if e is None and isinstance(it, (ast.Tuple, ast.List)) and literal_iter:
            e = it
        if isinstance(e, (ast.Tuple, ast.List)) and len(e.elts) <= max_rows and (e.elts or literal_iter):
            return e.elts
        return None

    class _Sub(ast.NodeTransformer):
        def __init__(self, mapping, renames):
            self.mapping, self.renames = mapping, renames

        def visit_Name(self, node):
            if node.id in self.mapping and isinstance(node.ctx, ast.Load):
                return ast.copy_location(clone(self.mapping[node.id]), node)
            if node.id in self.renames:
                return ast.copy_location(ast.Name(id=self.renames[node.id], ctx=node.ctx), node)
            return node

    def hoist_walrus(stmts):
        out = []
        for st in stmts:
            if isinstance(st, ast.If):
                t = st.test
                first = t
                holder = None
                while True:
                    if isinstance(first, ast.BoolOp):
                        holder, first = first, first.values[0]
                    elif isinstance(first, ast.Compare):
                        holder, first = first, first.left
                    elif isinstance(first, ast.UnaryOp):
                        holder, first = first, first.operand
                    else:
                        break
                if isinstance(first, ast.NamedExpr) and isinstance(first.target, ast.Name):
                    out.append(ast.copy_location(ast.Assign(targets=[ast.Name(id=first.target.id, ctx=ast.Store())], value=first.value, lineno=st.lineno), st))
                    repl = ast.copy_location(ast.Name(id=first.target.id, ctx=ast.Load()), first)
                    if holder is None:
                        st.test = repl
                    elif isinstance(holder, ast.BoolOp):
                        holder.values[0] = repl
                    elif isinstance(holder, ast.Compare):
                        holder.left = repl
                    else:
                        holder.operand = repl
            out.append(st)
        return out

    def block(stmts):
        out = []
        for st in stmts:
            for field in ('body', 'orelse', 'finalbody'):
                v = getattr(st, field, None)
                if isinstance(v, list) and v and isinstance(v[0], ast.stmt) and not isinstance(st, (ast.FunctionDef, ast.AsyncFunctionDef, ast.ClassDef)):
                    setattr(st, field, block(v))
            if isinstance(st, ast.For) and not st.orelse and \
                    not any(isinstance(x, (ast.Break, ast.Continue)) for b_ in st.body for x in ast.walk(b_)):
                rows = table_of(st.iter)
                targets = st.target.elts if isinstance(st.target, ast.Tuple) else [st.target]
                if rows is not None and all(isinstance(t, ast.Name) for t in targets):
                    ok = True
                    copies = []
                    stored = {x.id for b_ in st.body for x in ast.walk(b_) if isinstance(x, ast.Name) and isinstance(x.ctx, ast.Store)}
                    for r in rows:
                        vals = r.elts if (isinstance(st.target, ast.Tuple) and isinstance(r, (ast.Tuple, ast.List))) else [r]
                        if len(vals) != len(targets):
                            ok = False
                            break
                        counter[0] += 1
                        mapping = {t.id: v for t, v in zip(targets, vals)}
                        renames = {nm: f'{nm}__row{counter[0]}' for nm in stored}
                        body = [_Sub(mapping, renames).visit(clone(b_)) for b_ in st.body]
                        copies.extend(hoist_walrus(body))
                    if ok:
                        for c_ in copies:
                            ast.copy_location(c_, st)
                        out.extend(copies)
                        continue
            out.append(st)
        return out
    new.body = block(list(new.body))

    class _G3(ast.NodeTransformer):
        def visit_Call(self, node):
            self.generic_visit(node)
            if isinstance(node.func, ast.Name) and node.func.id == 'getattr' and len(node.args) == 3 and not node.keywords and \
                    isinstance(node.args[1], ast.Constant) and isinstance(node.args[1].value, str) and node.args[1].value.isidentifier() and \
                    isinstance(node.args[2], ast.Constant) and node.args[2].value is None:
                return ast.copy_location(ast.Attribute(value=node.args[0], attr=node.args[1].value, ctx=ast.Load()), node)
            # operator.methodcaller('<m>', a...)(x) is x.<m>(a...); operator.attrgetter('<a>')(x) is x.<a>
            f = node.func
            if isinstance(f, ast.Call) and len(node.args) == 1 and not node.keywords and f.args and \
                    isinstance(f.args[0], ast.Constant) and isinstance(f.args[0].value, str) and f.args[0].value.isidentifier():
                fname = f.func.id if isinstance(f.func, ast.Name) else f.func.attr if isinstance(f.func, ast.Attribute) and \
                    isinstance(f.func.value, ast.Name) and f.func.value.id == 'operator' else None
                if fname == 'methodcaller':
                    return ast.copy_location(ast.Call(func=ast.Attribute(value=node.args[0], attr=f.args[0].value, ctx=ast.Load()),
                                                      args=list(f.args[1:]), keywords=list(f.keywords)), node)
                if fname == 'attrgetter' and len(f.args) == 1 and not f.keywords:
                    return ast.copy_location(ast.Attribute(value=node.args[0], attr=f.args[0].value, ctx=ast.Load()), node)
            return node
    _G3().visit(new)
    ast.fix_missing_locations(new)
    for attr in ('_inlined', '_cls', '_orig'):
        if hasattr(fn, attr):
            setattr(new, attr, getattr(fn, attr))
    if not hasattr(new, '_cls'):
        new._cls = cls
    return _set_parents(new)


# ---------------------------------------------------------------------------
# partial evaluation under an assumption ("the sliver is a NodeSliver", "the service type is L2PTP")
# ---------------------------------------------------------------------------

def _constlike(e):
    """an expression that denotes one fixed object whatever the input: literal, ENUM.MEMBER / Class name, tuple of those"""
    if isinstance(e, ast.Constant):
        return True
    if isinstance(e, ast.Name):
        return e.id[:1].isupper()
    if isinstance(e, ast.Attribute):
        b = e
        while isinstance(b, ast.Attribute):
            b = b.value
        return isinstance(b, ast.Name) and b.id[:1].isupper()
    if isinstance(e, (ast.Tuple, ast.List)):
        return all(_constlike(x) for x in e.elts)
    return False


def specialize(prog, cls, fn, assume, module=None, rounds=6):
    """Copy of ``fn`` partially evaluated under ``assume`` = {canonical text of an expression: replacement expression}: the
    expressions are substituted, lookups in class / module level dictionary literals with a now-constant key are replaced by
    the entry, comparisons between fixed objects are decided, conditions simplified, dead branches removed, tuple assignments
    from literal tuples split, single-assignment locals bound to fixed objects propagated, loops over literal tuples unrolled
    and ``getattr`` with a constant name folded. What is left is the code that runs for that case."""
    module = module or (cls.module if cls is not None else None)
    new = clone(fn)

    def table(e):
        node = None
        if isinstance(e, ast.Attribute) and isinstance(e.value, ast.Name) and cls is not None and \
                (e.value.id in ('self', 'cls') or e.value.id == cls.simple or any(c.simple == e.value.id for c in cls.mro())):
            _, node = cls.find_assign(e.attr)
        elif isinstance(e, ast.Name) and module is not None:
            node = module.assigns.get(e.id)
        return node if isinstance(node, ast.Dict) and all(k is not None for k in node.keys) else None

    def truth(e):
        if isinstance(e, ast.Constant):
            return bool(e.value)
        if isinstance(e, (ast.Tuple, ast.List, ast.Dict)) and _constlike(e) if not isinstance(e, ast.Dict) else False:
            return bool(e.elts)
        return None

    class Fold(ast.NodeTransformer):
        changed = False

        def generic_visit(self, node):
            node = super().generic_visit(node)
            if isinstance(node, ast.expr):
                t = ' '.join(ast.unparse(node).split())
                if t in assume:
                    Fold.changed = True
                    return ast.copy_location(clone(assume[t]), node)
            return node

        def visit_Call(self, node):
            node = self.generic_visit(node)
            if not isinstance(node, ast.Call):
                return node
            f = node.func
            if isinstance(f, ast.Attribute) and f.attr == 'get' and 1 <= len(node.args) <= 2 and not node.keywords:
                d = table(f.value)
                if d is not None and _constlike(node.args[0]):
                    kt = ctext(node.args[0])
                    for k, v in zip(d.keys, d.values):
                        if ctext(k) == kt:
                            Fold.changed = True
                            return ast.copy_location(clone(v), node)
                    Fold.changed = True
                    return ast.copy_location(clone(node.args[1]) if len(node.args) == 2 else ast.Constant(value=None), node)
            if isinstance(f, ast.Name) and f.id == 'getattr' and len(node.args) in (2, 3) and not node.keywords and \
                    isinstance(node.args[1], ast.Constant) and isinstance(node.args[1].value, str) and node.args[1].value.isidentifier():
                Fold.changed = True
                return ast.copy_location(ast.Attribute(value=node.args[0], attr=node.args[1].value, ctx=ast.Load()), node)
            return node

        def visit_Subscript(self, node):
            node = self.generic_visit(node)
            if isinstance(node, ast.Subscript) and isinstance(node.ctx, ast.Load):
                d = table(node.value)
                if d is not None and _constlike(node.slice):
                    kt = ctext(node.slice)
                    for k, v in zip(d.keys, d.values):
                        if ctext(k) == kt:
                            Fold.changed = True
                            return ast.copy_location(clone(v), node)
                if isinstance(node.value, (ast.Tuple, ast.List)) and isinstance(node.slice, ast.Constant) and isinstance(node.slice.value, int) and \
                        -len(node.value.elts) <= node.slice.value < len(node.value.elts):
                    Fold.changed = True
                    return ast.copy_location(clone(node.value.elts[node.slice.value]), node)
            return node

        def visit_Compare(self, node):
            node = self.generic_visit(node)
            if not (isinstance(node, ast.Compare) and len(node.ops) == 1):
                return node
            l, r, op = node.left, node.comparators[0], node.ops[0]
            val = None
            if isinstance(op, (ast.Eq, ast.Is, ast.NotEq, ast.IsNot)) and _constlike(l) and _constlike(r):
                same = ctext(l) == ctext(r)
                val = same if isinstance(op, (ast.Eq, ast.Is)) else not same
            elif isinstance(op, (ast.In, ast.NotIn)) and _constlike(l) and isinstance(r, (ast.Tuple, ast.List, ast.Set)) and all(_constlike(x) for x in r.elts):
                isin = ctext(l) in {ctext(x) for x in r.elts}
                val = isin if isinstance(op, ast.In) else not isin
            if val is None:
                return node
            Fold.changed = True
            return ast.copy_location(ast.Constant(value=val), node)

        def visit_UnaryOp(self, node):
            node = self.generic_visit(node)
            if isinstance(node, ast.UnaryOp) and isinstance(node.op, ast.Not):
                t = truth(node.operand)
                if t is not None:
                    Fold.changed = True
                    return ast.copy_location(ast.Constant(value=not t), node)
            return node

        def visit_BoolOp(self, node):
            node = self.generic_visit(node)
            if not isinstance(node, ast.BoolOp):
                return node
            is_and = isinstance(node.op, ast.And)
            vals = []
            for v in node.values:
                t = truth(v)
                if t is None:
                    vals.append(v)
                elif t != is_and:
                    # False in an and / True in an or decides (in test position; value position is not touched by callers)
                    if not vals:
                        Fold.changed = True
                        return ast.copy_location(ast.Constant(value=t), node)
                    vals.append(v)
                    break
                else:
                    Fold.changed = True
            if not vals:
                return ast.copy_location(ast.Constant(value=is_and), node)
            if len(vals) == 1:
                return vals[0]
            node.values = vals
            return node

        def visit_IfExp(self, node):
            node = self.generic_visit(node)
            if isinstance(node, ast.IfExp):
                t = truth(node.test)
                if t is not None:
                    Fold.changed = True
                    return node.body if t else node.orelse
            return node

    def prune(stmts):
        out = []
        for st in stmts:
            if isinstance(st, (ast.FunctionDef, ast.AsyncFunctionDef, ast.ClassDef)):
                out.append(st)
                continue
            for field in ('body', 'orelse', 'finalbody'):
                v = getattr(st, field, None)
                if isinstance(v, list) and v and isinstance(v[0], ast.stmt):
                    setattr(st, field, prune(v))
            for h in getattr(st, 'handlers', []) or []:
                h.body = prune(h.body)
            if isinstance(st, ast.If):
                t = truth(st.test)
                if t is not None:
                    Fold.changed = True
                    out.extend(st.body if t else st.orelse)
                    continue
            if isinstance(st, ast.Assign) and len(st.targets) == 1 and isinstance(st.targets[0], (ast.Tuple, ast.List)) and \
                    isinstance(st.value, (ast.Tuple, ast.List)) and len(st.value.elts) == len(st.targets[0].elts) and \
                    all(isinstance(t_, ast.Name) for t_ in st.targets[0].elts):
                Fold.changed = True
                for t_, v_ in zip(st.targets[0].elts, st.value.elts):
                    out.append(ast.copy_location(ast.Assign(targets=[t_], value=v_, lineno=st.lineno), st))
                continue
            if isinstance(st, (ast.For, ast.While)) and not st.body:
                continue
            if isinstance(st, ast.If) and not st.body:
                st.body = [ast.copy_location(ast.Pass(), st)]
            out.append(st)
            if isinstance(st, (ast.Return, ast.Raise, ast.Continue, ast.Break)):
                break
        return out

    def propagate(f):
        stores = {}
        for n in walk_no_nested(f):
            if isinstance(n, ast.Name) and isinstance(n.ctx, ast.Store):
                stores[n.id] = stores.get(n.id, 0) + 1
            elif isinstance(n, (ast.For, ast.comprehension)):
                pass
        params = set(func_params(f))
        env = {}
        for n in walk_no_nested(f):
            if isinstance(n, ast.Assign) and len(n.targets) == 1 and isinstance(n.targets[0], ast.Name) and stores.get(n.targets[0].id) == 1 and \
                    n.targets[0].id not in params and (_constlike(n.value) or (isinstance(n.value, ast.Constant))):
                env[n.targets[0].id] = n.value
        if not env:
            return False

        class P(ast.NodeTransformer):
            hit = False

            def visit_Name(self, node):
                if isinstance(node.ctx, ast.Load) and node.id in env:
                    P.hit = True
                    return ast.copy_location(clone(env[node.id]), node)
                return node
        P().visit(f)
        return P.hit

    for _ in range(rounds):
        Fold.changed = False
        new = Fold().visit(new)
        new.body = prune(new.body) or [ast.Pass()]
        hit = propagate(new)
        ast.fix_missing_locations(new)
        before = ast.dump(new)
        new = unroll_const_loops(prog, cls, new, module=module, literal_iter=True)
        if not Fold.changed and not hit and ast.dump(new) == before:
            break
    ast.fix_missing_locations(new)
    for node in ast.walk(new):
        for child in ast.iter_child_nodes(node):
            child._parent = node
    return new


def split_callee_choice(fn):
    """A copy of ``fn`` in which a callee chosen by a conditional expression and bound to a local,

        v = A if c else B            if c:
        ...                    ->        A(args)
        v(args)                      else:
                                         B(args)

    is called directly on each side (``v`` assigned exactly once, used only as the callee of expression statements of the
    same block, nothing in ``c`` stored in between). The two forms are the same program; the helper inliner resolves only
    the second. Returns ``fn`` itself when there is nothing to rewrite."""
    new = clone(fn)
    changed = False
    stores = {}
    for n in ast.walk(new):
        if isinstance(n, ast.Name) and isinstance(n.ctx, (ast.Store, ast.Del)):
            stores[n.id] = stores.get(n.id, 0) + 1
    for owner in ast.walk(new):
        for field in ('body', 'orelse', 'finalbody'):
            blk = getattr(owner, field, None)
            if not isinstance(blk, list):
                continue
            i = 0
            while i < len(blk):
                s = blk[i]
                i += 1
                if not (isinstance(s, ast.Assign) and len(s.targets) == 1 and isinstance(s.targets[0], ast.Name)
                        and isinstance(s.value, ast.IfExp) and stores.get(s.targets[0].id) == 1):
                    continue
                v = s.targets[0].id
                uses = [n for n in ast.walk(new) if isinstance(n, ast.Name) and n.id == v and isinstance(n.ctx, ast.Load)]
                calls = [x for x in blk[i:] if isinstance(x, ast.Expr) and isinstance(x.value, ast.Call)
                         and isinstance(x.value.func, ast.Name) and x.value.func.id == v]
                if not calls or len(uses) != len(calls):
                    continue
                cond_names = {n.id for n in ast.walk(s.value.test) if isinstance(n, ast.Name)}
                last = max(blk.index(x) for x in calls)
                between = blk[i - 1:last + 1]
                if any(isinstance(n, ast.Name) and isinstance(n.ctx, (ast.Store, ast.Del)) and n.id in cond_names
                       for st in between for n in ast.walk(st)):
                    continue
                for x in calls:
                    def direct(callee, x=x):
                        c = clone(x)
                        c.value.func = clone(callee)
                        return c
                    repl = ast.copy_location(ast.If(test=clone(s.value.test), body=[direct(s.value.body)],
                                                    orelse=[direct(s.value.orelse)]), x)
                    blk[blk.index(x)] = repl
                blk.remove(s)
                i -= 1
                changed = True
    if not changed:
        return fn
    ast.fix_missing_locations(new)
    for a in ('_cls', '_module'):
        if hasattr(fn, a):
            setattr(new, a, getattr(fn, a))
    return new
