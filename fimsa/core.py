"""
fimsa.core -- program model for the static analysis of fabric-testbed/InformationModel.

Nothing under the analysed tree is imported or executed: every fact comes from
``ast.parse`` of the sources (and ``json.load`` of the data files the sources load).
"""
import ast
import json
import os
import sys


class AnalysisError(Exception):
    """The analysis cannot decide (anchor vanished, idiom not recognised). Exit code 2."""


class Unfoldable(Exception):
    pass


class EnumMember:
    """Abstract value of ``SomeEnum.Member``."""
    __slots__ = ('enum', 'name')

    def __init__(self, enum, name):
        self.enum = enum
        self.name = name

    def __eq__(self, other):
        return isinstance(other, EnumMember) and (self.enum, self.name) == (other.enum, other.name)

    def __hash__(self):
        return hash((self.enum, self.name))

    def __repr__(self):
        return f'{self.enum}.{self.name}'


class Record(dict):
    """Abstract value of a recordclass / keyword constructor call: Record(name, **kwargs)."""

    def __init__(self, ctor, kwargs):
        super().__init__(kwargs)
        self.ctor = ctor


class ClassRef:
    """Abstract value of a bare class name used as a value (dict key in METHOD_LUT etc)."""
    __slots__ = ('name',)

    def __init__(self, name):
        self.name = name

    def __eq__(self, other):
        return isinstance(other, ClassRef) and self.name == other.name

    def __hash__(self):
        return hash(('cls', self.name))

    def __repr__(self):
        return f'<class {self.name}>'


class Module:
    def __init__(self, name, relpath, src):
        self.name = name
        self.relpath = relpath
        self.src = src
        self.tree = ast.parse(src, filename=relpath)
        if os.environ.get('FIMSA_NO_PRENORM') != '1':
            from .prenorm import prenormalize
            prenormalize(self.tree)
        self.imports = {}      # local name -> dotted target ('fim.x.y.Z' or 'fim.x.y')
        self.assigns = {}      # module-level NAME -> expr
        self.functions = {}    # name -> FunctionDef
        self.classes = {}      # name -> ClassInfo
        for node in ast.walk(self.tree):
            for child in ast.iter_child_nodes(node):
                child._parent = node


class ClassInfo:
    def __init__(self, prog, module, node, outer=None):
        self.prog = prog
        self.module = module
        self.node = node
        self.outer = outer
        self.name = node.name if outer is None else outer.name + '.' + node.name
        self.simple = node.name
        self.qual = module.name + ':' + self.name
        self.methods = {}
        self.assigns = {}
        self.inner = {}
        self.base_exprs = list(node.bases)
        self.properties = {}   # name -> {'getter': fn, 'setter': fn}
        for st in node.body:
            if isinstance(st, (ast.FunctionDef, ast.AsyncFunctionDef)):
                st._cls = self
                kind = None
                for d in st.decorator_list:
                    if isinstance(d, ast.Name) and d.id == 'property':
                        kind = 'getter'
                    elif isinstance(d, ast.Attribute) and d.attr == 'setter':
                        kind = 'setter'
                if kind:
                    self.properties.setdefault(st.name, {})[kind] = st
                    if kind == 'getter':
                        self.methods.setdefault(st.name, st)
                else:
                    self.methods[st.name] = st
            elif isinstance(st, ast.Assign):
                for t in st.targets:
                    if isinstance(t, ast.Name):
                        self.assigns[t.id] = st.value
            elif isinstance(st, ast.AnnAssign) and isinstance(st.target, ast.Name) and st.value is not None:
                self.assigns[st.target.id] = st.value
            elif isinstance(st, ast.ClassDef):
                self.inner[st.name] = ClassInfo(prog, module, st, outer=self)

    def __repr__(self):
        return f'<ClassInfo {self.qual}>'

    # -- hierarchy ---------------------------------------------------------
    def bases(self):
        out = []
        for b in self.base_exprs:
            c = self.prog.resolve_class_expr(b, self.module)
            if c is not None:
                out.append(c)
        return out

    def mro(self):
        return self.prog.mro(self)

    def find_method(self, name):
        """(defining ClassInfo, FunctionDef) following the MRO, or (None, None)."""
        for c in self.mro():
            if name in c.methods:
                return c, c.methods[name]
        return None, None

    def find_assign(self, name):
        for c in self.mro():
            if name in c.assigns:
                return c, c.assigns[name]
        return None, None

    def find_property(self, name):
        for c in self.mro():
            if name in c.properties:
                return c, c.properties[name]
        return None, None

    def is_subclass_of(self, other):
        return other in self.mro()

    def all_method_names(self):
        names = set()
        for c in self.mro():
            names.update(c.methods)
        return names


class Program:
    """All modules of ``<root>/fim`` parsed; class table; constant folder."""

    def __init__(self, root, overlay=None, package='fim'):
        self.root = os.path.abspath(root)
        self.overlay = overlay or {}
        self.package = package
        self.modules = {}
        self.by_relpath = {}
        self._mro_cache = {}
        self._const_cache = {}
        pkg_dir = os.path.join(self.root, package)
        if not os.path.isdir(pkg_dir):
            raise AnalysisError(f'package directory {pkg_dir} not found')
        for dirpath, dirnames, filenames in os.walk(pkg_dir):
            dirnames.sort()
            for fn in sorted(filenames):
                if not fn.endswith('.py'):
                    continue
                full = os.path.join(dirpath, fn)
                rel = os.path.relpath(full, self.root)
                if rel in self.overlay:
                    src = self.overlay[rel]
                else:
                    with open(full, encoding='utf-8') as f:
                        src = f.read()
                modname = rel[:-3].replace(os.sep, '.')
                if modname.endswith('.__init__'):
                    modname = modname[:-9]
                try:
                    m = Module(modname, rel, src)
                except SyntaxError as e:
                    raise AnalysisError(f'{rel} does not parse: {e}')
                self.modules[modname] = m
                self.by_relpath[rel] = m
        for m in self.modules.values():
            self._index_module(m)
        self.class_by_simple = {}
        for m in self.modules.values():
            for c in self._walk_classes(m):
                self.class_by_simple.setdefault(c.simple, []).append(c)

    # -- loading -------------------------------------------------------------
    def _walk_classes(self, m):
        stack = list(m.classes.values())
        while stack:
            c = stack.pop()
            yield c
            stack.extend(c.inner.values())

    def _index_module(self, m):
        pkg_parts = m.name.split('.')
        is_pkg = m.relpath.endswith('__init__.py')
        for st in m.tree.body:
            if isinstance(st, ast.Import):
                for a in st.names:
                    m.imports[a.asname or a.name.split('.')[0]] = a.name if a.asname else a.name.split('.')[0]
            elif isinstance(st, ast.ImportFrom):
                if st.level:
                    base = pkg_parts if is_pkg else pkg_parts[:-1]
                    base = base[:len(base) - (st.level - 1)] if st.level > 1 else base
                    mod = '.'.join(base + ([st.module] if st.module else []))
                else:
                    mod = st.module or ''
                for a in st.names:
                    m.imports[a.asname or a.name] = mod + '.' + a.name
            elif isinstance(st, ast.Assign):
                for t in st.targets:
                    if isinstance(t, ast.Name):
                        m.assigns[t.id] = st.value
            elif isinstance(st, (ast.FunctionDef, ast.AsyncFunctionDef)):
                st._cls = None
                m.functions[st.name] = st
            elif isinstance(st, ast.ClassDef):
                m.classes[st.name] = ClassInfo(self, m, st)

    def data_file(self, relpath):
        """Parsed JSON of a data file under the analysed root (overlay aware)."""
        if relpath in self.overlay:
            return json.loads(self.overlay[relpath])
        full = os.path.join(self.root, relpath)
        if not os.path.exists(full):
            raise AnalysisError(f'data file {relpath} not found')
        with open(full, encoding='utf-8') as f:
            return json.load(f)

    def read_text(self, relpath):
        if relpath in self.overlay:
            return self.overlay[relpath]
        full = os.path.join(self.root, relpath)
        if not os.path.exists(full):
            raise AnalysisError(f'file {relpath} not found')
        with open(full, encoding='utf-8') as f:
            return f.read()

    # -- lookup --------------------------------------------------------------
    def module(self, name):
        m = self.modules.get(name)
        if m is None:
            raise AnalysisError(f'anchor module {name} vanished')
        return m

    def cls(self, spec):
        """'fim.user.node:Node' or unique simple name 'Node' or 'Outer.Inner'."""
        if ':' in spec:
            modname, cname = spec.split(':', 1)
            m = self.module(modname)
            parts = cname.split('.')
            c = m.classes.get(parts[0])
            for p in parts[1:]:
                c = c.inner.get(p) if c else None
            if c is None:
                raise AnalysisError(f'anchor class {spec} vanished')
            return c
        cands = self.class_by_simple.get(spec, [])
        if len(cands) != 1:
            raise AnalysisError(f'class name {spec} resolves to {len(cands)} classes')
        return cands[0]

    def method(self, cls_spec, name, inherited=False):
        c = self.cls(cls_spec) if isinstance(cls_spec, str) else cls_spec
        if inherited:
            _, fn = c.find_method(name)
        else:
            fn = c.methods.get(name)
        if fn is None:
            raise AnalysisError(f'anchor function {c.qual}.{name} vanished')
        return fn

    def function(self, modname, name):
        fn = self.module(modname).functions.get(name)
        if fn is None:
            raise AnalysisError(f'anchor function {modname}.{name} vanished')
        return fn

    def resolve_name(self, name, module):
        """Resolve a bare name in a module to ('class', ClassInfo) / ('module', Module) /
        ('assign', (module, expr)) / ('func', FunctionDef) / None."""
        if name in module.classes:
            return 'class', module.classes[name]
        if name in module.functions:
            return 'func', module.functions[name]
        if name in module.assigns:
            return 'assign', (module, module.assigns[name])
        tgt = module.imports.get(name)
        if tgt is None:
            return None
        if tgt in self.modules:
            return 'module', self.modules[tgt]
        if '.' in tgt:
            modname, attr = tgt.rsplit('.', 1)
            m2 = self.modules.get(modname)
            if m2 is not None and m2 is not module:
                return self.resolve_name(attr, m2)
            if m2 is module:
                return None
        return None

    def resolve_class_expr(self, expr, module):
        """ClassInfo for a Name / dotted Attribute expression, or None (external)."""
        if isinstance(expr, ast.Name):
            r = self.resolve_name(expr.id, module)
            if r and r[0] == 'class':
                return r[1]
            return None
        if isinstance(expr, ast.Attribute):
            # mod.Class  or Outer.Inner or a.b.c.Class
            parts = []
            e = expr
            while isinstance(e, ast.Attribute):
                parts.append(e.attr)
                e = e.value
            if not isinstance(e, ast.Name):
                return None
            parts.append(e.id)
            parts.reverse()
            r = self.resolve_name(parts[0], module)
            i = 1
            if r is None:
                # import a.b.c ; a.b.c.X
                for j in range(len(parts), 0, -1):
                    mn = '.'.join(parts[:j])
                    if mn in self.modules:
                        r = ('module', self.modules[mn])
                        i = j
                        break
            while r is not None and i < len(parts):
                kind, obj = r
                if kind == 'module':
                    # sub-module or member
                    sub = obj.name + '.' + parts[i]
                    if sub in self.modules:
                        r = ('module', self.modules[sub])
                    else:
                        r = self.resolve_name(parts[i], obj)
                elif kind == 'class':
                    inner = obj.inner.get(parts[i])
                    if inner is None:
                        # name mangled inner class: _Outer__Inner
                        pref = '_' + obj.simple
                        if parts[i].startswith(pref) and parts[i][len(pref):] in obj.inner:
                            inner = obj.inner[parts[i][len(pref):]]
                    r = ('class', inner) if inner is not None else None
                else:
                    r = None
                i += 1
            if r and r[0] == 'class':
                return r[1]
        return None

    def mro(self, cls):
        if cls in self._mro_cache:
            return self._mro_cache[cls]
        self._mro_cache[cls] = [cls]  # recursion guard
        seqs = [list(self.mro(b)) for b in cls.bases()] + [list(cls.bases())]
        res = [cls]
        seqs = [s for s in seqs if s]
        while seqs:
            for s in seqs:
                cand = s[0]
                if not any(cand in t[1:] for t in seqs):
                    break
            else:
                # inconsistent hierarchy: fall back to DFS order
                cand = seqs[0][0]
            res.append(cand)
            seqs = [[x for x in s if x is not cand] for s in seqs]
            seqs = [s for s in seqs if s]
        self._mro_cache[cls] = res
        return res

    def subclasses(self, cls, strict=False):
        out = []
        for cands in self.class_by_simple.values():
            for c in cands:
                if cls in c.mro() and (not strict or c is not cls):
                    out.append(c)
        return out

    def all_classes(self):
        for cands in self.class_by_simple.values():
            for c in cands:
                yield c

    def all_functions(self):
        """Yield (module, ClassInfo or None, FunctionDef) for every def (not nested defs)."""
        for m in self.modules.values():
            for fn in m.functions.values():
                yield m, None, fn
            for c in self._walk_classes(m):
                seen = set()
                for fn in list(c.methods.values()):
                    if id(fn) not in seen:
                        seen.add(id(fn))
                        yield m, c, fn
                for p in c.properties.values():
                    for fn in p.values():
                        if id(fn) not in seen:
                            seen.add(id(fn))
                            yield m, c, fn

    # -- enums ---------------------------------------------------------------
    def is_enum(self, cls):
        for c in cls.mro():
            for b in c.base_exprs:
                t = ast.unparse(b)
                if t in ('Enum', 'enum.Enum', 'Flag', 'enum.Flag', 'IntEnum', 'enum.IntEnum'):
                    return True
        return False

    def enum_members(self, cls_spec):
        c = self.cls(cls_spec) if isinstance(cls_spec, str) else cls_spec
        if not self.is_enum(c):
            raise AnalysisError(f'{c.qual} is expected to be an Enum')
        names = []
        for st in c.node.body:
            if isinstance(st, ast.Assign):
                for t in st.targets:
                    if isinstance(t, ast.Name) and not t.id.startswith('_'):
                        names.append(t.id)
        return names

    # -- constant folding ----------------------------------------------------
    def const_eval(self, expr, module, cls=None, local=None, depth=0):
        """Fold an expression to a Python value. Raises Unfoldable."""
        if depth > 40:
            raise Unfoldable('depth')
        ce = lambda e: self.const_eval(e, module, cls, local, depth + 1)
        if isinstance(expr, ast.Constant):
            return expr.value
        if isinstance(expr, (ast.List, ast.Tuple, ast.Set)):
            vals = [ce(e) for e in expr.elts]
            if isinstance(expr, ast.Tuple):
                return tuple(vals)
            if isinstance(expr, ast.Set):
                return set(vals)
            return vals
        if isinstance(expr, ast.Dict):
            d = {}
            for k, v in zip(expr.keys, expr.values):
                if k is None:
                    d.update(ce(v))
                else:
                    d[ce(k)] = ce(v)
            return d
        if isinstance(expr, ast.JoinedStr):
            out = ''
            for v in expr.values:
                if isinstance(v, ast.Constant):
                    out += str(v.value)
                elif isinstance(v, ast.FormattedValue):
                    out += str(ce(v.value))
                else:
                    raise Unfoldable(ast.dump(v))
            return out
        if isinstance(expr, ast.BinOp):
            l, r = ce(expr.left), ce(expr.right)
            try:
                if isinstance(expr.op, ast.Add):
                    return l + r
                if isinstance(expr.op, ast.Mult):
                    return l * r
                if isinstance(expr.op, ast.Pow):
                    return l ** r
                if isinstance(expr.op, ast.Sub):
                    return l - r
            except Exception as e:
                raise Unfoldable(str(e))
            raise Unfoldable('binop')
        if isinstance(expr, ast.UnaryOp) and isinstance(expr.op, ast.USub):
            return -ce(expr.operand)
        if isinstance(expr, ast.Name):
            if local and expr.id in local:
                return local[expr.id]
            if cls is not None:
                for c in cls.mro():
                    if expr.id in c.assigns:
                        return self.const_eval(c.assigns[expr.id], c.module, c, None, depth + 1)
            r = self.resolve_name(expr.id, module)
            if r is None:
                raise Unfoldable(f'name {expr.id}')
            kind, obj = r
            if kind == 'assign':
                m2, e2 = obj
                return self.const_eval(e2, m2, None, None, depth + 1)
            if kind == 'class':
                return ClassRef(obj.simple)
            raise Unfoldable(f'name {expr.id} is a {kind}')
        if isinstance(expr, ast.Attribute):
            if isinstance(expr.value, ast.Name) and expr.value.id in ('self', 'cls') and cls is not None:
                owner, e2 = cls.find_assign(expr.attr)
                if owner is not None:
                    return self.const_eval(e2, owner.module, owner, None, depth + 1)
                raise Unfoldable(f'self.{expr.attr}')
            c = self.resolve_class_expr(expr.value, module)
            if c is None and cls is not None and isinstance(expr.value, ast.Name):
                # sibling name inside the same class body
                pass
            if c is not None:
                if self.is_enum(c):
                    if expr.attr in self.enum_members(c):
                        return EnumMember(c.simple, expr.attr)
                    raise Unfoldable(f'{c.simple}.{expr.attr} is not an enum member')
                owner, e2 = c.find_assign(expr.attr)
                if owner is not None:
                    return self.const_eval(e2, owner.module, owner, None, depth + 1)
                raise Unfoldable(f'{c.simple}.{expr.attr}')
            raise Unfoldable(ast.unparse(expr))
        if isinstance(expr, ast.Call):
            fn = ast.unparse(expr.func)
            if fn in ('enum.auto', 'auto'):
                return ('auto',)
            if fn in ('dict', 'list', 'set', 'tuple') and not expr.args and not expr.keywords:
                return {'dict': {}, 'list': [], 'set': set(), 'tuple': ()}[fn]
            if fn == 'str' and len(expr.args) == 1:
                v = ce(expr.args[0])
                return v.name if isinstance(v, EnumMember) else str(v)
            if fn in ('list', 'tuple', 'set') and len(expr.args) == 1:
                v = ce(expr.args[0])
                return {'list': list, 'tuple': tuple, 'set': set}[fn](v)
            # keyword constructor (recordclass instance etc.)
            if not expr.args and expr.keywords and all(k.arg for k in expr.keywords):
                return Record(fn, {k.arg: ce(k.value) for k in expr.keywords})
            raise Unfoldable(f'call {fn}')
        if isinstance(expr, ast.Lambda):
            return ('lambda', ast.unparse(expr))
        if isinstance(expr, (ast.DictComp, ast.ListComp, ast.SetComp)) and len(expr.generators) == 1 and not expr.generators[0].is_async:
            # a comprehension over a foldable collection (reverse tables built from another class-level table)
            g = expr.generators[0]
            it = g.iter
            if isinstance(it, ast.Call) and isinstance(it.func, ast.Attribute) and it.func.attr in ('items', 'keys', 'values') and not it.args:
                base = ce(it.func.value)
                if not isinstance(base, dict):
                    raise Unfoldable('comprehension over a non-dict')
                seq = list(base.items()) if it.func.attr == 'items' else list(base.keys()) if it.func.attr == 'keys' else list(base.values())
            else:
                seq = ce(it)
                if isinstance(seq, dict):
                    seq = list(seq.keys())
            if not isinstance(seq, (list, tuple, set)) or len(seq) > 200:
                raise Unfoldable('comprehension iterable')
            out_items = []
            for el in seq:
                loc2 = dict(local or {})
                if isinstance(g.target, ast.Name):
                    loc2[g.target.id] = el
                elif isinstance(g.target, (ast.Tuple, ast.List)) and all(isinstance(t, ast.Name) for t in g.target.elts) and \
                        isinstance(el, (tuple, list)) and len(el) == len(g.target.elts):
                    for t, v_ in zip(g.target.elts, el):
                        loc2[t.id] = v_
                else:
                    raise Unfoldable('comprehension target')
                ce2 = lambda e, _l=loc2: self.const_eval(e, module, cls, _l, depth + 1)
                if g.ifs:
                    raise Unfoldable('filtered comprehension')
                if isinstance(expr, ast.DictComp):
                    out_items.append((ce2(expr.key), ce2(expr.value)))
                else:
                    out_items.append(ce2(expr.elt))
            if isinstance(expr, ast.DictComp):
                return dict(out_items)
            return set(out_items) if isinstance(expr, ast.SetComp) else list(out_items)
        if isinstance(expr, ast.Subscript):
            base = ce(expr.value)
            idx = ce(expr.slice)
            try:
                return base[idx]
            except Exception as e:
                raise Unfoldable(str(e))
        raise Unfoldable(type(expr).__name__)

    def class_const(self, cls_spec, name):
        c = self.cls(cls_spec) if isinstance(cls_spec, str) else cls_spec
        owner, e = c.find_assign(name)
        if owner is None:
            raise AnalysisError(f'anchor constant {c.qual}.{name} vanished')
        try:
            return self.const_eval(e, owner.module, owner)
        except Unfoldable as u:
            raise AnalysisError(f'constant {c.qual}.{name} is not foldable: {u}')


# ---------------------------------------------------------------------------
# small AST helpers shared by the rule modules
# ---------------------------------------------------------------------------

def unparse(node):
    return ast.unparse(node) if node is not None else ''


def norm(node, limit=160):
    s = ' '.join(ast.unparse(node).split())
    return s if len(s) <= limit else s[:limit - 3] + '...'


def walk_no_nested(node):
    """ast.walk that does not descend into nested function/class/lambda bodies."""
    stack = [node]
    first = True
    while stack:
        n = stack.pop()
        if not first and isinstance(n, (ast.FunctionDef, ast.AsyncFunctionDef, ast.ClassDef, ast.Lambda)):
            continue
        first = False
        yield n
        stack.extend(ast.iter_child_nodes(n))


def calls_in(node, nested=False):
    it = ast.walk(node) if nested else walk_no_nested(node)
    return [n for n in it if isinstance(n, ast.Call)]


def call_name(call):
    """Last attribute / name of the callee expression."""
    f = call.func
    if isinstance(f, ast.Attribute):
        return f.attr
    if isinstance(f, ast.Name):
        return f.id
    return None


def attr_chain(expr):
    """['self','topo','graph_model','add_node'] for self.topo.graph_model.add_node ; None if not a pure chain."""
    parts = []
    e = expr
    while isinstance(e, ast.Attribute):
        parts.append(e.attr)
        e = e.value
    if isinstance(e, ast.Name):
        parts.append(e.id)
        parts.reverse()
        return parts
    if isinstance(e, ast.Call) and isinstance(e.func, ast.Name) and e.func.id == 'super' and parts:
        parts.append('super()')
        parts.reverse()
        return parts
    return None


def kwarg(call, name):
    for k in call.keywords:
        if k.arg == name:
            return k.value
    return None


def func_params(fn):
    a = fn.args
    return [x.arg for x in a.posonlyargs + a.args + a.kwonlyargs] + \
        ([a.vararg.arg] if a.vararg else []) + ([a.kwarg.arg] if a.kwarg else [])


def qualname(cls, fn):
    if cls is None:
        return fn.name
    return f'{cls.name}.{fn.name}'


def loc(module, node):
    module = getattr(node, '_src_module', None) or module
    return f'{module.relpath}:{getattr(node, "lineno", 0)}'


def enclosing_stmt(node):
    n = node
    while n is not None and not isinstance(n, ast.stmt):
        n = getattr(n, '_parent', None)
    return n


def parent(node):
    return getattr(node, '_parent', None)


def mangled_lookup(cls, name):
    """Resolve self.__x inside class `cls` (lexical) to the method defined in that class."""
    if name.startswith('__') and not name.endswith('__'):
        return cls.methods.get(name)
    return None


# ---------------------------------------------------------------------------
# shape matching (variable-name agnostic) used instead of comparing unparsed text
# ---------------------------------------------------------------------------

def find_calls(node, name, nested=False):
    it = ast.walk(node) if nested else walk_no_nested(node)
    return [c for c in it if isinstance(c, ast.Call) and call_name(c) == name]


def shape(expr, pat):
    """Does `expr` have the shape `pat`?
    pat: None (anything) | ('name', id or None) | ('const', value) | ('call', method[, argpats]) | ('attr', 'a.b' suffix)
         | ('recv', 'text')  (exact receiver text)  | callable(expr) -> bool"""
    if pat is None:
        return True
    if callable(pat):
        return bool(pat(expr))
    kind = pat[0]
    if kind == 'name':
        return isinstance(expr, ast.Name) and (pat[1] is None or expr.id == pat[1])
    if kind == 'const':
        return isinstance(expr, ast.Constant) and expr.value == pat[1]
    if kind == 'call':
        if not (isinstance(expr, ast.Call) and call_name(expr) == pat[1]):
            return False
        if len(pat) > 2 and pat[2] is not None:
            args = list(expr.args) + [k.value for k in expr.keywords]
            return all(any(shape(a, p) for a in args) for p in pat[2])
        return True
    if kind == 'attr':
        return isinstance(expr, (ast.Attribute, ast.Name)) and (ast.unparse(expr) == pat[1] or ast.unparse(expr).endswith('.' + pat[1]))
    if kind == 'enum':
        ch = attr_chain(expr)
        return bool(ch) and len(ch) >= 2 and ch[-2] == pat[1] and ch[-1] == pat[2]
    raise ValueError(pat)


def call_matches(call, args=None, kwargs=None):
    """positional/keyword-insensitive: every pattern in `args` matches some argument; every kwargs name is passed
    (as keyword) with a value of the given shape."""
    allargs = list(call.args) + [k.value for k in call.keywords]
    for p in args or []:
        if not any(shape(a, p) for a in allargs):
            return False
    for name, p in (kwargs or {}).items():
        v = kwarg(call, name)
        if v is None or not shape(v, p):
            return False
    return True


def receiver_name(call):
    """Name id of the receiver of a method call `x.m(...)`, else None."""
    if isinstance(call.func, ast.Attribute) and isinstance(call.func.value, ast.Name):
        return call.func.value.id
    return None


def assigned_from(fn, pred):
    """names of locals assigned from an expression satisfying pred"""
    out = []
    for n in walk_no_nested(fn):
        if isinstance(n, ast.Assign) and pred(n.value):
            for t in n.targets:
                if isinstance(t, ast.Name):
                    out.append(t.id)
    return out
