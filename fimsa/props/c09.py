"""
C09 -- a topology operation that fails leaves the model unchanged.

R1 validate before mutate: in the NEW branch of the five element constructors no rejecting statement is reachable after
   the first graph mutation unless it lies in a compensated try; arguments of the mutation are evaluated eagerly
R2 rollback: the handler that undoes a partially built service catches every exception the guarded body can raise,
   undoes each creation step and re-raises; the connect precondition and the disconnect used by the rollback look at the
   same peer set
R3 uniqueness checks dominate the first insert (node sliver, top-level service sliver, backend add_node)
R4 composite operations (>= 2 creation steps, later steps fed with derived data) need compensation - reported as findings
R8 the graph-level link writer verifies every interface id (existence as ConnectionPoint) before inserting the Link node
R7 a compensating handler addresses the created element by <element>.node_id, never by an optional id argument
R6 a rollback handler that removes id X does not also guard the call that creates X (a refused creation would delete the
   element that already owns X)
R5 the creation step that receives the caller's **kwargs is the first creation step of a composite (or is compensated)
"""
import ast

from ..core import AnalysisError, norm, loc, walk_no_nested, attr_chain, call_name, kwarg, func_params
from ..cfg import CFG
from ..normalize import inline, local_env, expand, ctext, canon, conjuncts, _enclosing
from .. import nxgraph as nxg
from .. import flow

CONSTRUCTORS = ['fim.user.node:Node', 'fim.user.component:Component', 'fim.user.interface:Interface', 'fim.user.link:Link',
                'fim.user.network_service:NetworkService']
GRAPH_MUTATORS = {'add_network_node_sliver', 'add_component_sliver', 'add_network_service_sliver', 'add_interface_sliver',
                  'add_network_link_sliver', 'add_node', 'add_link', 'delete_node', 'update_node_property',
                  'update_node_properties', 'unset_node_property', 'update_nodes_property', 'remove_cp_and_links',
                  'remove_ns_with_cps_and_links', 'remove_component_with_nss_cps_and_links',
                  'remove_network_node_with_components_nss_cps_and_links', 'remove_network_link', 'merge_nodes'}
REMOVERS = {'remove_cp_and_links', 'remove_ns_with_cps_and_links', 'remove_component_with_nss_cps_and_links',
            'remove_network_node_with_components_nss_cps_and_links', 'remove_network_link', 'delete_node'}
USER_CLASSES = ['fim.user.topology:Topology', 'fim.user.topology:ExperimentTopology', 'fim.user.topology:SubstrateTopology',
                'fim.user.node:Node', 'fim.user.component:Component', 'fim.user.interface:Interface', 'fim.user.link:Link',
                'fim.user.network_service:NetworkService', 'fim.user.network_service:PortMirrorService',
                'fim.user.model_element:ModelElement']
ELEMENT_CTORS = {'Node', 'Component', 'Interface', 'Link', 'NetworkService', 'PortMirrorService'}


def is_graph_mutation(call):
    if isinstance(call.func, ast.Attribute) and call.func.attr in GRAPH_MUTATORS:
        ch = attr_chain(call.func)
        if ch and 'graph_model' in ch:
            return True
    return False


def is_new_element(call):
    return isinstance(call.func, ast.Name) and call.func.id in ELEMENT_CTORS and \
        any(k.arg == 'etype' and 'NEW' in ast.unparse(k.value) for k in call.keywords)


class Summaries:
    """MUT (may mutate the graph) and REJ (contains an explicit rejection) over the methods of the user layer."""

    def __init__(self, prog):
        self.prog = prog
        self.methods = {}       # (class name, method) -> (ClassInfo, fn)
        for spec in USER_CLASSES:
            c = prog.cls(spec)
            for n, f in c.methods.items():
                self.methods[(c.simple, n)] = (c, f)
            for n, p in c.properties.items():
                if 'setter' in p:
                    self.methods[(c.simple, n + '.setter')] = (c, p['setter'])
        self.mut = set()
        self.rej = set()
        changed = True
        while changed:
            changed = False
            for key, (c, f) in self.methods.items():
                for call in [x for x in walk_no_nested(f) if isinstance(x, ast.Call)]:
                    m = is_graph_mutation(call) or is_new_element(call)
                    callee = self.resolve(call, c)
                    if (m or (callee and callee in self.mut)) and key not in self.mut:
                        self.mut.add(key)
                        changed = True
                    if callee and callee in self.rej and key not in self.rej and not _inside_catch_all(call, f):
                        self.rej.add(key)
                        changed = True
                if key not in self.rej:
                    for x in walk_no_nested(f):
                        if isinstance(x, (ast.Raise, ast.Assert)) and not _inside_handler_reraise(x):
                            self.rej.add(key)
                            changed = True
                            break

    def resolve(self, call, cls):
        """(class, method) key of a self-call / element constructor, or None."""
        f = call.func
        if isinstance(f, ast.Attribute) and isinstance(f.value, ast.Name) and f.value.id == 'self' and cls is not None:
            for k in cls.mro():
                if (k.simple, f.attr) in self.methods:
                    return (k.simple, f.attr)
        if isinstance(f, ast.Name) and f.id in ELEMENT_CTORS:
            return (f.id, '__init__')
        if isinstance(f, ast.Attribute) and isinstance(f.value, ast.Call) and isinstance(f.value.func, ast.Name) and f.value.func.id == 'super' and cls is not None:
            for k in cls.mro()[1:]:
                if (k.simple, f.attr) in self.methods:
                    return (k.simple, f.attr)
        return None


def _inside_handler_reraise(node):
    p = node
    while p is not None:
        p = getattr(p, '_parent', None)
        if isinstance(p, ast.ExceptHandler):
            return True
    return False


def _inside_catch_all(node, fn):
    p = node
    while p is not None and p is not fn:
        child = p
        p = getattr(p, '_parent', None)
        if isinstance(p, ast.Try) and child in p.body:
            for h in p.handlers:
                if h.type is None or ast.unparse(h.type) in ('Exception', 'BaseException'):
                    if not any(isinstance(x, ast.Raise) for x in ast.walk(h)):
                        return True
    return False


def stmt_is_rejecting(st, cls, summ):
    """Why a statement may reject its (caller-derived) input, or None."""
    if isinstance(st, ast.Raise):
        return 'raise'
    if isinstance(st, ast.Assert):
        return 'assert'
    fn = st
    while fn is not None and not isinstance(fn, (ast.FunctionDef, ast.AsyncFunctionDef)):
        fn = getattr(fn, '_parent', None)
    kwparam = fn.args.kwarg.arg if fn is not None and fn.args.kwarg is not None else None
    for c in walk_no_nested(st):
        if not isinstance(c, ast.Call):
            continue
        cn = call_name(c)
        if kwparam and any(k.arg is None and isinstance(k.value, ast.Name) and k.value.id == kwparam for k in c.keywords) and \
                not (isinstance(c.func, ast.Attribute) and isinstance(c.func.value, ast.Call) and call_name(c.func.value) == 'super'):
            return f'{cn}() receives the caller\'s **{kwparam}, which it validates'
        if cn and cn.startswith('set_') and isinstance(c.func, ast.Attribute) and 'sliver' in ast.unparse(c.func.value):
            return f'sliver setter {cn}() validates its argument'
        if cn == 'generate_component':
            return 'catalogue lookup raises for an unknown model'
        callee = summ.resolve(c, cls)
        if callee and callee in summ.rej:
            return f'{callee[0]}.{callee[1]}() can reject'
    return None


def _anc9(node, fn):
    out = []
    p = getattr(node, '_parent', None)
    while p is not None and p is not fn:
        out.append(p)
        p = getattr(p, '_parent', None)
    return out


def check_rollback_handler_breadth(prog, rep, rule):
    """A handler that undoes the guarded steps and re-raises catches Exception (asserts, graph and model errors alike). Shared with
    C07: a service port created for a connection stays without a peer when the error that refuses the link passes the handler by."""
    # ---- R11: a rollback handler is entered for every failure of the guarded steps ----
    UNDO = REMOVERS | {'disconnect_interface', 'remove_node', 'remove_component', 'remove_interface', 'remove_network_service',
                       'remove_link', 'remove_facility', 'remove_switch', 'remove_storage', 'remove_child_interface', '_rollback'}
    for m_, c_, f_ in prog.all_functions():
        if not (m_.name.startswith('fim.user') or m_.name.startswith('fim.graph')):
            continue
        fi_ = f_
        if c_ is not None and any(isinstance(t, ast.Try) for t in walk_no_nested(f_)):
            try:
                fi_ = inline(prog, c_, f_)       # the undo may sit in a private helper the handler calls
            except Exception:
                fi_ = f_
        for tr_ in [t for t in walk_no_nested(fi_) if isinstance(t, ast.Try)]:
            comp = [h_ for h_ in tr_.handlers if any(isinstance(x, ast.Call) and call_name(x) in UNDO for x in ast.walk(h_)) and
                    any(isinstance(x, ast.Raise) for x in ast.walk(h_))]
            if not comp:
                continue
            fq_ = (c_.name + '.' if c_ else '') + f_.name
            caught = set()
            for h_ in tr_.handlers:
                if h_.type is None:
                    caught.add('BaseException')
                else:
                    for t_ in (h_.type.elts if isinstance(h_.type, ast.Tuple) else [h_.type]):
                        caught.add(ast.unparse(t_).split('.')[-1])
            wide = bool(caught & {'Exception', 'BaseException'})
            # every handler of the statement has to undo: a narrower sibling that does not would let its type through un-compensated
            rep.instance(rule, f'{fq_}: rollback handler catches {sorted(caught)}')
            if not wide:
                rep.violation(rule, loc(m_, comp[0]), fq_, f'rollback only on {sorted(caught)}',
                              f'the handler that undoes the partially performed operation is entered only for {sorted(caught)}; the guarded steps '
                              f'also fail with other exceptions (assertions on arguments, graph query/import errors, errors of the sliver '
                              f'setters): those pass the handler by and leave the partially built element in the model')



def check_recorded_before_next_step(prog, rep, rule):
    """In a compensated body every created element is recorded for the rollback before the next step that can fail (shared with
    C07: a service port created by peer() and not yet recorded when the second step fails stays in the model without a peer)."""
    # ---- R9: what a step created is on the undo list before the next step can fail ----
    for m_, c_, f_ in prog.all_functions():
        if not m_.name.startswith('fim.user') or c_ is None:
            continue
        for tr_ in [t for t in ast.walk(f_) if isinstance(t, ast.Try) and t.handlers]:
            lists_ = {l.iter.id for h_ in tr_.handlers for l in ast.walk(h_) if isinstance(l, ast.For) and isinstance(l.iter, ast.Name) and
                      any(isinstance(c, ast.Call) and (call_name(c) in REMOVERS or call_name(c) in ('remove_cp_and_links', 'disconnect_interface', 'delete_node'))
                          for c in ast.walk(l))}
            for ul_ in sorted(lists_):
                def records(st_):
                    return [x.id for c in ast.walk(st_) if isinstance(c, ast.Call) and call_name(c) in ('append', 'add', 'extend', 'insert') and
                            isinstance(c.func.value, ast.Name) and c.func.value.id == ul_ for a_ in c.args for x in ast.walk(a_) if isinstance(x, ast.Name)]
                body_ = tr_.body
                for i_, st_ in enumerate(body_):
                    if not (isinstance(st_, ast.Assign) and len(st_.targets) == 1 and isinstance(st_.targets[0], ast.Name) and
                            any(isinstance(c, ast.Call) for c in ast.walk(st_.value))):
                        continue
                    var_ = st_.targets[0].id
                    rec_at = [j_ for j_ in range(i_ + 1, len(body_)) if var_ in records(body_[j_])]
                    if not rec_at:
                        continue
                    between = [b_ for b_ in body_[i_ + 1:rec_at[0]] if any(isinstance(c, ast.Call) for c in ast.walk(b_)) and not records(b_)]
                    rep.instance(rule, f'{c_.name}.{f_.name}: {var_} created at step {i_}, put on {ul_} at step {rec_at[0]}, fallible steps in between: {len(between)}')
                    if between:
                        rep.violation(rule, loc(m_, between[0]), f'{c_.name}.{f_.name}', f'{norm(between[0], 70)} runs before `{var_}` is on the undo list',
                                      f'`{var_}` is created, then `{norm(between[0], 60)}` can raise before `{var_}` has been recorded on {ul_}: '
                                      f'the handler does not know about it and leaves it in the model')



def run(prog, rep):
    rep.extra['explanation'] = (
        'The NEW branch of each element constructor is analysed on its CFG: after the first statement that mutates the '
        'graph (summary MUT over the user layer) no statement that can reject caller input (summary REJ: raise, assert, '
        'validating sliver setter, catalogue lookup, call of a rejecting method) may be reachable outside a try whose '
        'handler removes what was built; mutation arguments must be evaluated eagerly. The rollback handler of the service '
        'constructor is checked for breadth, compensation and re-raise, uniqueness checks for dominance over inserts, and '
        'multi-step building methods without compensation are listed as findings. Atomicity for failures that depend on '
        'which ids are stored is not decided.')
    rep.rule('R1', 'validate before mutate in element constructors; eager mutation arguments', floor=5)
    rep.rule('R2', 'rollback handler breadth, compensation, re-raise; connect/disconnect peer-set agreement', floor=3)
    rep.rule('R3', 'uniqueness checks dominate the insert', floor=3)
    rep.rule('R4', 'composite building operations have compensation', floor=4)

    summ = Summaries(prog)
    rep.extra['mut_methods'] = len(summ.mut)
    rep.extra['rej_methods'] = len(summ.rej)

    for spec in CONSTRUCTORS:
        cls = prog.cls(spec)
        init = cls.methods.get('__init__')
        if init is None:
            raise AnalysisError(f'{cls.qual}.__init__ vanished')
        init = inline(prog, cls, init)
        mod = cls.module
        fq = f'{cls.name}.__init__'
        news = [n for n in init.body if isinstance(n, ast.If) and 'ElementType.NEW' in ast.unparse(n.test)]
        if len(news) != 1:
            raise AnalysisError(f'{fq}: NEW branch not found')
        cfg = CFG(init)
        # nodes of the NEW branch
        branch_stmts = set()
        for s in news[0].body:
            for x in ast.walk(s):
                branch_stmts.add(id(x))
        muts = []
        for n in cfg.nodes:
            if n.ast is None or id(n.ast) not in branch_stmts and not (n.kind == 'test' and id(n.ast) in branch_stmts):
                continue
            target = n.ast
            if n.kind == 'test' and n.tag == 'for':
                continue
            for c in walk_no_nested(target):
                if isinstance(c, ast.Call):
                    callee = summ.resolve(c, cls)
                    if is_graph_mutation(c) or is_new_element(c) or (callee and callee in summ.mut and callee != (cls.simple, '__init__')
                                                                     and not (callee[1] == '__init__' and callee[0] == 'ModelElement')):
                        muts.append((n, c))
                        break
        if not muts:
            raise AnalysisError(f'{fq}: no graph mutation found in the NEW branch')
        first = min(muts, key=lambda t: t[1].lineno)
        rep.instance('R1', f'{fq}: first mutation {norm(first[1], 90)}')
        # eager arguments
        for a in list(first[1].args) + [k.value for k in first[1].keywords]:
            lazy = isinstance(a, ast.GeneratorExp)
            if isinstance(a, ast.Name):
                for d in walk_no_nested(init):
                    if isinstance(d, ast.Assign) and any(isinstance(t, ast.Name) and t.id == a.id for t in d.targets) and \
                            isinstance(d.value, (ast.GeneratorExp,)) or (isinstance(d, ast.Assign) and isinstance(d.value, ast.Call) and
                                                                        call_name(d.value) in ('map', 'filter') and any(isinstance(t, ast.Name) and t.id == a.id for t in d.targets)):
                        lazy = True
            if lazy:
                rep.violation('R1', loc(mod, first[1]), fq, f'lazy argument {norm(a, 60)} of {call_name(first[1])}',
                              'an argument of the graph mutation is a lazy generator over caller data: it is consumed inside the '
                              'graph operation after the element node has been inserted, so a bad entry raises with the element '
                              'left in the model')
        # forward reachability from the mutation over normal edges
        seen = set()
        stack = [s for s, ek in first[0].succ if ek != 'x']
        while stack:
            n = stack.pop()
            if n.id in seen:
                continue
            seen.add(n.id)
            for s, ek in n.succ:
                if ek != 'x':
                    stack.append(s)
        for n in cfg.nodes:
            if n.id not in seen or n.ast is None:
                continue
            if n.kind == 'handler':
                continue
            st = n.ast
            if n.kind == 'test':
                if n.tag == 'assert':
                    why = 'assert'
                    st_for_loc = st
                else:
                    continue
            elif n.kind == 'stmt':
                if n.tag == 'assert-fail':
                    continue
                why = stmt_is_rejecting(st, cls, summ)
            else:
                continue
            if not why:
                continue
            if _inside_handler_reraise(st):
                continue
            comp = _compensated(st, init)
            rep.instance('R1', f'{fq}: after the first mutation: {norm(st, 70)} [{why}] compensated={comp}')
            if not comp:
                rep.violation('R1', loc(mod, st), fq, norm(st, 100),
                              f'this statement can reject the call ({why}) after the element has already been added to the model '
                              f'and it is not inside a try whose handler removes the element: the failed call leaves a partially '
                              f'created element behind')

    # ---- R2 ----
    ns = prog.cls('fim.user.network_service:NetworkService')
    init = inline(prog, ns, ns.methods['__init__'])
    nmod = ns.module
    tries = [t for t in ast.walk(init) if isinstance(t, ast.Try) and
             any(isinstance(c, ast.Call) and call_name(c) == 'connect_interface' for st in t.body for c in ast.walk(st))]
    if len(tries) != 1:
        raise AnalysisError('NetworkService.__init__: rollback try not found')
    tr = tries[0]
    caught9 = set()
    for h in tr.handlers:
        if h.type is None:
            caught9.add('BaseException')
        else:
            for t_ in (h.type.elts if isinstance(h.type, ast.Tuple) else [h.type]):
                caught9.add(ast.unparse(t_).split('.')[-1])
    htype = ', '.join(sorted(caught9))
    rep.instance('R2', f'NetworkService.__init__: rollback handler(s) catch {htype}')
    body_calls = [summ.resolve(c, ns) for s in tr.body for c in ast.walk(s) if isinstance(c, ast.Call)]
    can_assert = any(k and any(isinstance(x, ast.Assert) for x in walk_no_nested(summ.methods[k][1])) for k in body_calls if k in summ.methods)
    if not (caught9 & {'Exception', 'BaseException'}):
        rep.violation('R2', loc(nmod, tr.handlers[0]), 'NetworkService.__init__', f'rollback handler catches only {htype}',
                      f'the guarded body can also raise {"AssertionError, " if can_assert else ""}AttributeError/TypeError for a bad '
                      f'entry in the interface list; those escape the handler, and the service with the ports and links created '
                      f'so far stays in the model')
    body_all = list(tr.body) + list(tr.orelse)       # the else block runs after the guarded steps succeeded
    for h in tr.handlers:
        hcalls = [call_name(c) for c in ast.walk(h) if isinstance(c, ast.Call)]
        rep.instance('R2', f'NetworkService.__init__: rollback steps {[c for c in hcalls if c in ("disconnect_interface",) or c in REMOVERS]}')
        if 'disconnect_interface' not in hcalls or 'remove_ns_with_cps_and_links' not in hcalls:
            rep.violation('R2', loc(nmod, h), 'NetworkService.__init__', 'rollback does not undo every creation step',
                          'the handler must disconnect the interfaces connected so far and remove the service')
        rm = [c for c in ast.walk(h) if isinstance(c, ast.Call) and call_name(c) == 'remove_ns_with_cps_and_links']
        if rm and ast.unparse(kwarg(rm[0], 'node_id') or ast.Constant(None)) != 'self.node_id':
            rep.violation('R2', loc(nmod, rm[0]), 'NetworkService.__init__', norm(rm[0]), 'the rollback must remove this service')
        # what the rollback undoes is what has been done: an item is put on the list the handler iterates only after its step succeeded
        undo_lists = {ast.unparse(l.iter) for l in ast.walk(h) if isinstance(l, ast.For) and isinstance(l.iter, ast.Name) and
                      any(isinstance(c, ast.Call) and call_name(c) in ('disconnect_interface',) or (isinstance(c, ast.Call) and call_name(c) in REMOVERS) for c in ast.walk(l))}
        for ul_ in sorted(undo_lists):
            recs = [(i_, st_) for i_, st_ in enumerate(body_all) for c in ast.walk(st_) if isinstance(c, ast.Call) and call_name(c) in ('append', 'add')
                    and isinstance(c.func.value, ast.Name) and c.func.value.id == ul_]
            steps = [i_ for i_, st_ in enumerate(body_all) for c in ast.walk(st_) if isinstance(c, ast.Call) and call_name(c) == 'connect_interface']
            rep.instance('R2', f'NetworkService.__init__: undo list {ul_}: recorded at body positions {[i_ for i_, _ in recs]}, step at {steps}')
            for i_, st_ in recs:
                if steps and i_ < max(steps):
                    rep.violation('R2', loc(nmod, st_), 'NetworkService.__init__', f'{norm(st_, 60)} precedes the step it records',
                                  f'the interface is put on the undo list {ul_} before connect_interface has succeeded for it: when that call is '
                                  f'refused (e.g. the interface is already connected to another service) the rollback disconnects it anyway and '
                                  f'tears down a connection this call never made')
        # every path through the handler re-raises
        last = h.body[-1]
        reraises = isinstance(last, ast.Raise) or (isinstance(last, ast.If) and False)
        if not reraises:
            rep.violation('R2', loc(nmod, h), 'NetworkService.__init__', 'rollback does not re-raise', 'the failure must be reported to the caller after the rollback')
    # everything that can reject inside the creation loop is inside the try
    loop = tr._parent
    if isinstance(loop, ast.For):
        outside = [s for s in loop.body if s is not tr]
        for s in outside:
            why = stmt_is_rejecting(s, ns, summ)
            if why:
                rep.violation('R2', loc(nmod, s), 'NetworkService.__init__', norm(s, 100),
                              f'a rejecting statement ({why}) sits in the connect loop but outside the rollback scope')
    # connect precondition vs disconnect: same (unfiltered) peer set
    ci = ns.methods['connect_interface']
    di = ns.methods['disconnect_interface']

    def peer_queries(fn):
        out = []
        for c in walk_no_nested(fn):
            if isinstance(c, ast.Call) and call_name(c) in ('find_peer_connection_points', 'get_peers'):
                filt = [k for k in c.keywords if k.arg == 'itype'] or (c.args if call_name(c) == 'get_peers' else [])
                out.append((c, bool(filt)))
        return out
    cq, dq = peer_queries(ci), peer_queries(di)
    rep.instance('R2', f'connect_interface peers {[(norm(c, 60), f) for c, f in cq]} / disconnect_interface peers {[(norm(c, 60), f) for c, f in dq]}')
    if not cq or not dq:
        raise AnalysisError('peer queries of connect_interface / disconnect_interface not found')
    if any(f for _, f in cq) != any(f for _, f in dq):
        c0 = [c for c, f in cq if f] or [c for c, f in dq if f]
        rep.violation('R2', loc(nmod, c0[0]), 'NetworkService.connect_interface', f'connect tests {norm(cq[0][0], 60)} but disconnect uses {norm(dq[0][0], 60)}',
                      'the "already connected" precondition of connect and the disconnect used by the rollback look at different '
                      'peer sets (one filtered by interface type, one not): an interface that connect accepts can make the '
                      'rollback\'s disconnect raise, so the rollback aborts and the partially built service stays')
    guard = [n for n in ast.walk(ci) if isinstance(n, ast.If) and 'peer' in ast.unparse(n.test) and any(isinstance(x, ast.Raise) for x in n.body)]
    if not guard:
        rep.violation('R2', loc(nmod, ci), 'NetworkService.connect_interface', 'no already-connected guard', 'an interface that already has a peer must be refused')

    # ---- R10: the graph-level deep writers refuse, before their first insertion, what would make them fail half way ----
    rep.rule('R10', 'a deep graph writer checks the parent and every node id of the sliver tree before its first insertion', floor=5)
    apg10 = prog.cls('fim.graph.abc_property_graph:ABCPropertyGraph')
    CONTAINERS10 = ('attached_components_info', 'network_service_info', 'interface_info')
    DEEP = ('add_network_node_sliver', 'add_component_sliver', 'add_network_service_sliver', 'add_interface_sliver')
    direct = {}
    inl10 = {}
    for w in DEEP:
        f0 = apg10.methods.get(w)
        if f0 is None:
            raise AnalysisError(f'deep writer {w} vanished')
        fi = inline(prog, apg10, f0, depth=4)
        inl10[w] = fi
        env10 = local_env(fi)
        cs_, kids_ = set(), set()
        for l in [n for n in ast.walk(fi) if isinstance(n, ast.For)]:
            called = {call_name(c) for c in ast.walk(l) if isinstance(c, ast.Call) and call_name(c) in DEEP}
            if called:
                kids_ |= called
                cs_ |= {x.attr for x in ast.walk(expand(l.iter, env10)) if isinstance(x, ast.Attribute) and x.attr in CONTAINERS10}
        direct[w] = (cs_, kids_)

    def needed(w, seen=()):
        cs_, kids_ = direct[w]
        out = set(cs_)
        for k_ in kids_:
            if k_ not in seen:
                out |= needed(k_, seen + (w,))
        return out
    for w in DEEP:
        fi = inl10[w]
        wcfg = CFG(fi)
        wdom = wcfg.dominators()
        adds = [c for c in walk_no_nested(fi) if isinstance(c, ast.Call) and call_name(c) == 'add_node']
        if not adds:
            raise AnalysisError(f'{w}: no add_node call')
        first = min(adds, key=lambda c: (c.lineno, c.col_offset))
        fnode = flow.node_of(wcfg, first)
        pparams = [p_ for p_ in func_params(fi) if 'parent' in p_]
        links_parent = any(isinstance(c, ast.Call) and call_name(c) == 'add_link' and pparams and
                           any(isinstance(x, ast.Name) and x.id == pparams[0] for x in ast.walk(c)) for c in walk_no_nested(fi))
        need = needed(w)

        def dominating(c):
            n_ = flow.node_of(wcfg, c)
            if n_ is not None and fnode is not None and n_.id in wdom.get(fnode.id, set()):
                return True
            # a probe inside a loop: the loop header must dominate
            for l in [p_ for p_ in _anc9(c, fi) if isinstance(p_, ast.For)]:
                hn = [nd for nd in wcfg.nodes if nd.kind == 'test' and nd.tag == 'for' and nd.ast is l]
                if hn and fnode is not None and hn[0].id in wdom.get(fnode.id, set()):
                    return True
            return False
        probes = [c for c in walk_no_nested(fi) if isinstance(c, ast.Call) and call_name(c) in ('get_node_properties', 'node_exists', '_find_node') and
                  (c.lineno, c.col_offset) < (first.lineno, first.col_offset) or
                  (isinstance(c, ast.Call) and call_name(c) in ('get_node_properties', 'node_exists', '_find_node') and getattr(c, '_src_fn', None) is not None)]
        def guarded_by_parent_only(c):
            # a probe of the parent under "the parent is given" is as good as unconditional: no parent, no link
            if not pparams:
                return False
            _, cs9 = _enclosing(c, fi)
            cjs9 = [ctext(cj) for c_ in cs9 for cj in conjuncts(canon(c_))]
            if not cjs9 or any(t_ != f'{pparams[0]} is not None' for t_ in cjs9):
                return False
            ifs9 = [p_ for p_ in _anc9(c, fi) if isinstance(p_, ast.If)]
            tn = flow.node_of(wcfg, ifs9[-1].test) if ifs9 else None
            return tn is not None and fnode is not None and tn.id in wdom.get(fnode.id, set())
        probes = [c for c in probes if dominating(c) or guarded_by_parent_only(c)]
        parent_ok = (not links_parent) or any(any(isinstance(x, ast.Name) and x.id == pparams[0] for x in ast.walk(c)) for c in probes)
        tree_probe = [c for c in probes if any(isinstance(p_, ast.For) for p_ in _anc9(c, fi))]
        # what the writer and the helpers it calls (also generator helpers, which are not inlined) mention
        region_fns, frontier = [fi], [fi]
        seen_fn = set()
        for _ in range(4):
            nxt = []
            for f__ in frontier:
                for c in ast.walk(f__):
                    if isinstance(c, ast.Call) and call_name(c) in apg10.methods and call_name(c) not in seen_fn and call_name(c) not in DEEP:
                        seen_fn.add(call_name(c))
                        nxt.append(apg10.methods[call_name(c)])
            region_fns += nxt
            frontier = nxt
        region_consts = {x.value for f__ in region_fns for x in ast.walk(f__) if isinstance(x, ast.Constant) and isinstance(x.value, str)} | \
            {x.attr for f__ in region_fns for x in ast.walk(f__) if isinstance(x, ast.Attribute)}
        # ... and the class-level tables they refer to
        for nm_ in [x.attr for f__ in region_fns for x in ast.walk(f__) if isinstance(x, ast.Attribute)] + \
                [x.id for f__ in region_fns for x in ast.walk(f__) if isinstance(x, ast.Name)]:
            for k_ in apg10.mro():
                if nm_ in k_.assigns:
                    region_consts |= {x.value for x in ast.walk(k_.assigns[nm_]) if isinstance(x, ast.Constant) and isinstance(x.value, str)}
                    break
        ids_ok = (not need and not direct[w][1]) or (bool(tree_probe) and need <= region_consts and
                                                      any(isinstance(r_, ast.Raise) for c in tree_probe for l in _anc9(c, fi) if isinstance(l, ast.For) for r_ in ast.walk(l)))
        rep.instance('R10', f'{w}: links to its parent: {links_parent} (parent probed first: {parent_ok}); nested containers written {sorted(need)} (ids probed first: {ids_ok})')
        if not parent_ok:
            rep.violation('R10', loc(apg10.module, first), f'ABCPropertyGraph.{w}', 'parent not verified before the insertion',
                          f'{w} inserts the element and then links it to `{pparams[0]}`; when that parent is not in the graph (a stale handle) the '
                          f'link is refused after the node was inserted and the node stays behind as an orphan')
        if not ids_ok:
            rep.violation('R10', loc(apg10.module, first), f'ABCPropertyGraph.{w}', 'nested node ids not verified before the insertion',
                          f'{w} inserts the element and then its nested elements ({sorted(need)}) one by one; a nested node id that is already in use '
                          f'is refused at that point, after the element and the earlier nested elements were inserted, and they stay in the model')

    # an element of the tree without a node id cannot be added (every writer asserts the id): the pre-check refuses it instead of
    # skipping it, otherwise the writers fail at that element after its parent and earlier siblings were inserted
    for w in DEEP[:1]:
        fi = inl10[w]
        for l in [n for n in ast.walk(fi) if isinstance(n, ast.For)]:
            probes_in = [c for c in ast.walk(l) if isinstance(c, ast.Call) and call_name(c) in ('get_node_properties', 'node_exists', '_find_node')]
            if not probes_in or not any(isinstance(r_, ast.Raise) for r_ in ast.walk(l)):
                continue
            tnames = {x.id for x in ast.walk(l.target) if isinstance(x, ast.Name)}
            skips = [i_ for i_ in ast.walk(l) if isinstance(i_, ast.If) and isinstance(i_.test, ast.Compare) and isinstance(i_.test.ops[0], ast.Is) and
                     isinstance(i_.test.left, ast.Name) and i_.test.left.id in tnames and
                     isinstance(i_.test.comparators[0], ast.Constant) and i_.test.comparators[0].value is None]
            for i_ in skips:
                silent = any(isinstance(x, ast.Continue) for x in i_.body) and not any(isinstance(x, ast.Raise) for x in ast.walk(i_))
                rep.instance('R10', f'pre-check loop over {norm(l.iter, 40)}: an element without a node id is refused: {not silent}')
                if silent:
                    rep.violation('R10', loc(apg10.module, i_), 'ABCPropertyGraph._check_can_add_sliver', f'{norm(i_.test)}: continue',
                                  'the check that runs before the first insertion skips an element of the sliver tree that has no node id; the '
                                  'writer of that element asserts the id, so the operation fails there - after the parent and the earlier '
                                  'children were inserted, and they stay in the model')
    # the collector of the tree ids descends all the way: below each child container it calls itself on the child (or feeds a
    # worklist it is popping from); taking only `child.node_id` covers one level of a tree that is up to four deep
    collectors = []
    for cname, cf in apg10.methods.items():
        txt_names = {x.value for x in ast.walk(cf) if isinstance(x, ast.Constant) and isinstance(x.value, str)} | \
            {x.attr for x in ast.walk(cf) if isinstance(x, ast.Attribute)}
        for nm_ in [x.attr for x in ast.walk(cf) if isinstance(x, ast.Attribute)] + [x.id for x in ast.walk(cf) if isinstance(x, ast.Name)]:
            for k_ in apg10.mro():
                if nm_ in k_.assigns:
                    txt_names |= {x.value for x in ast.walk(k_.assigns[nm_]) if isinstance(x, ast.Constant) and isinstance(x.value, str)}
                    break
        if len(set(CONTAINERS10) & txt_names) < 2 or 'node_id' not in txt_names:
            continue
        if any(isinstance(c, ast.Call) and call_name(c) in ('add_node', 'add_link') + DEEP for c in ast.walk(cf)):
            continue
        if not any((isinstance(r_, ast.Return) and r_.value is not None) or isinstance(r_, (ast.Yield, ast.YieldFrom)) for r_ in ast.walk(cf)):
            continue
        if not any(isinstance(c, ast.Call) and call_name(c) == cname for w in DEEP for c in ast.walk(inline(prog, apg10, apg10.methods[w], depth=1))) and \
                not any(isinstance(c, ast.Call) and call_name(c) == cname for o in apg10.methods.values() if o is not cf for c in ast.walk(o)):
            continue
        collectors.append((cname, cf))
    for cname, cf in collectors:
        loops_c = [l for l in ast.walk(cf) if isinstance(l, (ast.For, ast.comprehension, ast.While))]
        recursive = any(isinstance(c, ast.Call) and call_name(c) == cname for c in ast.walk(cf))
        worklist = any(isinstance(l, ast.While) and any(isinstance(c, ast.Call) and call_name(c) in ('pop', 'popleft') for c in ast.walk(l)) and
                       any(isinstance(c, ast.Call) and call_name(c) in ('extend', 'append', 'appendleft') for c in ast.walk(l)) for l in loops_c)
        shallow = [x for x in ast.walk(cf) if isinstance(x, ast.Attribute) and x.attr == 'node_id' and isinstance(x.value, ast.Name) and
                   x.value.id not in func_params(cf)]
        rep.instance('R10', f'{cname}: collects the node ids of a sliver tree; descends by recursion: {recursive}, by worklist: {worklist}')
        if not recursive and not worklist:
            if not shallow:
                raise AnalysisError(f'{apg10.module.relpath}:{cf.lineno} {cname}: how the collector descends into the children is not recognised')
            rep.violation('R10', loc(apg10.module, shallow[0]), f'ABCPropertyGraph.{cname}', f'only {norm(shallow[0])} of each child is collected',
                          f'{cname} lists the ids the writers verify before their first insertion, but takes only the id of each direct child: '
                          f'the ids further down (the services and interfaces of a component, the sub-interfaces of an interface) are not verified, '
                          f'and a clash there is refused only after the element and part of its children were inserted - they stay in the model')
    if not collectors:
        rep.note('R10: no separate tree-id collector found; the ids_ok check above stands alone')

    # ---- R9: what a step created is on the undo list before the next step can fail ----
    rep.rule('R9', 'in a compensated body every created element is recorded for the rollback before the next step that can fail', floor=2)
    check_recorded_before_next_step(prog, rep, 'R9')

    # ---- R11: a rollback handler is entered for every failure of the guarded steps ----
    rep.rule('R11', 'a handler that undoes the guarded steps and re-raises catches Exception (asserts, graph and model errors alike)', floor=5)
    check_rollback_handler_breadth(prog, rep, 'R11')

    # ---- R6: a compensation handler only undoes what the guarded body has done ----
    rep.rule('R6', 'a rollback handler never deletes an element whose creation is itself inside the guarded body', floor=3)
    CREATORS = {'add_node': 'node_id', 'add_network_node_sliver': None, 'add_component_sliver': None, 'add_network_service_sliver': None,
                'add_interface_sliver': None, 'add_network_link_sliver': None}
    for m_, c_, f_ in prog.all_functions():
        if not (m_.name.startswith('fim.user') or m_.name == 'fim.graph.abc_property_graph'):
            continue
        for tr_ in [t for t in walk_no_nested(f_) if isinstance(t, ast.Try)]:
            for h_ in tr_.handlers:
                for rc_ in [x for x in ast.walk(h_) if isinstance(x, ast.Call) and call_name(x) in REMOVERS]:
                    rid = kwarg(rc_, 'node_id') or (rc_.args[0] if rc_.args else None)
                    if rid is None:
                        continue
                    fq_ = (c_.name + '.' if c_ else '') + f_.name
                    rtxt = ast.unparse(rid)
                    inside = []
                    for st_ in tr_.body:
                        for x in ast.walk(st_):
                            if isinstance(x, ast.Call) and call_name(x) in CREATORS and isinstance(x.func, ast.Attribute):
                                cid = kwarg(x, 'node_id')
                                if cid is None:
                                    # sliver writers take the id from the sliver they are given
                                    sl = [k.value for k in x.keywords if k.arg not in ('parent_node_id', 'interfaces')]
                                    cid_txt = [ast.unparse(v) + '.node_id' for v in sl]
                                else:
                                    cid_txt = [ast.unparse(cid)]
                                if rtxt in cid_txt:
                                    inside.append(x)
                    rep.instance('R6', f'{fq_}: handler removes {rtxt}; creations of that id inside the guarded body: {len(inside)}')
                    for x in inside:
                        rep.violation('R6', loc(m_, x), fq_, f'{norm(x, 70)} is guarded by the handler that removes {rtxt}',
                                      f'the handler of this try removes {rtxt}, and the call that creates {rtxt} is inside the guarded body: when '
                                      f'that creation itself is refused because the id is already in use, the handler deletes the element that '
                                      f'already owned the id (with its edges) - a failed call destroys an unrelated element')

    # ---- R7: the compensation removes the element that was created, by the id that element actually has ----
    rep.rule('R7', 'a compensating handler addresses the created element through the element (its node_id), not through an optional argument', floor=3)
    for key, (c, f) in sorted(summ.methods.items(), key=lambda kv: (kv[0][0], kv[0][1])):
        for tr_ in [t for t in walk_no_nested(f) if isinstance(t, ast.Try)]:
            for h_ in tr_.handlers:
                for rc_ in [x for x in ast.walk(h_) if isinstance(x, ast.Call) and call_name(x) in REMOVERS]:
                    rid = kwarg(rc_, 'node_id') or (rc_.args[0] if rc_.args else None)
                    if rid is None:
                        continue
                    fq_ = f'{c.name}.{key[1]}'
                    optional = set()
                    a_ = f.args
                    for p_, d_ in list(zip([x.arg for x in a_.args][len(a_.args) - len(a_.defaults):], a_.defaults)) + \
                            [(x.arg, d) for x, d in zip(a_.kwonlyargs, a_.kw_defaults)]:
                        if isinstance(d_, ast.Constant) and d_.value is None:
                            optional.add(p_)
                    rep.instance('R7', f'{fq_}: handler removes {norm(rid, 50)}')
                    if isinstance(rid, ast.Name) and rid.id in optional:
                        rep.violation('R7', loc(c.module, rc_), fq_, f'handler removes node_id={rid.id} (an optional argument)',
                                      f'the compensating handler removes the element by the argument `{rid.id}`, which is None whenever the caller '
                                      f'let the library generate the id: the rollback then removes nothing (or fails) and the partially built '
                                      f'element stays in the model')

    # ---- R8: the graph-level link writer checks what it references before it inserts ----
    rep.rule('R8', 'add_network_link_sliver verifies every interface id before the Link node is inserted', floor=1)
    apg_ = prog.cls('fim.graph.abc_property_graph:ABCPropertyGraph')
    lw0 = apg_.methods.get('add_network_link_sliver')
    if lw0 is None:
        raise AnalysisError('add_network_link_sliver vanished')
    lw = inline(prog, apg_, lw0)
    lcfg = CFG(lw)
    ldom = lcfg.dominators()
    ins_ = [c for c in walk_no_nested(lw) if isinstance(c, ast.Call) and call_name(c) == 'add_node']
    iparam_ = 'interfaces'
    lenv_ = local_env(lw)

    def exists_of(e, var):
        """is ``e`` the test "the node <var> exists (as a ConnectionPoint)"?"""
        if not (isinstance(e, ast.Call) and call_name(e) == 'node_exists'):
            return False
        nid = kwarg(e, 'node_id') or (e.args[0] if e.args else None)
        return isinstance(nid, ast.Name) and nid.id == var

    def over_ifs(gens):
        return len(gens) == 1 and isinstance(gens[0].target, ast.Name) and isinstance(gens[0].iter, ast.Name) and gens[0].iter.id == iparam_

    def missing_gen(g):
        """generator / comprehension producing the interface ids that do NOT exist"""
        if not isinstance(g, (ast.GeneratorExp, ast.ListComp, ast.SetComp)) or not over_ifs(g.generators):
            return False
        v = g.generators[0].target.id
        ifs_ = [canon(x) for x in g.generators[0].ifs]
        return len(ifs_) == 1 and isinstance(ifs_[0], ast.UnaryOp) and isinstance(ifs_[0].op, ast.Not) and exists_of(ifs_[0].operand, v) and \
            isinstance(g.elt, ast.Name) and g.elt.id == v

    def says_all_exist(cj):
        """does the (canonical) condition ``cj`` state that every id in ``interfaces`` exists?"""
        cj = canon(expand(cj, lenv_))
        # all(exists(i) for i in interfaces)
        if isinstance(cj, ast.Call) and isinstance(cj.func, ast.Name) and cj.func.id == 'all' and cj.args and \
                isinstance(cj.args[0], (ast.GeneratorExp, ast.ListComp)) and over_ifs(cj.args[0].generators) and not cj.args[0].generators[0].ifs and \
                exists_of(cj.args[0].elt, cj.args[0].generators[0].target.id):
            return True
        # not [i for i in interfaces if not exists(i)]   /   next((i for ... if not exists(i)), None) is None
        if isinstance(cj, ast.UnaryOp) and isinstance(cj.op, ast.Not) and missing_gen(cj.operand):
            return True
        if isinstance(cj, ast.Compare) and len(cj.ops) == 1 and isinstance(cj.ops[0], ast.Is) and isinstance(cj.comparators[0], ast.Constant) and \
                cj.comparators[0].value is None and isinstance(cj.left, ast.Call) and isinstance(cj.left.func, ast.Name) and cj.left.func.id == 'next' and \
                len(cj.left.args) == 2 and isinstance(cj.left.args[1], ast.Constant) and cj.left.args[1].value is None and missing_gen(cj.left.args[0]):
            return True
        return False
    chk_loops = []
    for l in walk_no_nested(lw):
        if isinstance(l, ast.For) and isinstance(l.iter, ast.Name) and l.iter.id == iparam_ and isinstance(l.target, ast.Name) and \
                not any(isinstance(c, ast.Call) and call_name(c) in ('add_link', 'add_node') for c in ast.walk(l)) and \
                not any(isinstance(x, (ast.Break, ast.Continue, ast.Return)) for x in ast.walk(l)):
            # every iteration rejects an id that does not exist: a raise guarded by exactly "not exists(<loop variable>)"
            for r_ in [x for x in ast.walk(l) if isinstance(x, ast.Raise)]:
                _, cs_ = _enclosing(r_, l)
                cjs_ = [canon(cj) for c_ in cs_ for cj in conjuncts(canon(c_))]
                if len(cjs_) == 1 and isinstance(cjs_[0], ast.UnaryOp) and isinstance(cjs_[0].op, ast.Not) and exists_of(cjs_[0].operand, l.target.id):
                    chk_loops.append(l)
    okl = False
    if ins_:
        inode = flow.node_of(lcfg, ins_[0])
        for l in chk_loops:
            hn = [nd for nd in lcfg.nodes if nd.kind == 'test' and nd.tag == 'for' and nd.ast is l]
            if hn and inode is not None and hn[0].id in ldom.get(inode.id, set()):
                okl = True
        _, guards_ = _enclosing(ins_[0], lw)
        if any(says_all_exist(cj) for g_ in guards_ for cj in conjuncts(canon(g_))):
            okl = True
    rep.instance('R8', f'add_network_link_sliver: interface ids verified before the insert: {okl}')
    if not okl:
        rep.violation('R8', loc(apg_.module, lw0), 'ABCPropertyGraph.add_network_link_sliver', 'interface ids not verified before the Link node is inserted',
                      'the Link node is inserted and then connected interface by interface: an id that is not a ConnectionPoint of this graph '
                      '(an interface of another topology, a stale handle) makes add_link raise after the Link node and the edges to the '
                      'earlier interfaces were added - the rejected call leaves a dangling Link in the model')

    # ---- R3 ----
    apg = prog.cls('fim.graph.abc_property_graph:ABCPropertyGraph')
    for name, cond in (('add_network_node_sliver', None), ('add_network_service_sliver', 'parent_node_id is None')):
        fn = apg.methods.get(name)
        cfg = CFG(fn)
        ins = [n for n in cfg.nodes if n.kind == 'stmt' and n.ast is not None and any(isinstance(c, ast.Call) and call_name(c) == 'add_node' for c in walk_no_nested(n.ast))]
        tests = [t for t in cfg.nodes if t.kind == 'test' and t.tag == 'if' and 'check_node_unique' in ast.unparse(t.ast)]
        rep.instance('R3', f'ABCPropertyGraph.{name}: uniqueness test {[norm(t.ast, 80) for t in tests]}')
        ok = bool(ins) and bool(tests) and cfg.edge_dominates(tests[0], 'f', ins[0])
        if ok and cond and cond not in ast.unparse(tests[0].ast):
            ok = False
        if ok:
            t = ast.unparse(tests[0].ast)
            ok = 'not self.check_node_unique' in t
        if not ok:
            rep.violation('R3', loc(apg.module, fn), f'ABCPropertyGraph.{name}', 'name uniqueness not tested before the insert',
                          'an element with a name that is already taken in its scope is inserted (and a later rejection leaves it)')
    nxpg = prog.cls(nxg.NXPG)
    an = nxpg.methods['add_node']
    cfg = CFG(an)
    ins = [n for n in cfg.nodes if n.kind == 'stmt' and n.ast is not None and any(isinstance(c, ast.Call) and call_name(c) == 'add_blank_node_to_graph' for c in walk_no_nested(n.ast))]
    guards = [t for t in cfg.nodes if t.kind == 'test' and t.tag == 'if' and any(isinstance(x, ast.Raise) for x in ast.walk(t.ast._parent))]
    rep.instance('R3', f'NetworkXPropertyGraph.add_node: existence guard {[norm(g.ast, 60) for g in guards]}')
    if not ins or not any(cfg.edge_dominates(g, 'f', ins[0]) for g in guards):
        rep.violation('R3', loc(nxpg.module, an), 'NetworkXPropertyGraph.add_node', 'no existence test before the insert', 'a duplicate node id is inserted')

    # ---- R4 ----
    rep.rule('R5', 'in a composite operation the step that receives the caller-supplied properties comes first', floor=3)
    check_caller_input_first(prog, rep, 'R5', summ)
    for key, (c, f) in sorted(summ.methods.items(), key=lambda kv: (kv[0][0], kv[0][1])):
        if key[1].startswith('_') and key[1] != '__init__':
            continue
        if key[0] in ('ModelElement',):
            continue
        if key[1] == '__init__':
            continue
        steps = []
        for call in sorted([x for x in walk_no_nested(f) if isinstance(x, ast.Call)], key=lambda x: (x.lineno, x.col_offset)):
            callee = summ.resolve(call, c)
            is_step = is_new_element(call)
            cn = call_name(call)
            if not is_step and cn in ('add_node', 'add_network_service', 'add_interface', 'add_component', 'add_link', 'add_child_interface') \
                    and isinstance(call.func, ast.Attribute):
                recv = ast.unparse(call.func.value)
                if 'graph' not in recv.lower():     # graph_model.* are primitives, derived_graph.* is networkx
                    is_step = True
            if is_step:
                in_loop = False
                p = call
                while p is not f:
                    p = p._parent
                    if isinstance(p, (ast.For, ast.While)):
                        in_loop = True
                steps.append((call, in_loop))
        if len(steps) < 2:
            continue
        fq = f'{c.name}.{key[1]}'
        s1, s2 = steps[0][0], steps[1][0]
        comp = _compensated(_stmt_of(s2), f)
        construct = f'{_step_name(s1)} then {_step_name(s2)}'
        rep.instance('R4', f'{fq}: {len(steps)} creation steps: {construct}; compensated={comp}')
        if not comp:
            rep.violation('R4', loc(c.module, s2), fq, construct,
                          f'{fq} builds several elements one after the other ({", ".join(_step_name(s) for s, _ in steps)}) with no '
                          f'compensation: when a later step is rejected (e.g. a derived name or id fails validation) the elements '
                          f'created by the earlier steps stay in the model')
    # graph-level composite writers: recorded, not decided (failure depends on stored ids)
    comps = []
    for name, fn in apg.methods.items():
        if name.startswith('add_') and name.endswith('_sliver'):
            n = sum(1 for c in walk_no_nested(fn) if isinstance(c, ast.Call) and call_name(c) in ('add_node', 'add_link') or
                    (isinstance(c, ast.Call) and (call_name(c) or '').endswith('_sliver') and call_name(c) != name))
            comps.append(f'{name}: {n} mutation steps')
    rep.note('graph-level writers are multi-step without compensation (atomic only if ids are fresh and parents exist - not decided): ' + '; '.join(sorted(comps)))


def composite_steps(summ, c, f):
    """creation steps (calls that add an element to the model) of a user-layer method, in source order"""
    steps = []
    for call in sorted([x for x in walk_no_nested(f) if isinstance(x, ast.Call)], key=lambda x: (x.lineno, x.col_offset)):
        is_step = is_new_element(call)
        cn = call_name(call)
        if not is_step and cn in ('add_node', 'add_network_service', 'add_interface', 'add_component', 'add_link', 'add_child_interface') \
                and isinstance(call.func, ast.Attribute):
            recv = ast.unparse(call.func.value)
            if 'graph' not in recv.lower():     # graph_model.* are primitives, derived_graph.* is networkx
                is_step = True
        if is_step:
            steps.append(call)
    return steps


def check_caller_input_first(prog, rep, rule, summ=None):
    """A composite operation hands the caller's free-form properties (**kwargs) to one of its creation steps; that step
    validates them and may reject the call. It must be the first creation step, otherwise a rejected call leaves the
    elements of the earlier steps (e.g. a service port without a peer) in the model."""
    summ = summ or Summaries(prog)
    for key, (c, f) in sorted(summ.methods.items(), key=lambda kv: (kv[0][0], kv[0][1])):
        if key[1] == '__init__' or key[0] == 'ModelElement' or f.args.kwarg is None:
            continue
        kw = f.args.kwarg.arg
        steps = composite_steps(summ, c, f)
        if len(steps) < 2:
            continue
        fq = f'{c.name}.{key[1]}'
        carriers = [i for i, st in enumerate(steps) if any(k.arg is None and isinstance(k.value, ast.Name) and k.value.id == kw for k in st.keywords)]
        rep.instance(rule, f'{fq}: {len(steps)} creation steps, caller properties go to step {[i + 1 for i in carriers]}')
        for i in carriers:
            if i > 0 and not _compensated(_stmt_of(steps[i]), f):
                rep.violation(rule, loc(c.module, steps[i]), fq, f'caller-supplied properties are applied in creation step {i + 1} ({_step_name(steps[i])})',
                              f'{fq} creates {", ".join(_step_name(s_) for s_ in steps[:i])} before the step that receives the caller\'s '
                              f'**{kw}: when those properties are rejected (a misspelt keyword, a value of the wrong type) the call fails '
                              f'but the elements already created stay in the model')


def _stmt_of(node):
    n = node
    while not isinstance(n, ast.stmt):
        n = n._parent
    return n


def _step_name(call):
    if isinstance(call.func, ast.Name):
        return call.func.id + '(NEW)'
    return ast.unparse(call.func).split('.')[-1] + '()'


def _compensated(st, fn):
    """is the statement inside the body of a try whose handler removes elements (and is broad)?"""
    p = st
    while p is not None and p is not fn:
        child = p
        p = getattr(p, '_parent', None)
        if isinstance(p, ast.Try) and child in p.body:
            for h in p.handlers:
                if any(isinstance(c, ast.Call) and call_name(c) in REMOVERS for c in ast.walk(h)):
                    return True
    return False


UNS = 'fim/user/network_service.py'
MUTANTS = [
    {'name': 'precheck-skips-element-without-id', 'file': 'fim/graph/abc_property_graph.py', 'rule': 'R10',
     'find': "                raise PropertyGraphQueryException(graph_id=self.graph_id, node_id=None,\n                                                  msg=\"A sliver without node id cannot be added\")\n",
     'replace': "                continue\n"},
    {'name': 'deep-writer-parent-not-probed', 'file': 'fim/graph/abc_property_graph.py', 'rule': 'R10',
     'find': "            # raises if the parent is not in the graph\n            self.get_node_properties(node_id=parent_node_id)\n", 'replace': "            pass\n"},
    {'name': 'deep-writer-ids-not-probed', 'file': 'fim/graph/abc_property_graph.py', 'rule': 'R10',
     'find': "        ids = self._sliver_tree_ids(sliver)\n", 'replace': "        ids = [sliver.node_id]\n"},
    {'name': 'node-set-properties-after-add', 'file': 'fim/user/node.py', 'rule': 'R1',
     'find': '            sliver.set_properties(**kwargs)\n            self.topo.graph_model.add_network_node_sliver(sliver=sliver)',
     'replace': '            self.topo.graph_model.add_network_node_sliver(sliver=sliver)\n            sliver.set_properties(**kwargs)'},
    {'name': 'interface-type-check-after-add', 'file': 'fim/user/interface.py', 'rule': 'R1',
     'find': '            self.topo.graph_model.add_interface_sliver(parent_node_id=parent_node_id, interface=sliver)\n            self._interfaces = list()',
     'replace': '            self.topo.graph_model.add_interface_sliver(parent_node_id=parent_node_id, interface=sliver)\n            assert isinstance(itype, InterfaceType)\n            self._interfaces = list()'},
    {'name': 'link-ids-lazy-generator', 'file': 'fim/user/link.py', 'rule': 'R1',
     'find': '            interface_ids = [iff.node_id for iff in interfaces]', 'replace': '            interface_ids = (iff.node_id for iff in interfaces)'},
    {'name': 'rollback-handler-narrowed', 'file': UNS, 'rule': 'R2',
     'find': '                    except Exception as e:\n                        # disconnect previously connected interfaces', 'replace': '                    except TopologyException as e:\n                        # disconnect previously connected interfaces'},
    {'name': 'rollback-forgets-service', 'file': UNS, 'rule': 'R2',
     'find': '                        # remove sliver from the graph\n                        self.topo.graph_model.remove_ns_with_cps_and_links(node_id=self.node_id)\n', 'replace': ''},
    {'name': 'node-uniqueness-check-after-insert', 'file': 'fim/graph/abc_property_graph.py', 'rule': 'R3',
     'find': "        if not self.check_node_unique(label=ABCPropertyGraph.CLASS_NetworkNode,\n                                      name=sliver.resource_name):\n            raise PropertyGraphQueryException(msg=f'Node name {sliver.resource_name} must be unique.',\n                                              graph_id=self.graph_id, node_id=None)\n\n        props = self.node_sliver_to_graph_properties_dict(sliver)\n        self.add_node(node_id=sliver.node_id, label=ABCPropertyGraph.CLASS_NetworkNode, props=props)",
     'replace': "        props = self.node_sliver_to_graph_properties_dict(sliver)\n        self.add_node(node_id=sliver.node_id, label=ABCPropertyGraph.CLASS_NetworkNode, props=props)"},
    {'name': 'link-writer-unchecked-references', 'file': 'fim/graph/abc_property_graph.py', 'rule': 'R8',
     'find': "        for i in interfaces:\n            if not self.node_exists(node_id=i, label=ABCPropertyGraph.CLASS_ConnectionPoint):\n                raise PropertyGraphQueryException(graph_id=self.graph_id, node_id=i,\n                                                  msg=\"Unable to add link - it can only connect ConnectionPoints of this graph\")\n",
     'replace': ''},
]
TWINS = [
    {'name': 'independent-validations-reordered', 'file': 'fim/user/node.py',
     'find': '            sliver.set_type(ntype)\n            sliver.set_site(site)', 'replace': '            sliver.set_site(site)\n            sliver.set_type(ntype)'},
    {'name': 'bare-reraise', 'file': UNS,
     'find': '                        if isinstance(e, TopologyException):\n                            raise TopologyException(str(e))\n                        raise', 'replace': '                        raise'},
]
