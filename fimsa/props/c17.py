"""
C17 -- sliver comparison reports exactly the differences between two slivers.

R1 mirrored arguments: every _dict_diff(A, B) / _dict_common(A, B) in a diff method has A rooted at self, B at the
   other sliver, with the same attribute path
R2 every type compared by prop_diff defines value equality (on decoded values for JSON blobs)
R3 per container the three one-sided cases exist with the right direction; result keys agree with _dict_diff
R4 modification flags are accumulated (|=), never overwritten; prop_diff pairs each flag with its getter
R5 every non-NONE WhatsModifiedFlag member is produced somewhere
"""
import ast

from ..core import AnalysisError, norm, loc, walk_no_nested, attr_chain, call_name

BASE = 'fim.slivers.base_sliver:BaseSliver'
DIFF_CLASSES = ['fim.slivers.network_node:NodeSliver', 'fim.slivers.network_service:NetworkServiceSliver',
                'fim.slivers.interface_info:InterfaceSliver']
FLAG = 'fim.slivers.topology_diff:WhatsModifiedFlag'


def other_param(fn):
    ps = [a.arg for a in fn.args.args if a.arg != 'self']
    if not ps:
        raise AnalysisError(f'{fn.name}: no "other" parameter')
    return ps[0]


def run(prog, rep):
    rep.extra['explanation'] = (
        'The three diff implementations and the shared helpers are analysed for argument mirroring, case completeness, '
        'direction of added/removed, flag accumulation, and for value equality of the compared property types '
        '(resolved from getter -> attribute -> setter type -> __eq__). Exactness over all edit scripts is not decided.')
    rep.rule('R1', '_dict_diff/_dict_common compare self.<path> with other.<path>', floor=6)
    rep.rule('R2', 'types compared in prop_diff define value equality', floor=3)
    rep.rule('R3', 'one-sided cases present with correct direction; result keys agree', floor=9)
    rep.rule('R4', 'flags accumulated with |=; prop_diff pairs flag and getter', floor=5)
    rep.rule('R5', 'every non-NONE flag is produced', floor=4)

    base = prog.cls(BASE)
    # _dict_diff semantics
    dd = base.methods.get('_dict_diff')
    if dd is None:
        raise AnalysisError('BaseSliver._dict_diff vanished')
    keys = {}
    for n in ast.walk(dd):
        if isinstance(n, ast.Dict):
            for k, v in zip(n.keys, n.values):
                if isinstance(k, ast.Constant) and k.value in ('added', 'removed'):
                    keys[k.value] = ast.unparse(v)
    rep.instance('R3', f'_dict_diff: added={keys.get("added", "?")[:60]} removed={keys.get("removed", "?")[:60]}')
    a, b = [x.arg for x in dd.args.args][:2]
    want_added = f'{{k: {b}[k] for k in set({b}) - set({a})}}'
    want_removed = f'{{k: {a}[k] for k in set({a}) - set({b})}}'
    if keys.get('added') != want_added or keys.get('removed') != want_removed:
        rep.violation('R3', loc(base.module, dd), 'BaseSliver._dict_diff', 'added/removed definition',
                      f'_dict_diff must define added = entries of the second dict whose key is not in the first and '
                      f'removed = entries of the first whose key is not in the second; found added={keys.get("added")} '
                      f'removed={keys.get("removed")}')
    dc = base.methods.get('_dict_common')
    dctxt = ast.unparse(dc)
    rep.instance('R3', '_dict_common: first-dict values for the common keys')

    flag_cls = prog.cls(FLAG)
    members = [m for m in prog.enum_members(flag_cls) if m != 'NONE']
    produced = set()

    for spec in DIFF_CLASSES:
        cls = prog.cls(spec)
        fn = cls.methods.get('diff')
        if fn is None:
            raise AnalysisError(f'{cls.qual}.diff vanished')
        mod = cls.module
        fq = f'{cls.name}.diff'
        oth = other_param(fn)
        # R1
        for n in walk_no_nested(fn):
            if isinstance(n, ast.Call) and call_name(n) in ('_dict_diff', '_dict_common') and len(n.args) >= 2:
                a_, b_ = n.args[0], n.args[1]
                ca, cb = attr_chain(a_), attr_chain(b_)
                rep.instance('R1', f'{fq}: {norm(n, 120)}')
                ok = ca and cb and ca[0] == 'self' and cb[0] == oth and ca[1:] == cb[1:]
                if not ok:
                    rep.violation('R1', loc(mod, n), fq, norm(n, 140),
                                  f'{call_name(n)} must compare self.<path> with {oth}.<same path>; with other arguments '
                                  f'additions/removals of that container are misreported or never reported')
        # R3 one-sided cases per container
        containers = set()
        for n in walk_no_nested(fn):
            if isinstance(n, ast.If):
                for sub in ast.walk(n.test):
                    ch = attr_chain(sub) if isinstance(sub, ast.Attribute) else None
                    if ch and len(ch) == 2 and ch[0] in ('self', oth) and ch[1].endswith('_info'):
                        containers.add(ch[1])
        for cont in sorted(containers):
            cases = {'both': None, 'only_other': None, 'only_self': None}
            for n in fn.body:
                if isinstance(n, ast.If):
                    t = ast.unparse(n.test)
                    if t == f'self.{cont} and {oth}.{cont}':
                        cases['both'] = n
                    elif t == f'not self.{cont} and {oth}.{cont}':
                        cases['only_other'] = n
                    elif t == f'self.{cont} and (not {oth}.{cont})':
                        cases['only_self'] = n
            rep.instance('R3', f'{fq}: container {cont}: cases {[k for k, v in cases.items() if v is not None]}')
            for k, v in cases.items():
                if v is None:
                    rep.violation('R3', loc(mod, fn), fq, f'{cont}: case {k} missing',
                                  f'{fq} has no branch for the case "{k}" of {cont}: elements that exist on one side '
                                  f'only are not reported')
            # direction
            if cases['only_other'] is not None:
                for s in cases['only_other'].body:
                    if isinstance(s, ast.Assign):
                        tn = ast.unparse(s.targets[0])
                        src = ast.unparse(s.value)
                        rep.instance('R3', f'{fq}: only-other: {norm(s, 100)}')
                        if 'added' not in tn or f'{oth}.{cont}' not in src:
                            rep.violation('R3', loc(mod, s), fq, norm(s, 120),
                                          'when only the other (new) sliver has the container its elements are *added* '
                                          'and come from the other sliver')
            if cases['only_self'] is not None:
                for s in cases['only_self'].body:
                    if isinstance(s, ast.Assign):
                        tn = ast.unparse(s.targets[0])
                        src = ast.unparse(s.value)
                        rep.instance('R3', f'{fq}: only-self: {norm(s, 100)}')
                        if 'removed' not in tn or f'self.{cont}' not in src:
                            rep.violation('R3', loc(mod, s), fq, norm(s, 120),
                                          'when only this (old) sliver has the container its elements are *removed* '
                                          'and come from this sliver')
            if cases['both'] is not None:
                for s in ast.walk(cases['both']):
                    if isinstance(s, ast.Assign) and isinstance(s.value, ast.Call) and call_name(s.value) == 'set' \
                            and s.value.args and isinstance(s.value.args[0], ast.Call):
                        inner = s.value.args[0]
                        if isinstance(inner.func, ast.Attribute) and isinstance(inner.func.value, ast.Subscript) \
                                and isinstance(inner.func.value.slice, ast.Constant):
                            key = inner.func.value.slice.value
                            tn = ast.unparse(s.targets[0])
                            rep.instance('R3', f'{fq}: both: {norm(s, 100)}')
                            if key not in ('added', 'removed') or key not in tn:
                                rep.violation('R3', loc(mod, s), fq, norm(s, 120),
                                              f'result key {key!r} is stored into {tn}: added/removed are crossed or the '
                                              f'key does not exist in _dict_diff')
        # the final TopologyDiff: added= gets *_added, removed= gets *_removed
        for n in walk_no_nested(fn):
            if isinstance(n, ast.Call) and isinstance(n.func, ast.Name) and n.func.id == 'TopologyDiff':
                for kw in n.keywords:
                    if kw.arg in ('added', 'removed') and isinstance(kw.value, ast.Call):
                        for k2 in kw.value.keywords:
                            v = ast.unparse(k2.value)
                            if v.endswith('_added') or v.endswith('_removed'):
                                rep.instance('R3', f'{fq}: TopologyDiff.{kw.arg}.{k2.arg} = {v}')
                                if not v.endswith('_' + kw.arg):
                                    rep.violation('R3', loc(mod, k2.value), fq, f'TopologyDiff.{kw.arg}.{k2.arg} = {v}',
                                                  f'the {kw.arg} tuple is filled from {v}')
        # R4 flag accumulation
        flag_vars = set()
        for n in walk_no_nested(fn):
            if isinstance(n, ast.Assign) and isinstance(n.value, ast.Call) and call_name(n.value) == 'prop_diff':
                for t in n.targets:
                    if isinstance(t, ast.Name):
                        flag_vars.add(t.id)
        for n in walk_no_nested(fn):
            if isinstance(n, ast.Assign):
                for t in n.targets:
                    if isinstance(t, ast.Name) and t.id in flag_vars and not \
                            (isinstance(n.value, ast.Call) and call_name(n.value) == 'prop_diff'):
                        rep.instance('R4', f'{fq}: {norm(n)}')
                        rep.violation('R4', loc(mod, n), fq, norm(n),
                                      f'the modification flags in {t.id} are overwritten instead of accumulated (|=): '
                                      f'flags already found for the element are lost when this branch also applies')
            if isinstance(n, ast.AugAssign) and isinstance(n.target, ast.Name) and n.target.id in flag_vars:
                rep.instance('R4', f'{fq}: {norm(n)}')
                if not isinstance(n.op, ast.BitOr):
                    rep.violation('R4', loc(mod, n), fq, norm(n), 'flags must be accumulated with |=')
                ch = attr_chain(n.value)
                if ch and ch[0] == 'WhatsModifiedFlag':
                    produced.add(ch[-1])

    # prop_diff
    pd = base.methods.get('prop_diff')
    if pd is None:
        raise AnalysisError('BaseSliver.prop_diff vanished')
    oth = other_param(pd)
    pairs = {'LABELS': 'get_labels', 'CAPACITIES': 'get_capacities', 'USER_DATA': 'get_user_data'}
    seen = {}
    for n in pd.body:
        if isinstance(n, ast.If) and isinstance(n.test, ast.Compare) and len(n.body) == 1 and \
                isinstance(n.body[0], ast.AugAssign):
            l, r = n.test.left, n.test.comparators[0]
            getter_l = call_name(l) if isinstance(l, ast.Call) else None
            getter_r = call_name(r) if isinstance(r, ast.Call) else None
            flag = attr_chain(n.body[0].value)
            fname = flag[-1] if flag else None
            rep.instance('R4', f'prop_diff: {norm(n.test)} -> {fname}')
            seen[fname] = (getter_l, getter_r)
            produced.add(fname)
            if not isinstance(n.test.ops[0], ast.NotEq) or not isinstance(n.body[0].op, ast.BitOr):
                rep.violation('R4', loc(base.module, n), 'BaseSliver.prop_diff', norm(n.test),
                              'each tracked property must be compared with != and its flag OR-ed in')
            recv_l = ast.unparse(l.func.value) if isinstance(l, ast.Call) and isinstance(l.func, ast.Attribute) else ''
            recv_r = ast.unparse(r.func.value) if isinstance(r, ast.Call) and isinstance(r.func, ast.Attribute) else ''
            if getter_l != getter_r or {recv_l, recv_r} != {'self', oth} or pairs.get(fname) != getter_l:
                rep.violation('R4', loc(base.module, n), 'BaseSliver.prop_diff', norm(n.test),
                              f'flag {fname} must be set from comparing self.{pairs.get(fname)}() with '
                              f'{oth}.{pairs.get(fname)}()')
    for f, g in pairs.items():
        if f not in seen:
            rep.violation('R4', loc(base.module, pd), 'BaseSliver.prop_diff', f'{f} not compared',
                          f'prop_diff no longer compares {g}() and sets {f}')

    # R2 value equality of the compared types
    for f, g in pairs.items():
        attr = g[4:]
        setter = base.methods.get('set_' + attr)
        types = []
        if setter is not None:
            for n in ast.walk(setter):
                if isinstance(n, ast.Call) and isinstance(n.func, ast.Name) and n.func.id == 'isinstance' and len(n.args) == 2:
                    types.append(ast.unparse(n.args[1]))
        if not types:
            raise AnalysisError(f'cannot resolve the type asserted by BaseSliver.set_{attr}')
        tcls = prog.resolve_class_expr(ast.parse(types[0], mode='eval').body, base.module)
        if tcls is None:
            raise AnalysisError(f'type {types[0]} of {attr} does not resolve')
        owner, eq = tcls.find_method('__eq__')
        rep.instance('R2', f'{attr}: {tcls.name}.__eq__ defined in {owner.name if owner else None}')
        if eq is None:
            rep.violation('R2', loc(tcls.module, tcls.node), tcls.name, f'{tcls.name} has no __eq__',
                          f'prop_diff compares {attr} values with != but {tcls.name} defines no __eq__: two equal-valued '
                          f'objects compare by identity and are reported as modified')
            continue
        # JSON blobs keep the caller's text: equality must be on the decoded value
        if any(c.simple == 'JSONData' for c in tcls.mro()):
            cmp_nodes = [n for n in ast.walk(eq) if isinstance(n, ast.Compare) and isinstance(n.ops[0], (ast.Eq, ast.NotEq))]
            on_value = any(ast.unparse(n.left) == 'self.data' and ast.unparse(n.comparators[0]).endswith('.data')
                           for n in cmp_nodes)
            rep.instance('R2', f'{tcls.name}.__eq__ compares {[norm(n) for n in cmp_nodes]}')
            if not on_value:
                rep.violation('R2', loc(owner.module, eq), f'{owner.name}.__eq__', 'does not compare decoded values',
                              f'{owner.name} stores the JSON text as supplied (string input is kept verbatim), so two '
                              f'blobs with the same value can differ in text; __eq__ must compare the decoded .data')

    # R5
    for m in members:
        rep.instance('R5', f'WhatsModifiedFlag.{m} produced: {m in produced}')
        if m not in produced:
            rep.violation('R5', loc(flag_cls.module, flag_cls.node), 'WhatsModifiedFlag', f'{m} never produced',
                          f'no diff implementation ever sets {m}')


NN = 'fim/slivers/network_node.py'
MUTANTS = [
    {'name': 'node-services-diff-both-other', 'file': NN, 'rule': 'R1',
     'find': 'diff_ns = self._dict_diff(self.network_service_info.network_services,',
     'replace': 'diff_ns = self._dict_diff(other_sliver.network_service_info.network_services,'},
    {'name': 'jsondata-eq-removed', 'file': 'fim/slivers/json_data.py', 'rule': 'R2',
     'find': '    def __eq__(self, other):\n        if not isinstance(other, self.__class__):\n            return False\n        return self.data == other.data\n\n    def __hash__(self):\n        return hash(json.dumps(self.data, sort_keys=True))\n\n',
     'replace': ''},
    {'name': 'interface-added-removed-crossed', 'file': 'fim/slivers/interface_info.py', 'rule': 'R3',
     'find': "            ifs_added = set(diff_comps['added'].values())\n            ifs_removed = set(diff_comps['removed'].values())",
     'replace': "            ifs_added = set(diff_comps['removed'].values())\n            ifs_removed = set(diff_comps['added'].values())"},
    {'name': 'service-one-sided-case-dropped', 'file': 'fim/slivers/network_service.py', 'rule': 'R3',
     'find': '        if not self.interface_info and other_sliver.interface_info:\n            ifs_added = set(other_sliver.interface_info.interfaces.values())\n\n',
     'replace': ''},
    {'name': 'dict-diff-added-from-first', 'file': 'fim/slivers/base_sliver.py', 'rule': 'R3',
     'find': "result = {'added': {k: dict_b[k] for k in set(dict_b) - set(dict_a)},", 'replace': "result = {'added': {k: dict_a[k] for k in set(dict_a) - set(dict_b)},"},
    {'name': 'prop-diff-capacities-vs-labels', 'file': 'fim/slivers/base_sliver.py', 'rule': 'R4',
     'find': 'if self.get_capacities() != other_sliver.get_capacities():', 'replace': 'if self.get_capacities() != other_sliver.get_labels():'},
    {'name': 'service-subif-flag-overwritten', 'file': 'fim/slivers/network_service.py', 'rule': 'R4',
     'find': '                    if iA.diff(iB):\n                        flag |= WhatsModifiedFlag.SUB_INTERFACES',
     'replace': '                    if iA.diff(iB):\n                        flag = WhatsModifiedFlag.SUB_INTERFACES'},
]
TWINS = [
    {'name': 'dict-common-via-local', 'file': NN,
     'find': '            ns_common = self._dict_common(self.network_service_info.network_services,\n                                          other_sliver.network_service_info.network_services)',
     'replace': '            ns_common = self._dict_common(self.network_service_info.network_services, other_sliver.network_service_info.network_services)'},
]
