"""
C17 -- sliver comparison reports exactly the differences between two slivers.

R1 mirrored arguments: every _dict_diff(A, B) / _dict_common(A, B) in a diff method has A rooted at self, B at the
   other sliver, with the same attribute path
R2 every type compared by prop_diff defines value equality (on decoded values for JSON blobs)
R3 per container the three one-sided cases exist with the right direction; result keys agree with _dict_diff
R4 modification flags are accumulated (|=), never overwritten; prop_diff pairs each flag with its getter
R5 every non-NONE WhatsModifiedFlag member is produced somewhere
"""
import ast

from ..core import AnalysisError, norm, loc, walk_no_nested, attr_chain, call_name, func_params, kwarg
from ..normalize import alpha, inline, local_env, expand, canon, ctext, branch_values, merge_outcomes, Unknown, eval_test, builders, comp_builder, _enclosing, conjuncts, unroll_const_loops
from .. import fieldwise as fw

BASE = 'fim.slivers.base_sliver:BaseSliver'
DIFF_CLASSES = ['fim.slivers.network_node:NodeSliver', 'fim.slivers.network_service:NetworkServiceSliver',
                'fim.slivers.interface_info:InterfaceSliver']
FLAG = 'fim.slivers.topology_diff:WhatsModifiedFlag'


def other_param(fn):
    ps = [a.arg for a in fn.args.args if a.arg != 'self']
    if not ps:
        raise AnalysisError(f'{fn.name}: no "other" parameter')
    return ps[0]


def run(prog, rep):
    rep.extra['explanation'] = (
        'The three diff implementations and the shared helpers are analysed for argument mirroring, case completeness, '
        'direction of added/removed, flag accumulation, and for value equality of the compared property types '
        '(resolved from getter -> attribute -> setter type -> __eq__). Exactness over all edit scripts is not decided.')
    rep.rule('R1', '_dict_diff/_dict_common compare self.<path> with other.<path>', floor=6)
    rep.rule('R2', 'types compared in prop_diff define value equality', floor=3)
    rep.rule('R3', 'one-sided cases present with correct direction; result keys agree', floor=9)
    rep.rule('R4', 'flags accumulated with |=; prop_diff pairs flag and getter', floor=5)
    rep.rule('R5', 'every non-NONE flag is produced', floor=4)

    base = prog.cls(BASE)
    # _dict_diff semantics
    dd = base.methods.get('_dict_diff')
    if dd is None:
        raise AnalysisError('BaseSliver._dict_diff vanished')
    keys = {}
    dd_env = local_env(dd)
    for n in ast.walk(dd):
        if isinstance(n, ast.Dict):
            for k, v in zip(n.keys, n.values):
                if isinstance(k, ast.Constant) and k.value in ('added', 'removed'):
                    keys[k.value] = ast.unparse(alpha(expand(v, dd_env)))
    rep.instance('R3', f'_dict_diff: added={keys.get("added", "?")[:60]} removed={keys.get("removed", "?")[:60]}')
    a, b = [x.arg for x in dd.args.args][:2]
    want_added = f'{{_c0: {b}[_c0] for _c0 in set({b}) - set({a})}}'
    want_removed = f'{{_c0: {a}[_c0] for _c0 in set({a}) - set({b})}}'
    if keys.get('added') != want_added or keys.get('removed') != want_removed:
        rep.violation('R3', loc(base.module, dd), 'BaseSliver._dict_diff', 'added/removed definition',
                      f'_dict_diff must define added = entries of the second dict whose key is not in the first and '
                      f'removed = entries of the first whose key is not in the second; found added={keys.get("added")} '
                      f'removed={keys.get("removed")}')
    dc = base.methods.get('_dict_common')
    dctxt = ast.unparse(dc)
    rep.instance('R3', '_dict_common: first-dict values for the common keys')

    flag_cls = prog.cls(FLAG)
    members = [m for m in prog.enum_members(flag_cls) if m != 'NONE']
    produced = set()

    for spec in DIFF_CLASSES:
        cls = prog.cls(spec)
        fn0 = cls.methods.get('diff')
        if fn0 is None:
            raise AnalysisError(f'{cls.qual}.diff vanished')
        fn = inline(prog, cls, fn0, exclude=('_dict_diff', '_dict_common'))
        mod = cls.module
        fq = f'{cls.name}.diff'
        oth = other_param(fn)
        # aliases (my_subs = self.interface_info) are expanded, computed values are not
        aenv = {k: v for k, v in local_env(fn).items() if isinstance(v, (ast.Name, ast.Attribute, ast.Subscript))}
        A = lambda e: expand(e, aenv)
        # R1
        for n in walk_no_nested(fn):
            if isinstance(n, ast.Call) and call_name(n) in ('_dict_diff', '_dict_common') and len(n.args) >= 2:
                a_, b_ = A(n.args[0]), A(n.args[1])
                ca, cb = attr_chain(a_), attr_chain(b_)
                rep.instance('R1', f'{fq}: {norm(n, 120)}')
                ok = ca and cb and ca[0] == 'self' and cb[0] == oth and ca[1:] == cb[1:]
                if not ok:
                    rep.violation('R1', loc(mod, n), fq, norm(n, 140),
                                  f'{call_name(n)} must compare self.<path> with {oth}.<same path>; with other arguments '
                                  f'additions/removals of that container are misreported or never reported')
        # every element the two slivers have in common is compared: the elements handed to prop_diff range over _dict_common(...)
        for n in walk_no_nested(fn):
            if isinstance(n, ast.Call) and call_name(n) == 'prop_diff' and isinstance(n.func.value, ast.Name) and n.func.value.id != 'self':
                var = n.func.value.id
                src = None
                for l in ast.walk(fn):
                    if isinstance(l, ast.For) and any(isinstance(x, ast.Name) and x.id == var for x in ast.walk(l.target)):
                        src = l.iter
                    if isinstance(l, ast.comprehension) and any(isinstance(x, ast.Name) and x.id == var for x in ast.walk(l.target)):
                        src = l.iter
                full = expand(src, local_env(fn)) if src is not None else None
                rep.instance('R1', f'{fq}: {var}.prop_diff(...) for {var} in {norm(src, 60) if src is not None else None}')
                if full is None or not any(isinstance(c, ast.Call) and call_name(c) == '_dict_common' for c in ast.walk(full)) or \
                        any(isinstance(c, ast.Call) and call_name(c) == '_dict_diff' for c in ast.walk(full)):
                    rep.violation('R1', loc(mod, n), fq, f'{var}.prop_diff(...) over {norm(src, 70) if src is not None else "?"}',
                                  f'the elements whose properties are compared do not range over all common elements (_dict_common of the two '
                                  f'containers): common elements that the pre-selection considers equal (sliver == compares name and id only) are '
                                  f'never compared, so a changed property of an existing element goes unreported')
        # ... and each common element (taken from this sliver) is compared with its counterpart in the OTHER sliver
        for n in walk_no_nested(fn):
            if isinstance(n, ast.Call) and call_name(n) in ('prop_diff', 'diff') and isinstance(n.func.value, ast.Name) and n.func.value.id != 'self' and \
                    len(n.args) == 1 and isinstance(n.args[0], ast.Name):
                var, arg = n.func.value.id, n.args[0].id
                loops_ = [l for l in ast.walk(fn) if isinstance(l, ast.For) and any(isinstance(x, ast.Name) and x.id == var for x in ast.walk(l.target)) and
                          any(x is n for x in ast.walk(l))]
                if not loops_:
                    continue
                defs_ = [a.value for a in ast.walk(loops_[-1]) if isinstance(a, ast.Assign) and any(isinstance(t, ast.Name) and t.id == arg for t in a.targets)]
                if not defs_:
                    continue
                for d_ in defs_:
                    d2 = A(d_)
                    roots = set()
                    for x in ast.walk(d2):
                        if isinstance(x, ast.Attribute):
                            ch_ = attr_chain(x)
                            if ch_ and ch_[0] in ('self', oth) and len(ch_) >= 2:
                                roots.add(ch_[0])
                    keyed = any(isinstance(x, ast.Name) and x.id == var for x in ast.walk(d2))
                    rep.instance('R1', f'{fq}: {var}.{call_name(n)}({arg}) with {arg} = {norm(d_, 70)}')
                    if roots != {oth} or not keyed:
                        rep.violation('R1', loc(mod, d_), fq, f'counterpart {arg} = {norm(d_, 80)}',
                                      f'the element `{var}` of this sliver must be compared with the element of the same key in `{oth}`; '
                                      f'`{arg}` is looked up in {sorted(roots) or "neither sliver"}' + ('' if keyed else f' and not by the key of `{var}`') +
                                      f': an element compared with itself never differs, so a changed sub-element is never reported')
        # R3 one-sided cases per result collection, from the path-sensitive evaluation of the method
        tds = [n for n in walk_no_nested(fn) if isinstance(n, ast.Call) and isinstance(n.func, ast.Name) and n.func.id == 'TopologyDiff']
        if not tds:
            raise AnalysisError(f'{fq}: TopologyDiff construction not found')
        result_vars = {}
        for kw in tds[0].keywords:
            if kw.arg in ('added', 'removed') and isinstance(kw.value, ast.Call):
                for k2 in kw.value.keywords:
                    if isinstance(k2.value, ast.Name):
                        result_vars[k2.value.id] = (kw.arg, k2.arg)
                        v = k2.value.id
                        rep.instance('R3', f'{fq}: TopologyDiff.{kw.arg}.{k2.arg} = {v}')

        # a result collection may be produced under another name and handed over by (tuple) assignment
        changed_ = True
        while changed_:
            changed_ = False
            for st in walk_no_nested(fn):
                if not isinstance(st, ast.Assign) or len(st.targets) != 1:
                    continue
                pairs_ = []
                t0, v0 = st.targets[0], st.value
                if isinstance(t0, ast.Name) and isinstance(v0, ast.Name):
                    pairs_.append((t0.id, v0.id))
                elif isinstance(t0, ast.Tuple) and isinstance(v0, ast.Tuple) and len(t0.elts) == len(v0.elts):
                    pairs_ += [(a_.id, b_.id) for a_, b_ in zip(t0.elts, v0.elts) if isinstance(a_, ast.Name) and isinstance(b_, ast.Name)]
                for tn, vn in pairs_:
                    if tn in result_vars and vn not in result_vars:
                        result_vars[vn] = result_vars[tn]
                        result_vars.pop(tn)
                        changed_ = True

        class _O:
            def __init__(self, stmt, value, nodes, target):
                self.stmt, self.value, self.cond_nodes, self.target = stmt, value, nodes, target
        by_var = {}
        for st in walk_no_nested(fn):
            if isinstance(st, ast.Assign) and len(st.targets) == 1 and isinstance(st.targets[0], ast.Name) and st.targets[0].id in result_vars:
                v = st.value
                if isinstance(v, ast.Call) and isinstance(v.func, ast.Name) and v.func.id in ('set', 'list') and not v.args:
                    continue        # initialisation
                _, conds_ = _enclosing(st, fn)
                by_var.setdefault(st.targets[0].id, []).append(_O(st, v, list(conds_), st.targets[0]))
        for var, (kind, slot) in sorted(result_vars.items()):
            outs_ = by_var.get(var, [])
            cases = {}
            cont = None
            for o in outs_:
                val = A(expand(o.value, local_env(fn)))
                conts = {ch[1] for x in ast.walk(val) if isinstance(x, ast.Attribute) for ch in [attr_chain(x)] if ch and len(ch) >= 2 and ch[0] in ('self', oth)
                         and ch[1].endswith('_info')}
                if len(conts) != 1:
                    continue
                cont = next(iter(conts))
                sa, sb = f'self.{cont}', f'{oth}.{cont}'
                possible = []
                for ta in (True, False):
                    for tb in (True, False):
                        try:
                            if all(eval_test(canon(A(n_)), {sa: ta, sb: tb}) for n_ in o.cond_nodes
                                   if any(isinstance(x, ast.Attribute) and (attr_chain(x) or [None, None])[:2] in (['self', cont], [oth, cont]) for x in ast.walk(A(n_)))):
                                possible.append((ta, tb))
                        except Unknown:
                            possible.append((ta, tb))
                case = {((True, True),): 'both', ((False, True),): 'only_other', ((True, False),): 'only_self'}.get(tuple(possible))
                cases.setdefault(case, []).append((o, val))
            rep.instance('R3', f'{fq}: {var} ({kind} {slot}) of container {cont}: cases {sorted(str(k) for k in cases)}')
            need = {'both', 'only_other'} if kind == 'added' else {'both', 'only_self'}
            for k in sorted(need - set(cases)):
                rep.violation('R3', loc(mod, fn0), fq, f'{cont}: case {k} missing',
                              f'{fq} has no branch for the case "{k}" of {cont}: elements that exist on one side '
                              f'only are not reported')
            for case, lst in cases.items():
                for o, val in lst:
                    full = expand(o.value, local_env(fn))
                    keys_ = [x.slice.value for x in ast.walk(full) if isinstance(x, ast.Subscript) and isinstance(x.slice, ast.Constant) and
                             x.slice.value in ('added', 'removed', 'value_diffs')]
                    if case == 'both':
                        rep.instance('R3', f'{fq}: both: {var} = {norm(o.value, 80)}')
                        if keys_ != [kind]:
                            rep.violation('R3', loc(mod, o.stmt), fq, norm(o.stmt, 120),
                                          f'result key {keys_} is stored into {var}: added/removed are crossed or the '
                                          f'key does not exist in _dict_diff')
                    elif case == 'only_other':
                        rep.instance('R3', f'{fq}: only-other: {norm(o.stmt, 100)}')
                        if kind != 'added' or f'{oth}.{cont}' not in ast.unparse(val):
                            rep.violation('R3', loc(mod, o.stmt), fq, norm(o.stmt, 120),
                                          'when only the other (new) sliver has the container its elements are *added* '
                                          'and come from the other sliver')
                    elif case == 'only_self':
                        rep.instance('R3', f'{fq}: only-self: {norm(o.stmt, 100)}')
                        if kind != 'removed' or f'self.{cont}' not in ast.unparse(val):
                            rep.violation('R3', loc(mod, o.stmt), fq, norm(o.stmt, 120),
                                          'when only this (old) sliver has the container its elements are *removed* '
                                          'and come from this sliver')
        for kw in tds[0].keywords:
            if kw.arg in ('added', 'removed') and isinstance(kw.value, ast.Call):
                for k2 in kw.value.keywords:
                    v = ast.unparse(k2.value)
                    if (v.endswith('_added') or v.endswith('_removed')) and not v.endswith('_' + kw.arg):
                        rep.violation('R3', loc(mod, k2.value), fq, f'TopologyDiff.{kw.arg}.{k2.arg} = {v}',
                                      f'the {kw.arg} tuple is filled from {v}')
        # R4 flag accumulation
        flag_vars = set()
        for n in walk_no_nested(fn):
            if isinstance(n, ast.Assign) and isinstance(n.value, ast.Call) and call_name(n.value) == 'prop_diff':
                for t in n.targets:
                    if isinstance(t, ast.Name):
                        flag_vars.add(t.id)
        def first_in_iteration(n, name):
            """is the assignment ``n`` the first binding of ``name`` within its innermost loop body (or the function)?"""
            scope = n
            while getattr(scope, '_parent', None) is not None and not isinstance(scope._parent, (ast.For, ast.While, ast.FunctionDef)):
                scope = scope._parent
            owner = getattr(scope, '_parent', None)
            if owner is None:
                return True
            for x in ast.walk(owner):
                if x is n:
                    continue
                tg = x.targets if isinstance(x, ast.Assign) else ([x.target] if isinstance(x, ast.AugAssign) else [])
                if any(isinstance(t_, ast.Name) and t_.id == name for t_ in tg) and (x.lineno, x.col_offset) < (n.lineno, n.col_offset) and \
                        getattr(x, '_src_fn', None) == getattr(n, '_src_fn', None):
                    return False
            return True
        for n in walk_no_nested(fn):
            if isinstance(n, ast.Assign):
                for t in n.targets:
                    if isinstance(t, ast.Name) and t.id in flag_vars and not \
                            (isinstance(n.value, ast.Call) and call_name(n.value) == 'prop_diff') and not first_in_iteration(n, t.id):
                        rep.instance('R4', f'{fq}: {norm(n)}')
                        rep.violation('R4', loc(mod, n), fq, norm(n),
                                      f'the modification flags in {t.id} are overwritten instead of accumulated (|=): '
                                      f'flags already found for the element are lost when this branch also applies')
            if isinstance(n, ast.AugAssign) and isinstance(n.target, ast.Name) and n.target.id in flag_vars:
                rep.instance('R4', f'{fq}: {norm(n)}')
                if not isinstance(n.op, ast.BitOr):
                    rep.violation('R4', loc(mod, n), fq, norm(n), 'flags must be accumulated with |=')
                ch = attr_chain(n.value)
                if ch and ch[0] == 'WhatsModifiedFlag':
                    produced.add(ch[-1])

    # R7: "nothing changed" is decided on every collection that goes into the result
    rep.rule('R7', 'the test that decides between a diff and None looks at every collection the diff is built from', floor=3)
    for spec in DIFF_CLASSES:
        cls = prog.cls(spec)
        fn = inline(prog, cls, cls.methods['diff'], exclude=('_dict_diff', '_dict_common'))
        fenv7 = local_env(fn)
        for r_ in [x for x in walk_no_nested(fn) if isinstance(x, ast.Return) and x.value is not None and
                   any(isinstance(c_, ast.Call) and call_name(c_) == 'TopologyDiff' for c_ in ast.walk(x.value))]:
            parts = set()
            ifexp_tests = []
            tdc = [c_ for c_ in ast.walk(r_.value) if isinstance(c_, ast.Call) and call_name(c_) == 'TopologyDiff'][0]
            p_ = getattr(tdc, '_parent', None)
            while p_ is not None and p_ is not r_:
                if isinstance(p_, ast.IfExp):
                    ifexp_tests.append(p_.test)
                p_ = getattr(p_, '_parent', None)
            for c_ in ast.walk(tdc):
                if isinstance(c_, ast.Call) and call_name(c_) in ('TopologyDiffTuple', 'TopologyDiffModifiedTuple'):
                    for a_ in list(c_.args) + [k.value for k in c_.keywords]:
                        ae = a_
                        if isinstance(ae, ast.Name):
                            parts.add(ae.id)
            _, conds_ = _enclosing(r_, fn)
            conds_ = list(conds_) + ifexp_tests
            tested = set()
            for c_ in conds_:
                for x in ast.walk(expand(c_, {k: v for k, v in fenv7.items() if k not in parts})):
                    if isinstance(x, ast.Name):
                        tested.add(x.id)
            rep.instance('R7', f'{cls.name}.diff: result built from {sorted(parts)}; decision looks at {sorted(tested & parts)}')
            if not conds_:
                continue        # unconditional: a (possibly empty) diff is always returned
            for nm in sorted(parts - tested):
                rep.violation('R7', loc(cls.module, r_), f'{cls.name}.diff', f'`{nm}` is not looked at when deciding whether anything changed',
                              f'the diff is built from `{nm}` (among others), but the condition that chooses between returning a diff and '
                              f'returning None never looks at it: when `{nm}` is the only non-empty part, diff() answers None - "no difference" - '
                              f'for two slivers that differ')

    # R8: the services a node owns are compared like the services a component owns: by structure, not only by properties
    rep.rule('R8', 'services present on both sides of a node comparison are compared by their interfaces too, not only by their properties', floor=1)
    ncls = prog.cls('fim.slivers.network_node:NodeSliver')
    from ..normalize import loopify
    nfn = loopify(inline(prog, ncls, ncls.methods['diff'], exclude=('_dict_diff', '_dict_common')))
    nenv = local_env(nfn)
    svc_loops = [l for l in walk_no_nested(nfn) if isinstance(l, ast.For) and
                 any(isinstance(x, ast.Attribute) and x.attr == 'network_services' for x in ast.walk(expand(l.iter, nenv))) and
                 any(isinstance(c, ast.Call) and call_name(c) == 'prop_diff' for c in ast.walk(l)) and
                 not any(isinstance(x, ast.Attribute) and x.attr in ('devices', 'attached_components_info') for x in ast.walk(expand(l.iter, nenv)))]
    if not svc_loops:
        raise AnalysisError('NodeSliver.diff: comparison of the services present on both sides not found')
    for l in svc_loops:
        deep = any(isinstance(c, ast.Call) and call_name(c) == 'diff' for c in ast.walk(l)) or \
            any(isinstance(x, ast.Attribute) and x.attr == 'interface_info' for x in ast.walk(l))
        rep.instance('R8', f'NodeSliver.diff: common node-level services: interfaces compared as well: {deep}')
        if not deep:
            rep.violation('R8', loc(ncls.module, l), 'NodeSliver.diff', 'common node-level services compared by prop_diff only',
                          'a service the node owns on both sides (the service of a switch or of a facility) is compared by its properties only: '
                          'a port or sub-interface added to it, removed from it or changed under it is not reported at all - diff() answers None '
                          'in both directions - while the same edit under a component service is reported as SUB_INTERFACES')

    # R6: the SUB_INTERFACES flag
    rep.rule('R6', 'SUB_INTERFACES is raised for exactly the elements that can have sub-interfaces, and only for changes of sub-interfaces', floor=2)
    from .c18 import interface_kind_dispatch
    disp = interface_kind_dispatch(prog)
    can_have_children = {t for t, k in disp.items() if k == 'DedicatedPort'}
    for spec in DIFF_CLASSES:
        cls = prog.cls(spec)
        fn = inline(prog, cls, cls.methods['diff'], exclude=('_dict_diff', '_dict_common'))
        fenv6 = local_env(fn)
        for st in walk_no_nested(fn):
            if not (isinstance(st, ast.AugAssign) and isinstance(st.op, ast.BitOr) and (attr_chain(st.value) or [None])[-1] == 'SUB_INTERFACES'):
                continue
            _, conds_ = _enclosing(st, fn)
            cjs = [cj for c_ in conds_ for cj in conjuncts(canon(c_))]
            # (a) which component types are looked into (node level)
            types_ = set()
            for cj in cjs:
                if isinstance(cj, ast.Compare) and len(cj.ops) == 1 and any(isinstance(x, ast.Call) and call_name(x) == 'get_type' for x in ast.walk(cj)):
                    for x in ast.walk(cj):
                        ch_ = attr_chain(x) if isinstance(x, ast.Attribute) else None
                        if ch_ and ch_[0] == 'ComponentType':
                            types_.add(ch_[-1])
            if types_:
                rep.instance('R6', f'{cls.name}.diff: sub-interfaces compared for component types {sorted(types_)}; types with dedicated ports {sorted(can_have_children)}')
                if types_ != can_have_children:
                    rep.violation('R6', loc(cls.module, st), f'{cls.name}.diff', f'sub-interfaces compared for {sorted(types_)} only',
                                  f'components of type {sorted(can_have_children - types_)} have dedicated ports, which accept sub-interfaces, but their '
                                  f'sub-interfaces are never compared: adding, changing or removing one is not reported')
            # (b) the nested comparison that raises the flag looks at the interface collections of its result, not at "anything differs"
            looks_inside = any(isinstance(x, ast.Attribute) and x.attr == 'interfaces' for cj in cjs for x in ast.walk(cj))
            for cj in cjs:
                e_ = expand(cj, fenv6)
                if isinstance(e_, ast.Call) and call_name(e_) == 'diff':
                    rep.instance('R6', f'{cls.name}.diff: SUB_INTERFACES raised when `{norm(cj, 60)}`; the interface collections of that diff are inspected: {looks_inside}')
                    if looks_inside:
                        # ... and at all three of them: a sub-interface can be added, removed or changed
                        kinds = {x.value.attr for cj2 in cjs for x in ast.walk(cj2) if isinstance(x, ast.Attribute) and x.attr == 'interfaces' and
                                 isinstance(x.value, ast.Attribute) and x.value.attr in ('added', 'removed', 'modified')}
                        # (a level that passes the flag of its modified children on is not an inspection of sub-interfaces itself)
                        passes_on = any(isinstance(x, ast.Attribute) and x.attr == 'SUB_INTERFACES' for cj2 in cjs for x in ast.walk(cj2))
                        if kinds and kinds != {'added', 'removed', 'modified'} and not passes_on:
                            rep.violation('R6', loc(cls.module, st), f'{cls.name}.diff',
                                          f'SUB_INTERFACES looks at {sorted(kinds)} sub-interfaces only',
                                          f'the flag is raised from the {sorted(kinds)} collections of the nested diff only: a sub-interface that was '
                                          f'{sorted({"added", "removed", "modified"} - kinds)} under a dedicated port is not reported at all')
                        continue
                    rep.violation('R6', loc(cls.module, st), f'{cls.name}.diff', f'SUB_INTERFACES raised whenever `{norm(e_, 50)}` reports anything',
                                  f'the flag is raised when the nested diff is non-empty; that diff is also non-empty when only the element\'s own labels, '
                                  f'capacities or user data changed, so a port whose labels changed is reported as LABELS|SUB_INTERFACES although no '
                                  f'sub-interface changed')
    # prop_diff
    pd = base.methods.get('prop_diff')
    if pd is None:
        raise AnalysisError('BaseSliver.prop_diff vanished')
    oth = other_param(pd)
    pairs = {'LABELS': 'get_labels', 'CAPACITIES': 'get_capacities', 'USER_DATA': 'get_user_data'}
    seen = {}
    # a class-level table of (reader, flag) rows is read row by row
    pdi = unroll_const_loops(prog, base, inline(prog, base, pd))
    penv = local_env(pdi)

    def getter_of(e, var=None, table=None):
        """(receiver, getter name) of  <recv>.get_x()  or  getattr(<recv>, <name>)()"""
        if isinstance(e, ast.Call) and isinstance(e.func, ast.Attribute) and isinstance(e.func.value, ast.Name) and not e.args:
            return e.func.value.id, e.func.attr
        # <recv>.get_property(<name>) dispatches to get_<name>
        if isinstance(e, ast.Call) and isinstance(e.func, ast.Attribute) and e.func.attr == 'get_property' and isinstance(e.func.value, ast.Name) and len(e.args) == 1:
            nm = e.args[0]
            if isinstance(nm, ast.Constant) and isinstance(nm.value, str):
                return e.func.value.id, 'get_' + nm.value
            if isinstance(nm, ast.Name):
                return e.func.value.id, ('$', nm.id, 'get_')
        if isinstance(e, ast.Call) and isinstance(e.func, ast.Call) and isinstance(e.func.func, ast.Name) and e.func.func.id == 'getattr' and \
                len(e.func.args) == 2 and isinstance(e.func.args[0], ast.Name):
            nm = e.func.args[1]
            if isinstance(nm, ast.Constant):
                return e.func.args[0].id, nm.value
            if isinstance(nm, ast.Name):
                return e.func.args[0].id, ('$', nm.id)
        return None, None
    for n in ast.walk(pdi):
        if not (isinstance(n, ast.If) and isinstance(n.test, ast.Compare) and len(n.test.ops) == 1 and n.body and isinstance(n.body[0], ast.AugAssign)):
            continue
        l, r = n.test.left, n.test.comparators[0]
        (recv_l, getter_l), (recv_r, getter_r) = getter_of(l), getter_of(r)
        if getter_l is None or getter_r is None:
            continue
        flag_expr = n.body[0].value
        rows = []
        if isinstance(getter_l, tuple):
            # table driven: for <getter name>, <flag> in <constant table>
            loop = n
            while loop is not None and not isinstance(loop, ast.For):
                loop = getattr(loop, '_parent', None)
            if loop is None or not isinstance(loop.target, ast.Tuple):
                raise AnalysisError('prop_diff: table-driven comparison without a recognisable table loop')
            names = [e.id for e in loop.target.elts if isinstance(e, ast.Name)]
            try:
                table = prog.const_eval(loop.iter, base.module, base)
            except Exception:
                raise AnalysisError('prop_diff: comparison table is not a constant')
            gi = names.index(getter_l[1])
            fi = names.index(flag_expr.id) if isinstance(flag_expr, ast.Name) and flag_expr.id in names else None
            if fi is None or getter_l != getter_r:
                rep.violation('R4', loc(base.module, n), 'BaseSliver.prop_diff', norm(n.test), 'the table-driven comparison does not pair getter and flag')
                continue
            pref = getter_l[2] if len(getter_l) > 2 else ''
            for row in table:
                rows.append((pref + row[gi], getattr(row[fi], 'name', str(row[fi])), pref + row[gi]))
        else:
            ch = attr_chain(flag_expr)
            rows.append((getter_l, ch[-1] if ch else None, getter_r))
        for g_l, fname, g_r in rows:
            rep.instance('R4', f'prop_diff: self.{g_l}() != {oth}.{g_r}() -> {fname}')
            seen[fname] = (g_l, g_r)
            produced.add(fname)
            if not isinstance(n.test.ops[0], ast.NotEq) or not isinstance(n.body[0].op, ast.BitOr):
                rep.violation('R4', loc(base.module, n), 'BaseSliver.prop_diff', norm(n.test),
                              'each tracked property must be compared with != and its flag OR-ed in')
            if g_l != g_r or {recv_l, recv_r} != {'self', oth} or pairs.get(fname) != g_l:
                rep.violation('R4', loc(base.module, n), 'BaseSliver.prop_diff', norm(n.test),
                              f'flag {fname} must be set from comparing self.{pairs.get(fname)}() with '
                              f'{oth}.{pairs.get(fname)}()')
    for f, g in pairs.items():
        if f not in seen:
            rep.violation('R4', loc(base.module, pd), 'BaseSliver.prop_diff', f'{f} not compared',
                          f'prop_diff no longer compares {g}() and sets {f}')

    # R2 value equality of the compared types
    for f, g in pairs.items():
        attr = g[4:]
        setter = base.methods.get('set_' + attr)
        types = []
        if setter is not None:
            for n in ast.walk(setter):
                if isinstance(n, ast.Call) and isinstance(n.func, ast.Name) and n.func.id == 'isinstance' and len(n.args) == 2:
                    types.append(ast.unparse(n.args[1]))
        if not types:
            raise AnalysisError(f'cannot resolve the type asserted by BaseSliver.set_{attr}')
        tcls = prog.resolve_class_expr(ast.parse(types[0], mode='eval').body, base.module)
        if tcls is None:
            raise AnalysisError(f'type {types[0]} of {attr} does not resolve')
        owner, eq = tcls.find_method('__eq__')
        rep.instance('R2', f'{attr}: {tcls.name}.__eq__ defined in {owner.name if owner else None}')
        if eq is None:
            rep.violation('R2', loc(tcls.module, tcls.node), tcls.name, f'{tcls.name} has no __eq__',
                          f'prop_diff compares {attr} values with != but {tcls.name} defines no __eq__: two equal-valued '
                          f'objects compare by identity and are reported as modified')
            continue
        # field containers (Labels, Capacities ...): equality ranges over every field of the left value, so that it is symmetric
        if any(c.simple == 'JSONField' for c in tcls.mro()):
            try:
                g_, viol_, node_, env_ = fw.forall_form(prog, owner, eq)
                got = fw.norm_expr(viol_, g_, env_)
                okf = g_.owner == 'self' and got in ('SELF_f != dflt(OTHER_f, None)', 'SELF_f != dflt(OTHER_f, 0)', 'SELF_f != OTHER_f', 'OTHER_f != SELF_f',
                                                    'dflt(OTHER_f, None) != SELF_f', 'dflt(OTHER_f, 0) != SELF_f')
                rep.instance('R2', f'{tcls.name}.__eq__: unequal iff some field of {g_.owner} has {got}')
            except fw.NotFieldwise as e:
                okf = False
                rep.instance('R2', f'{tcls.name}.__eq__: not field-wise ({e})')
            if not okf:
                rep.violation('R2', loc(owner.module, eq), f'{owner.name}.__eq__', 'equality does not range over all fields of the value',
                              f'{owner.name}.__eq__ must return False iff some field of the left value differs from the same field of the right '
                              f'value, over all fields: ranging over a subset (e.g. only the fields that are set on the left) makes a == b '
                              f'true while b == a is false, and prop_diff then reports a change in one direction only')
        # JSON blobs keep the caller's text: equality must be on the decoded value
        if any(c.simple == 'JSONData' for c in tcls.mro()):
            cmp_nodes = [n for n in ast.walk(eq) if isinstance(n, ast.Compare) and isinstance(n.ops[0], (ast.Eq, ast.NotEq))]
            on_value = any(ast.unparse(n.left) == 'self.data' and ast.unparse(n.comparators[0]).endswith('.data')
                           for n in cmp_nodes)
            rep.instance('R2', f'{tcls.name}.__eq__ compares {[norm(n) for n in cmp_nodes]}')
            if not on_value:
                rep.violation('R2', loc(owner.module, eq), f'{owner.name}.__eq__', 'does not compare decoded values',
                              f'{owner.name} stores the JSON text as supplied (string input is kept verbatim), so two '
                              f'blobs with the same value can differ in text; __eq__ must compare the decoded .data')

    # R5
    for m in members:
        rep.instance('R5', f'WhatsModifiedFlag.{m} produced: {m in produced}')
        if m not in produced:
            rep.violation('R5', loc(flag_cls.module, flag_cls.node), 'WhatsModifiedFlag', f'{m} never produced',
                          f'no diff implementation ever sets {m}')


NN = 'fim/slivers/network_node.py'
MUTANTS = [
    {'name': 'fpga-sub-interfaces-not-compared', 'file': 'fim/slivers/network_node.py', 'rule': 'R6',
     'find': 'if cA.get_type() in (ComponentType.SmartNIC, ComponentType.FPGA) and \\\n', 'replace': 'if cA.get_type() == ComponentType.SmartNIC and \\\n'},
    {'name': 'modified-sub-interfaces-not-flagged', 'file': 'fim/slivers/network_service.py', 'rule': 'R6',
     'find': 'if if_diff and (if_diff.added.interfaces or if_diff.removed.interfaces or if_diff.modified.interfaces):', 'replace': 'if if_diff and (if_diff.added.interfaces or if_diff.removed.interfaces):'},
    {'name': 'sub-interfaces-flag-on-any-difference', 'file': 'fim/slivers/network_service.py', 'rule': 'R6',
     'find': 'if if_diff and (if_diff.added.interfaces or if_diff.removed.interfaces or if_diff.modified.interfaces):', 'replace': 'if if_diff:'},
    {'name': 'node-services-diff-both-other', 'file': NN, 'rule': 'R1',
     'find': 'diff_ns = self._dict_diff(self.network_service_info.network_services,',
     'replace': 'diff_ns = self._dict_diff(other_sliver.network_service_info.network_services,'},
    {'name': 'jsondata-eq-removed', 'file': 'fim/slivers/json_data.py', 'rule': 'R2',
     'find': '    def __eq__(self, other):\n        if not isinstance(other, self.__class__):\n            return False\n        return self.data == other.data\n\n    def __hash__(self):\n        return hash(json.dumps(self.data, sort_keys=True))\n\n',
     'replace': ''},
    {'name': 'interface-added-removed-crossed', 'file': 'fim/slivers/interface_info.py', 'rule': 'R3',
     'find': "            ifs_added = set(diff_comps['added'].values())\n            ifs_removed = set(diff_comps['removed'].values())",
     'replace': "            ifs_added = set(diff_comps['removed'].values())\n            ifs_removed = set(diff_comps['added'].values())"},
    {'name': 'service-one-sided-case-dropped', 'file': 'fim/slivers/network_service.py', 'rule': 'R3',
     'find': '        if not self.interface_info and other_sliver.interface_info:\n            ifs_added = set(other_sliver.interface_info.interfaces.values())\n\n',
     'replace': ''},
    {'name': 'dict-diff-added-from-first', 'file': 'fim/slivers/base_sliver.py', 'rule': 'R3',
     'find': "result = {'added': {k: dict_b[k] for k in set(dict_b) - set(dict_a)},", 'replace': "result = {'added': {k: dict_a[k] for k in set(dict_a) - set(dict_b)},"},
    {'name': 'prop-diff-capacities-vs-labels', 'file': 'fim/slivers/base_sliver.py', 'rule': 'R4',
     'find': 'if self.get_capacities() != other_sliver.get_capacities():', 'replace': 'if self.get_capacities() != other_sliver.get_labels():'},
    {'name': 'service-subif-flag-overwritten', 'file': 'fim/slivers/network_service.py', 'rule': 'R4',
     'find': 'if_diff.modified.interfaces):\n                        flag |= WhatsModifiedFlag.SUB_INTERFACES',
     'replace': 'if_diff.modified.interfaces):\n                        flag = WhatsModifiedFlag.SUB_INTERFACES'},
]
TWINS = [
    {'name': 'dict-common-via-local', 'file': NN,
     'find': '            ns_common = self._dict_common(self.network_service_info.network_services,\n                                          other_sliver.network_service_info.network_services)',
     'replace': '            ns_common = self._dict_common(self.network_service_info.network_services, other_sliver.network_service_info.network_services)'},
]
