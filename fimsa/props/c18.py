"""
C18 -- instance sizing is sufficient; the size's name and capacities agree; components match the catalogue.

D1 data lints over the two catalogue files (analysed as source)
R1 sufficiency predicate is the conjunction core/ram/disk >=
R2 selection: first of an ordered candidate list (or, without an ordering step, the exact first-fit lint on the data);
   fallback returns the last key
R3 generate_component: caller-supplied ids/labels applied independently under one index advanced once per iteration;
   interface kind and speed from the matched row; model/type/details copied from the row
R4 the combined type-model enumeration has one distinct member per catalogue entry
Minimality of the chosen size when an ordering step is present is NOT decided (list.sort under a partial order).
"""
import ast

from ..normalize import inline, local_env, expand, canon, ctext, conjuncts, branch_values, merge_outcomes, Unknown, builders, comp_builder, _enclosing, eval_test, value_under, bool_implies, bool_literals
from ..cfg import CFG
from .. import flow
from ..core import kwarg
import re

from ..core import AnalysisError, norm, loc, walk_no_nested, attr_chain, call_name

ICAT = 'fim.slivers.instance_catalog:InstanceCatalog'
CCAT = 'fim.slivers.component_catalog:ComponentCatalog'
SIZES = 'fim/slivers/data/instance_sizes.json'
COMPS = 'fim/slivers/data/component_catalog.json'


def interface_kind_dispatch(prog):
    """{component type name: interface type name} as generate_component assigns them (shared with C07: every generated
    interface gets a type of the published vocabulary)."""
    ccat = prog.cls(CCAT)
    cmod = ccat.module
    gc = ccat.methods.get('generate_component')
    if gc is None:
        raise AnalysisError('generate_component vanished')
    # interface kind dispatch covers the catalogue types that have interfaces: the argument of set_type on the generated
    # interfaces, evaluated under the assumption "the component is of type T" (if/elif chains, tables, temporaries alike)
    disp = {}
    gci = inline(prog, ccat, gc, exclude=('__read_catalog',))
    genv_ = {k_: v_ for k_, v_ in local_env(gci).items() if isinstance(v_, (ast.Name, ast.Attribute, ast.Subscript)) or
             (isinstance(v_, ast.Call) and call_name(v_) in ('get_type',))}
    fold_c = lambda e_: prog.const_eval(e_, cmod, ccat)
    type_exprs = sorted({ctext(x) for x in ast.walk(gci) if isinstance(x, ast.Call) and call_name(x) == 'get_type' and not x.args})
    ctypes = prog.enum_members('fim.slivers.attached_components:ComponentType')
    full_env_ = local_env(gci)
    iloops = [n for n in walk_no_nested(gci) if isinstance(n, ast.For) and
              any(isinstance(x, ast.Subscript) and isinstance(x.slice, ast.Constant) and x.slice.value == 'Interfaces' for x in ast.walk(expand(n.iter, full_env_)))]
    st_calls = [c for l_ in iloops for c in ast.walk(l_) if isinstance(c, ast.Call) and call_name(c) == 'set_type' and c.args]
    for T in ctypes:
        bind = {te: prog.const_eval(ast.parse(f'ComponentType.{T}', mode='eval').body, cmod, ccat) for te in type_exprs}
        kinds = set()
        for c in st_calls:
            _, conds_ = _enclosing(c, gci)
            try:
                holds = True
                for n_ in conds_:
                    n2 = canon(expand(n_, genv_))
                    names_ = [x for x in ast.walk(n2) if isinstance(x, ast.Name)]
                    if any(ctext(x) in bind for x in ast.walk(n2)):
                        if not eval_test(n2, bind, fold_c):
                            holds = False
                            break
                    elif isinstance(n2, ast.Compare) and isinstance(n2.left, ast.Name) and isinstance(n2.ops[0], (ast.Is, ast.IsNot)):
                        # `port_type is not None` on a temporary: evaluate the temporary under the assumption
                        try:
                            v_ = value_under(n2.left, bind, fold_c, genv_, gci)
                            if (v_ is None) != isinstance(n2.ops[0], ast.Is):
                                holds = False
                                break
                        except Unknown:
                            pass
                    else:
                        # a test on temporaries that were themselves chosen by the component type (the service type, a suffix):
                        # evaluate them under the assumption, then the test
                        bind2 = dict(bind)
                        known = True
                        assigned_ = {t_.id for a_ in ast.walk(gci) if isinstance(a_, ast.Assign) for t_ in a_.targets if isinstance(t_, ast.Name)}
                        names_ = [x for x in names_ if x.id in assigned_]
                        for x in names_:
                            if x.id in bind2:
                                continue
                            try:
                                bind2[x.id] = value_under(x, bind, fold_c, genv_, gci)
                            except Unknown:
                                known = False
                        if known and names_:
                            try:
                                if not eval_test(n2, bind2, fold_c):
                                    holds = False
                                    break
                            except Unknown:
                                pass
                if not holds:
                    continue
                v = value_under(c.args[0], bind, fold_c, genv_, gci)
                if v is not None:
                    kinds.add(getattr(v, 'name', str(v)))
            except Unknown:
                kinds.add('?')
        if kinds:
            disp[T] = sorted(kinds)[0] if len(kinds) == 1 else '|'.join(sorted(kinds))
    return disp


def _ancestors18(node, fn):
    out = []
    p = getattr(node, '_parent', None)
    while p is not None and p is not fn:
        out.append(p)
        p = getattr(p, '_parent', None)
    return out


def run(prog, rep):
    rep.extra['explanation'] = (
        'The quantifier is over configurations, so the two catalogue files are analysed as source: every entry is '
        'linted (name encodes capacities, no duplicates, last entry dominates, types in the enum, unique generated '
        'names). The code is checked for the shape of the sufficiency filter, the ordering step and fallback of the '
        'selection, and the index/guard discipline and row-copying of generate_component. If the ordering step is '
        'absent the exact first-fit minimality condition is evaluated on the data. Minimality under list.sort with the '
        'partial order is not decided.')
    rep.rule('D1', 'catalogue data lints', floor=20)
    rep.rule('R1', 'candidate filter is the conjunction x.f >= cap.f over core, ram, disk', floor=1)
    rep.rule('R2', 'selection takes the first of an ordered candidate list; empty case returns the last key', floor=2)
    rep.rule('R3', 'generate_component index/guard discipline and row copying', floor=8)
    rep.rule('R4', 'type-model enumeration covers the catalogue one-to-one', floor=13)

    sizes = prog.data_file(SIZES)
    if not isinstance(sizes, dict) or not sizes:
        raise AnalysisError(f'{SIZES} is not a non-empty object')
    names = list(sizes.keys())
    seen_caps = {}
    maxima = {'core': 0, 'ram': 0, 'disk': 0}
    for name, caps in sizes.items():
        rep.instance('D1', f'{SIZES}: {name}')
        where = f'{SIZES}:{name}'
        if not isinstance(caps, dict) or set(caps) - {'core', 'ram', 'disk'} or \
                not all(isinstance(v, int) and not isinstance(v, bool) and v >= 0 for v in caps.values()):
            rep.violation('D1', where, 'instance_sizes.json', f'{name}: malformed capacities {caps}',
                          'an instance size must map core/ram/disk to non-negative ints')
            continue
        m = re.fullmatch(r'fabric\.c(\d+)\.m(\d+)\.d(\d+)', name)
        tup = (caps.get('core', 0), caps.get('ram', 0), caps.get('disk', 0))
        if not m or tuple(int(x) for x in m.groups()) != tup:
            rep.violation('D1', where, 'instance_sizes.json', f'{name}: name does not encode {caps}',
                          f'the size name {name} and its capacities {caps} disagree')
        if tup in seen_caps:
            rep.violation('D1', where, 'instance_sizes.json', f'{name}: same capacities as {seen_caps[tup]}',
                          'two sizes share the same capacities: the name lookup by value returns the first only')
        seen_caps.setdefault(tup, name)
        for i, f in enumerate(('core', 'ram', 'disk')):
            maxima[f] = max(maxima[f], tup[i])
    last = sizes[names[-1]]
    if isinstance(last, dict):
        lt = (last.get('core', 0), last.get('ram', 0), last.get('disk', 0))
        if lt != (maxima['core'], maxima['ram'], maxima['disk']):
            rep.violation('D1', f'{SIZES}:{names[-1]}', 'instance_sizes.json', 'last entry is not the largest size',
                          f'requests that exceed every size get the last entry {names[-1]} = {last}, which is not the '
                          f'maximum {maxima} in every dimension')

    icat = prog.cls(ICAT)
    mp = icat.methods.get('map_capacities_to_instance')
    if mp is None:
        raise AnalysisError('map_capacities_to_instance vanished')
    imod = icat.module
    fq = 'InstanceCatalog.map_capacities_to_instance'
    # the data file the code loads is the one linted
    rc = [f for n, f in icat.methods.items() if n.endswith('read_catalog')]
    if not rc or 'instance_sizes.json' not in ast.unparse(rc[0]):
        raise AnalysisError('InstanceCatalog no longer loads data/instance_sizes.json')

    # R1
    mp = inline(prog, icat, mp, exclude=('__read_catalog',))
    filt = None
    for n in walk_no_nested(mp):
        if isinstance(n, ast.Call) and isinstance(n.func, ast.Name) and n.func.id == 'filter' and n.args and \
                isinstance(n.args[0], ast.Lambda):
            filt = n
        if isinstance(n, (ast.ListComp, ast.GeneratorExp)) and len(n.generators) == 1 and n.generators[0].ifs and \
                isinstance(n.generators[0].target, ast.Name) and isinstance(n.elt, ast.Name) and n.elt.id == n.generators[0].target.id:
            filt = n
    if filt is None:
        raise AnalysisError(f'{fq}: candidate filter not found')
    if isinstance(filt, ast.Call):
        var = filt.args[0].args.args[0].arg
        cond = filt.args[0].body
    else:
        var = filt.generators[0].target.id
        conds = filt.generators[0].ifs
        cond = conds[0] if len(conds) == 1 else ast.BoolOp(op=ast.And(), values=conds)
    conj = cond.values if isinstance(cond, ast.BoolOp) and isinstance(cond.op, ast.And) else [cond]
    dims = {}
    shape_ok = isinstance(cond, ast.Compare) or (isinstance(cond, ast.BoolOp) and isinstance(cond.op, ast.And))
    for c in conj:
        if not (isinstance(c, ast.Compare) and len(c.ops) == 1):
            shape_ok = False
            continue
        l, r, op = c.left, c.comparators[0], type(c.ops[0])
        lc, rc_ = attr_chain(l), attr_chain(r)
        if lc and rc_ and len(lc) == 2 and len(rc_) == 2:
            if lc[0] == var and rc_[0] == 'cap' and lc[1] == rc_[1] and op is ast.GtE:
                dims[lc[1]] = True
            elif rc_[0] == var and lc[0] == 'cap' and lc[1] == rc_[1] and op is ast.LtE:
                dims[lc[1]] = True
            else:
                dims[lc[1]] = False
        else:
            shape_ok = False
    rep.instance('R1', f'{fq}: filter {norm(cond, 120)}')
    if not shape_ok or set(dims) != {'core', 'ram', 'disk'} or not all(dims.values()):
        rep.violation('R1', loc(imod, filt), fq, norm(cond, 140),
                      'the candidate filter must keep exactly the sizes with core, ram and disk all >= the request; '
                      'otherwise an insufficient size can be returned or a sufficient one missed')

    # R2
    cand_name = None
    for n in walk_no_nested(mp):
        if isinstance(n, ast.Assign) and (n.value is filt or any(x is filt for x in ast.walk(n.value))):
            cand_name = n.targets[0].id
    if cand_name is None:
        raise AnalysisError(f'{fq}: candidates variable not found')
    ordering = None
    for n in walk_no_nested(mp):
        if isinstance(n, ast.Call) and isinstance(n.func, ast.Attribute) and n.func.attr == 'sort' and \
                ast.unparse(n.func.value) == cand_name:
            ordering = n
        if isinstance(n, ast.Call) and isinstance(n.func, ast.Name) and n.func.id in ('sorted', 'min') and n.args and \
                (cand_name in ast.unparse(n.args[0]) or any(x is filt for x in ast.walk(n.args[0]))):
            ordering = n
    rep.instance('R2', f'{fq}: ordering step {norm(ordering) if ordering is not None else None}')

    def ret_sink(st):
        return st.value if isinstance(st, ast.Return) and st.value is not None else None
    try:
        routs = branch_values(mp.body, ret_sink, opaque=(cand_name,))
    except Unknown as u:
        raise AnalysisError(f'{fq}: not analysable: {u}')
    rep.instance('R2', f'{fq}: returns {[(o.conds[-1:] , o.vtext) for o in routs]}')

    def is_list_of(e, meth):
        """list(<catalog>.keys()) / list(<catalog>.values()) / list(<catalog>) for keys"""
        if isinstance(e, ast.Call) and isinstance(e.func, ast.Name) and e.func.id == 'list' and len(e.args) == 1:
            a0 = e.args[0]
            if isinstance(a0, ast.Call) and isinstance(a0.func, ast.Attribute) and a0.func.attr == meth and \
                    isinstance(a0.func.value, ast.Call) and call_name(a0.func.value).endswith('read_catalog'):
                return True
            if meth == 'keys' and isinstance(a0, ast.Call) and call_name(a0).endswith('read_catalog'):
                return True
        return False

    def first_candidate(e):
        if isinstance(e, ast.Subscript) and isinstance(e.value, ast.Name) and e.value.id == cand_name and isinstance(e.slice, ast.Constant) and e.slice.value == 0:
            return True
        if isinstance(e, ast.Call) and isinstance(e.func, ast.Name) and e.func.id == 'min' and e.args and isinstance(e.args[0], ast.Name) and e.args[0].id == cand_name:
            return True
        if isinstance(e, ast.Subscript) and isinstance(e.value, ast.Call) and isinstance(e.value.func, ast.Name) and e.value.func.id == 'sorted' and \
                e.value.args and isinstance(e.value.args[0], ast.Name) and e.value.args[0].id == cand_name and isinstance(e.slice, ast.Constant) and e.slice.value == 0:
            return True
        return False
    first_ok = fallback_ok = False
    first_ret = None
    for o in routs:
        v = o.value
        empty = f'not {cand_name}' in o.conds
        nonempty = cand_name in o.conds
        if isinstance(v, ast.Subscript) and is_list_of(v.value, 'keys'):
            sl = v.slice
            if isinstance(sl, ast.UnaryOp) and isinstance(sl.op, ast.USub) and isinstance(sl.operand, ast.Constant) and sl.operand.value == 1:
                if empty:
                    fallback_ok = True
                continue
            if isinstance(sl, ast.Call) and call_name(sl) == 'index' and is_list_of(sl.func.value, 'values') and sl.args and first_candidate(sl.args[0]):
                if nonempty:
                    first_ok = True
                    first_ret = o.stmt
    if not first_ok:
        rep.violation('R2', loc(imod, mp), fq, 'selected size is not the name of the first candidate',
                      'the returned name must be the key at the index of the first (ordered) candidate')
    if ordering is not None and first_ret is not None:
        mcfg = CFG(mp)
        if isinstance(ordering.func, ast.Attribute) and not flow.dominates(mcfg, ordering, first_ret):
            rep.violation('R2', loc(imod, ordering), fq, 'ordering after selection', 'candidates are ordered after the first was taken')
    if not fallback_ok:
        rep.violation('R2', loc(imod, mp), fq, 'fallback is not the last key',
                      'when no size satisfies the request the largest size (the last catalogue entry) must be returned')
    if ordering is None:
        # exact first-fit condition on the data: for every entry e_j the first entry >= e_j (in file order) is e_j
        ents = [(n, (c.get('core', 0), c.get('ram', 0), c.get('disk', 0))) for n, c in sizes.items() if isinstance(c, dict)]
        bad = None
        for j, (nj, ej) in enumerate(ents):
            for k, (nk, ek) in enumerate(ents[:j]):
                if ek[0] >= ej[0] and ek[1] >= ej[1] and ek[2] >= ej[2] and ek != ej:
                    bad = (nj, ej, nk, ek)
                    break
            if bad:
                break
        rep.instance('R2', f'first-fit lint over {len(ents)} entries (no ordering step in the code): {"violated" if bad else "holds"}')
        if bad:
            rep.violation('R2', loc(imod, mp), fq, 'no ordering step and the catalogue is not first-fit minimal',
                          f'without ordering the candidates the first satisfying entry in file order is returned; for the '
                          f'request core/ram/disk={bad[1]} that is {bad[2]} {bad[3]} although {bad[0]} satisfies it and is '
                          f'smaller or equal in every dimension')
    # the table the selection works on keeps the order of the catalogue file ("the last key is the largest size" and the
    # tie-breaking of the stable sort are facts about that order): it is built by iterating the decoded file itself
    rc_ = icat.methods.get('__read_catalog')
    if rc_ is None:
        raise AnalysisError('InstanceCatalog.__read_catalog vanished')
    loaded = {t.id for a in ast.walk(rc_) if isinstance(a, ast.Assign) and isinstance(a.value, ast.Call) and call_name(a.value) in ('load', 'loads')
              for t in a.targets if isinstance(t, ast.Name)}
    order_ok = False
    order_desc = None
    for n in ast.walk(rc_):
        gens_ = n.generators if isinstance(n, (ast.DictComp, ast.ListComp)) else ([n] if isinstance(n, ast.For) else [])
        for g in gens_:
            it = g.iter
            base_ = it.func.value if isinstance(it, ast.Call) and isinstance(it.func, ast.Attribute) and it.func.attr in ('items', 'keys') and not it.args else it
            if any(isinstance(x, ast.Name) and x.id in loaded for x in ast.walk(it)):
                order_desc = norm(it, 60)
                order_ok = isinstance(base_, ast.Name) and base_.id in loaded
    rep.instance('R2', f'InstanceCatalog.__read_catalog: table built by iterating {order_desc} (file order kept: {order_ok})')
    if order_desc is not None and not order_ok:
        rep.violation('R2', loc(imod, rc_), 'InstanceCatalog.__read_catalog', f'table built from {order_desc}',
                      f'the instance table is built from {order_desc}, not from the decoded catalogue in file order: the fallback '
                      f'"last key" is then no longer the largest size and ties among candidates are broken differently, so the size '
                      f'returned is not minimal / not the largest')

    # ---- component catalogue ----
    comps = prog.data_file(COMPS)
    if not isinstance(comps, list) or not comps:
        raise AnalysisError(f'{COMPS} is not a non-empty list')
    ctypes = set(prog.enum_members('fim.slivers.attached_components:ComponentType'))
    massage = lambda s: re.sub(r'[ -]', '_', s)
    gen_names = {}
    keys_seen = {}
    types_with_ifs = set()
    for i, c in enumerate(comps):
        where = f'{COMPS}[{i}]'
        rep.instance('D1', f'{where}: {c.get("Type")} {c.get("Model")}')
        for req in ('Model', 'Type', 'Details'):
            if not isinstance(c.get(req), str):
                rep.violation('D1', where, 'component_catalog.json', f'entry {i}: {req} missing',
                              f'catalogue entry {i} has no string {req}')
        if c.get('Type') not in ctypes:
            rep.violation('D1', where, 'component_catalog.json', f'entry {i}: Type {c.get("Type")} not a ComponentType',
                          'type_from_str returns None for it: the generated component has no type')
        for m_ in [c.get('Model')] + list(c.get('AlsoModels', []) or []):
            k = (m_, c.get('Type'))
            if k in keys_seen:
                rep.violation('D1', where, 'component_catalog.json', f'entry {i}: ({m_}, {c.get("Type")}) also matches entry {keys_seen[k]}',
                              'first-match lookup shadows this entry')
            keys_seen.setdefault(k, i)
        gn = massage(str(c.get('Type'))) + '_' + massage(str(c.get('Model')))
        rep.instance('R4', f'enum member {gn}')
        if gn in gen_names:
            rep.violation('R4', where, 'component_catalog.json', f'entry {i}: enum name {gn} collides with entry {gen_names[gn]}',
                          'the generated ComponentModelType silently merges the two entries')
        gen_names.setdefault(gn, i)
        if 'Interfaces' in c:
            types_with_ifs.add(c.get('Type'))
            if not isinstance(c['Interfaces'], dict) or not c['Interfaces']:
                rep.violation('D1', where, 'component_catalog.json', f'entry {i}: Interfaces malformed', 'Interfaces must be a non-empty object')
            else:
                for pn, sp in c['Interfaces'].items():
                    try:
                        int(sp)
                    except (TypeError, ValueError):
                        rep.violation('D1', where, 'component_catalog.json', f'entry {i}: speed of {pn} is not an int: {sp!r}',
                                      'int() of the catalogued speed raises when the component is generated')

    ccat = prog.cls(CCAT)
    cmod = ccat.module
    gc = ccat.methods.get('generate_component')
    if gc is None:
        raise AnalysisError('generate_component vanished')
    gq = 'ComponentCatalog.generate_component'
    # private helpers split off generate_component are read as part of it
    gc = inline(prog, ccat, gc, exclude=('__read_catalog',))
    # the interface loop: the loop over the 'Interfaces' of the matched catalogue row
    gc_env_ = local_env(gc)
    loops = [n for n in walk_no_nested(gc) if isinstance(n, ast.For) and
             any(isinstance(x, ast.Subscript) and isinstance(x.slice, ast.Constant) and x.slice.value == 'Interfaces' for x in ast.walk(expand(n.iter, gc_env_)))]
    if len(loops) != 1:
        raise AnalysisError(f'{gq}: interface loop not found')
    loop = loops[0]
    # index variable: the Name used to subscript the two parameter lists
    idx_names = set()
    uses = []
    for n in ast.walk(loop):
        if isinstance(n, ast.Subscript) and isinstance(n.value, ast.Name) and n.value.id in ('interface_node_ids', 'interface_labels') \
                and isinstance(n.slice, ast.Name):
            idx_names.add(n.slice.id)
            uses.append(n)
    if len(idx_names) != 1 or len(uses) < 2:
        rep.violation('R3', loc(cmod, loop), gq, f'index variables {sorted(idx_names)}',
                      'interface ids and labels must be taken from the caller\'s lists with one common index')
        idx = next(iter(idx_names), None)
    else:
        idx = next(iter(idx_names))
    enum_idx = None
    it_ = loop.iter
    if isinstance(it_, ast.Call) and isinstance(it_.func, ast.Name) and it_.func.id == 'enumerate' and isinstance(loop.target, ast.Tuple) and \
            isinstance(loop.target.elts[0], ast.Name):
        start = kwarg(it_, 'start') or (it_.args[1] if len(it_.args) > 1 else None)
        enum_idx = (loop.target.elts[0].id, start)
    if idx and enum_idx is not None and enum_idx[0] == idx:
        rep.instance('R3', f'{gq}: index {idx} comes from enumerate(...) over the interfaces (start {norm(enum_idx[1]) if enum_idx[1] is not None else 0})')
        if enum_idx[1] is not None and not (isinstance(enum_idx[1], ast.Constant) and enum_idx[1].value == 0):
            rep.violation('R3', loc(cmod, loop), gq, f'{idx} not initialised to 0 before the loop',
                          'the index that pairs caller-supplied ids/labels with interfaces must start at 0 before the loop')
        if any(isinstance(n, (ast.Assign, ast.AugAssign)) and any(isinstance(x, ast.Name) and x.id == idx and isinstance(x.ctx, ast.Store) for x in ast.walk(n))
               for n in ast.walk(loop) if n is not loop):
            rep.violation('R3', loc(cmod, loop), gq, f'{idx} updated inside the loop', 'the index must be advanced exactly once per iteration, unconditionally')
    elif idx:
        # initialised before the loop, in the same block
        blk = loop._parent.body
        pos = blk.index(loop)
        inits = [s for s in blk[:pos] if isinstance(s, ast.Assign) and ast.unparse(s.targets[0]) == idx]
        incs = [n for n in ast.walk(loop) if (isinstance(n, ast.AugAssign) and ast.unparse(n.target) == idx) or
                (isinstance(n, ast.Assign) and ast.unparse(n.targets[0]) == idx)]
        rep.instance('R3', f'{gq}: index {idx}: {len(inits)} init before loop, {len(incs)} update(s) in loop')
        if len(inits) != 1 or ast.unparse(inits[0].value) != '0':
            rep.violation('R3', loc(cmod, loop), gq, f'{idx} not initialised to 0 before the loop',
                          'the index that pairs caller-supplied ids/labels with interfaces must start at 0 before the loop')
        top_incs = [n for n in loop.body if n in incs]
        if len(incs) != 1 or len(top_incs) != 1:
            rep.violation('R3', loc(cmod, loop), gq, f'{idx} updated {len(incs)} time(s), {len(top_incs)} unconditionally',
                          'the index must be advanced exactly once per iteration, unconditionally')
        else:
            inc = top_incs[0]
            itxt = ast.unparse(inc)
            if itxt not in (f'{idx} = {idx} + 1', f'{idx} += 1'):
                rep.violation('R3', loc(cmod, inc), gq, itxt, 'the index must advance by one')
            for u in uses:
                if u.lineno > inc.lineno:
                    rep.violation('R3', loc(cmod, u), gq, norm(u), f'{norm(u)} is read after the index was advanced')
    if idx:
        # each use guarded by its own `<param> is not None` and not nested under the other parameter's guard
        for u in uses:
            pname = u.value.id
            # the path condition of the use (either branch of an if, guard clauses, conjunctions), one conjunct per entry
            _, uconds = _enclosing(u, gc)
            guards = [ast.unparse(cj) for c_ in uconds for cj in conjuncts(canon(c_))]
            rep.instance('R3', f'{gq}: {norm(u)} guarded by {guards}')
            own = f'{pname} is not None'
            other = 'interface_labels is not None' if pname == 'interface_node_ids' else 'interface_node_ids is not None'
            if own not in guards:
                rep.violation('R3', loc(cmod, u), gq, f'{norm(u)} not guarded by "{own}"',
                              f'{pname}[{idx}] is read without testing that {pname} was supplied')
            if other in guards:
                rep.violation('R3', loc(cmod, u), gq, f'{norm(u)} nested under "{other}"',
                              f'{pname} is only applied when the other list is supplied too: a caller who passes '
                              f'{pname} alone has it silently ignored')
    # the same independence for the length checks: the number of ids / labels supplied is compared with the number of
    # catalogued interfaces whenever THAT list is supplied, whether or not the other one is
    for pname in ('interface_node_ids', 'interface_labels'):
        other = 'interface_labels' if pname == 'interface_node_ids' else 'interface_node_ids'
        lens_ = [c for c in walk_no_nested(gc) if isinstance(c, ast.Call) and isinstance(c.func, ast.Name) and c.func.id == 'len' and c.args and
                 isinstance(c.args[0], ast.Name) and c.args[0].id == pname and
                 any(isinstance(p_, ast.If) and any(isinstance(x, ast.Raise) for x in p_.body) and any(y is c for y in ast.walk(p_.test)) for p_ in _ancestors18(c, gc))]
        ok_len = False
        why = 'no count check'
        for c in lens_:
            tests_ = [p_ for p_ in _ancestors18(c, gc) if isinstance(p_, ast.If)]
            conds_ = []
            for t_ in tests_:
                conds_ += [ctext(cj) for cj in conjuncts(canon(t_.test))]
            _, outer_ = _enclosing(tests_[0], gc) if tests_ else ([], [])
            conds_ += [ctext(cj) for c_ in outer_ if getattr(c_, '_guard', None) != 'Raise' for cj in conjuncts(canon(c_))]
            own_ok = f'{pname} is not None' in conds_
            dep_other = any(other in t_ for t_ in conds_ if not t_.startswith('len(' + pname))
            if own_ok and not dep_other:
                ok_len = True
            else:
                why = f'count check under {[t_ for t_ in conds_ if "is not None" in t_]}'
        rep.instance('R3', f'{gq}: number of {pname} checked whenever they are supplied: {ok_len}')
        if not ok_len:
            rep.violation('R3', loc(cmod, lens_[0] if lens_ else gc), gq, f'count of {pname}: {why}',
                          f'the number of {pname} is not checked against the number of catalogued interfaces whenever {pname} is supplied '
                          f'(the check is missing, unguarded, or only made when {other} is supplied too): a caller who passes {pname} alone gets a '
                          f'TypeError / IndexError, or has surplus entries silently dropped')
    disp = interface_kind_dispatch(prog)
    rep.instance('R3', f'{gq}: interface kind dispatch {disp}; catalogue types with interfaces {sorted(types_with_ifs)}')
    for t in sorted(types_with_ifs):
        if t not in disp:
            rep.violation('R3', loc(cmod, loop), gq, f'no interface kind for component type {t}',
                          f'catalogue entries of type {t} have interfaces but generate_component assigns them no interface type')
    want = {'SmartNIC': 'DedicatedPort', 'FPGA': 'DedicatedPort', 'SharedNIC': 'SharedPort'}
    for t, k in disp.items():
        if t in want and want[t] != k:
            rep.violation('R3', loc(cmod, loop), gq, f'{t} interfaces are {k}',
                          f'{t} interfaces must be {want[t]} (C10 guardrails and link typing rely on it)')
    # speed from the row
    caps_calls = [n for n in ast.walk(loop) if isinstance(n, ast.Call) and isinstance(n.func, ast.Name) and n.func.id == 'Capacities']
    row_vals = set()
    tgt_names = [x.id for x in ast.walk(loop.target) if isinstance(x, ast.Name)]
    if any(isinstance(c_, ast.Call) and call_name(c_) == 'items' for c_ in ast.walk(loop.iter)) and tgt_names:
        row_vals.add(tgt_names[-1])

    it_ = loop.iter
    if isinstance(it_, ast.Call) and isinstance(it_.func, ast.Name) and it_.func.id == 'enumerate' and it_.args:
        it_ = it_.args[0]
    if isinstance(it_, ast.Call) and call_name(it_) in ('keys', 'items', 'values'):
        it_ = it_.func.value
    dict_names = {ast.unparse(it_)}

    def from_row(e):
        return any(isinstance(x, ast.Subscript) and ast.unparse(x.value) in dict_names and
                   any(isinstance(y, ast.Name) and y.id in tgt_names for y in ast.walk(x.slice)) for x in ast.walk(e)) or \
            any(isinstance(x, ast.Name) and x.id in row_vals for x in ast.walk(e))
    bw_ok = any(any(k.arg == 'bw' and isinstance(k.value, ast.Call) and isinstance(k.value.func, ast.Name) and k.value.func.id == 'int' and from_row(k.value)
                    for k in c.keywords) for c in caps_calls)

    def is_unit_count(e):
        # the number of devices behind the port: len(<labels>.bdf) when bdf is a LIST of addresses, 1 otherwise (a single
        # address is a string, whose length is not a device count)
        if isinstance(e, ast.Name):
            defs = [a.value for a in ast.walk(loop) if isinstance(a, ast.Assign) and any(isinstance(t, ast.Name) and t.id == e.id for t in a.targets)]
            return bool(defs) and all(is_unit_count(d) for d in defs)
        lens = [x for x in ast.walk(e) if isinstance(x, ast.Call) and isinstance(x.func, ast.Name) and x.func.id == 'len' and x.args and
                isinstance(x.args[0], ast.Attribute) and x.args[0].attr == 'bdf']
        if not lens:
            return False
        # the len() is taken only under "bdf is a list"
        guard_src = e
        if isinstance(e, ast.IfExp):
            guard_src = e.test
        else:
            st_ = lens[0]
            conds_ = []
            while st_ is not None and st_ is not loop:
                par_ = getattr(st_, '_parent', None)
                if isinstance(par_, ast.If) and any(st_ is b_ for b_ in par_.body):
                    conds_.append(par_.test)
                st_ = par_
            guard_src = ast.BoolOp(op=ast.And(), values=conds_) if conds_ else None
        listy = guard_src is not None and any(isinstance(x, ast.Call) and isinstance(x.func, ast.Name) and x.func.id == 'isinstance' and len(x.args) == 2 and
                                              isinstance(x.args[0], ast.Attribute) and x.args[0].attr == 'bdf' and 'list' in ast.unparse(x.args[1])
                                              for x in ast.walk(guard_src))
        if not listy:
            unit_notes.append('the unit count is len(bdf) without testing that bdf is a list: a single PCI address (a string) gives its number of characters')
        return listy
    unit_notes = []
    unit_ok = all(any(k.arg == 'unit' and is_unit_count(k.value) for k in c.keywords) for c in caps_calls) and bool(caps_calls)
    rep.instance('R3', f'{gq}: capacities built by {[norm(c) for c in caps_calls]}')
    if not bw_ok or not unit_ok:
        rep.violation('R3', loc(cmod, loop), gq, 'interface capacities not taken from the row / unit count',
                      'the port speed must be int(<catalogued speed of that port>) and the unit count the number of devices' +
                      (' (' + unit_notes[0] + ')' if unit_notes else ''))
    # row copying: the row is the catalogue entry selected by the lookup (a search loop, or next() over a generator); the
    # sliver is the fresh ComponentSliver
    genv2 = local_env(gc)
    selections = []         # (row variable, entry variable, selection condition)
    for l in [n for n in walk_no_nested(gc) if isinstance(n, ast.For) and isinstance(n.target, ast.Name)]:
        src_ = expand(l.iter, genv2)
        if not (isinstance(src_, ast.Call) and call_name(src_).endswith('read_catalog')):
            continue
        entry = l.target.id
        lenv2 = {k_: v_ for k_, v_ in genv2.items()}
        for a in ast.walk(l):
            if isinstance(a, ast.Assign) and isinstance(a.value, ast.Name) and a.value.id == entry and len(a.targets) == 1 and isinstance(a.targets[0], ast.Name):
                _, cs_ = _enclosing(a, l)
                cond = None
                for c_ in cs_:
                    c2 = expand(c_, lenv2)
                    cond = c2 if cond is None else ast.BoolOp(op=ast.And(), values=[cond, c2])
                if cond is not None:
                    selections.append((a.targets[0].id, entry, cond))
    for a in walk_no_nested(gc):
        if isinstance(a, ast.Assign) and len(a.targets) == 1 and isinstance(a.targets[0], ast.Name) and isinstance(a.value, ast.Call) and \
                isinstance(a.value.func, ast.Name) and a.value.func.id == 'next' and a.value.args and isinstance(a.value.args[0], ast.GeneratorExp):
            g = a.value.args[0]
            if len(g.generators) == 1 and isinstance(g.generators[0].target, ast.Name) and isinstance(g.elt, ast.Name) and \
                    g.elt.id == g.generators[0].target.id:
                src_ = expand(g.generators[0].iter, genv2)
                if isinstance(src_, ast.Call) and call_name(src_).endswith('read_catalog') and g.generators[0].ifs:
                    cond = g.generators[0].ifs[0] if len(g.generators[0].ifs) == 1 else ast.BoolOp(op=ast.And(), values=list(g.generators[0].ifs))
                    selections.append((a.targets[0].id, g.elt.id, cond))
    if not selections:
        raise AnalysisError(f'{gq}: catalogue lookup not found')
    row_names = {r for r, _, _ in selections}
    sl_names = {t.id for a in walk_no_nested(gc) if isinstance(a, ast.Assign) and isinstance(a.value, ast.Call) and isinstance(a.value.func, ast.Name) and
                a.value.func.id == 'ComponentSliver' for t in a.targets if isinstance(t, ast.Name)}
    if len(row_names) != 1 or len(sl_names) != 1:
        raise AnalysisError(f'{gq}: matched row / generated sliver locals not identified ({sorted(row_names)}, {sorted(sl_names)})')
    rowv, slv = next(iter(row_names)), next(iter(sl_names))
    copies = {'set_model': 'Model', 'set_details': 'Details', 'set_type': 'Type'}
    for setter, key_ in copies.items():
        found = [n for n in walk_no_nested(gc) if isinstance(n, ast.Call) and call_name(n) == setter and
                 ast.unparse(n.func.value) == slv]
        rep.instance('R3', f'{gq}: <sliver>.{setter}({norm(found[0].args[0]) if found and found[0].args else "?"})')
        fed = found and found[0].args and any(isinstance(x, ast.Subscript) and isinstance(x.value, ast.Name) and x.value.id == rowv and
                                              isinstance(x.slice, ast.Constant) and x.slice.value == key_ for x in ast.walk(found[0].args[0]))
        if not fed:
            rep.violation('R3', loc(cmod, gc), gq, f"<sliver>.{setter} not fed from <matched row>['{key_}']",
                          f'the generated component must take its {setter[4:]} from the matched catalogue row')
    # the lookup matches model AND type: whenever an entry is selected its Type equals the requested type, and the requested
    # model is its Model or one of its AlsoModels
    def _entry_field(x, entry, key_):
        if isinstance(x, ast.Subscript) and isinstance(x.value, ast.Name) and x.value.id == entry and isinstance(x.slice, ast.Constant) and x.slice.value == key_:
            return True
        return isinstance(x, ast.Call) and call_name(x) == 'get' and isinstance(x.func.value, ast.Name) and x.func.value.id == entry and x.args and \
            isinstance(x.args[0], ast.Constant) and x.args[0].value == key_
    main_seen = also_seen = False
    rep.instance('R3', f'{gq}: lookup selects an entry when {[norm(c_, 110) for _, _, c_ in selections]}')
    for _, entry, cond in selections:
        def is_type(n_, entry=entry):
            return isinstance(n_, ast.Compare) and isinstance(n_.ops[0], ast.Eq) and any(_entry_field(x, entry, 'Type') for x in ast.walk(n_))

        def is_main(n_, entry=entry):
            return isinstance(n_, ast.Compare) and isinstance(n_.ops[0], ast.Eq) and any(_entry_field(x, entry, 'Model') for x in ast.walk(n_)) and \
                any(isinstance(x, ast.Name) and x.id == 'model' for x in ast.walk(n_))

        def is_also(n_, entry=entry):
            return isinstance(n_, ast.Compare) and isinstance(n_.ops[0], ast.In) and isinstance(n_.left, ast.Name) and n_.left.id == 'model' and \
                any(_entry_field(x, entry, 'AlsoModels') for x in ast.walk(n_.comparators[0]))
        try:
            t_ok = bool_implies(cond, is_type)
            m_ok = bool_implies(cond, lambda n_: is_main(n_) or is_also(n_))
        except Unknown:
            t_ok = m_ok = False
        ats = bool_literals(cond)
        main_seen = main_seen or any(is_main(a_) for a_ in ats)
        also_seen = also_seen or any(is_also(a_) for a_ in ats)
        if not t_ok or not m_ok:
            rep.violation('R3', loc(cmod, cond), gq, 'lookup test without model or type', f'catalogue lookup must match both the model and the type (found `{norm(cond, 100)}`)')
    if not main_seen or not also_seen:
        rep.violation('R3', loc(cmod, gc), gq, 'lookup does not test main model and AlsoModels',
                      'the catalogue lookup must test the main model and the AlsoModels list')
    # R4 code side: enum built from every entry
    pop = inline(prog, ccat, ccat.methods.get('populate_catalog_models_and_types'), exclude=('__massage_name', '__read_catalog'))
    penv = local_env(pop)
    cat_names = {n.targets[0].id for n in walk_no_nested(pop) if isinstance(n, ast.Assign) and isinstance(n.targets[0], ast.Name) and
                 isinstance(n.value, ast.Call) and call_name(n.value).endswith('read_catalog')}
    ok4 = bool(cat_names)
    # (a) one member per entry: a name built from Type and Model of every entry, numbered from 1
    named = False
    for nm, bl in builders(pop).items():
        for b_ in bl:
            if b_.kind != 'dict' or not b_.gens:
                continue
            its = ' '.join(ast.unparse(i) for _, i in b_.gens)
            subs = {x.slice.value for x in ast.walk(expand(b_.key, penv)) if isinstance(x, ast.Subscript) and isinstance(x.slice, ast.Constant)}
            if any(c_ in its for c_ in cat_names) and {'Type', 'Model'} <= subs and not b_.conds:
                named = True
                # numbering from 1: enumerate(catalog, start=1) or a counter initialised to 1 and advanced by 1
                one = False
                for _, i in b_.gens:
                    if isinstance(i, ast.Call) and isinstance(i.func, ast.Name) and i.func.id == 'enumerate':
                        st_ = kwarg(i, 'start') or (i.args[1] if len(i.args) > 1 else None)
                        one = isinstance(st_, ast.Constant) and st_.value == 1
                if not one and isinstance(b_.elt, ast.Name):
                    inits = [n for n in walk_no_nested(pop) if isinstance(n, ast.Assign) and any(isinstance(t, ast.Name) and t.id == b_.elt.id for t in n.targets)
                             and isinstance(n.value, ast.Constant)]
                    incs = [n for n in ast.walk(pop) if isinstance(n, ast.AugAssign) and isinstance(n.target, ast.Name) and n.target.id == b_.elt.id and
                            isinstance(n.op, ast.Add) and isinstance(n.value, ast.Constant) and n.value.value == 1]
                    one = bool(inits) and inits[0].value.value == 1 and len(incs) == 1
                ok4 = ok4 and one
    ok4 = ok4 and named
    # (b) every member is mapped back to its own entry: Map[<member>] = catalog[<value> - 1]
    mapped = False
    for n in ast.walk(pop):
        if isinstance(n, ast.Assign) and isinstance(n.targets[0], ast.Subscript) and ast.unparse(n.targets[0].value) == 'ComponentModelTypeMap':
            v = n.value
            if isinstance(v, ast.Subscript) and isinstance(v.value, ast.Name) and v.value.id in cat_names and isinstance(v.slice, ast.BinOp) and \
                    isinstance(v.slice.op, ast.Sub) and isinstance(v.slice.right, ast.Constant) and v.slice.right.value == 1:
                mapped = True
    rep.instance('R4', f'populate_catalog_models_and_types: one member per entry numbered from 1: {ok4}; mapped back to catalog[value - 1]: {mapped}')
    if not ok4 or not mapped:
        rep.violation('R4', loc(cmod, pop), 'ComponentCatalog.populate_catalog_models_and_types', 'enumeration shape',
                      'the type-model enumeration must have one member per catalogue entry mapped back to that entry')


MUTANTS = [
    {'name': 'label-count-checked-only-with-ids', 'file': 'fim/slivers/component_catalog.py', 'rule': 'R3',
     'find': "            if interface_labels is not None:\n                if len(interface_labels) != len(interfaces_dict.keys()):", 'replace': "            if interface_node_ids is not None:\n                if len(interface_labels) != len(interfaces_dict.keys()):"},
    {'name': 'unit-count-from-string-bdf', 'file': 'fim/slivers/component_catalog.py', 'rule': 'R3',
     'find': 'units = len(lab.bdf) if lab is not None and isinstance(lab.bdf, list) else 1', 'replace': 'units = len(lab.bdf) if lab is not None and lab.bdf is not None else 1'},
    {'name': 'filter-drops-disk', 'file': 'fim/slivers/instance_catalog.py', 'rule': 'R1',
     'find': 'x.core >= cap.core and x.ram >= cap.ram and x.disk >= cap.disk', 'replace': 'x.core >= cap.core and x.ram >= cap.ram'},
    {'name': 'filter-strict-greater', 'file': 'fim/slivers/instance_catalog.py', 'rule': 'R1',
     'find': 'x.core >= cap.core and', 'replace': 'x.core > cap.core and'},
    {'name': 'fallback-first-key', 'file': 'fim/slivers/instance_catalog.py', 'rule': 'R2',
     'find': '        return keys[-1]', 'replace': '        return keys[0]'},
    {'name': 'size-name-capacity-mismatch', 'file': SIZES, 'rule': 'D1',
     'find': '  "fabric.c2.m8.d100": {\n    "core": 2,\n    "ram": 8,\n    "disk": 100\n', 'replace': '  "fabric.c2.m8.d100": {\n    "core": 2,\n    "ram": 8,\n    "disk": 10\n'},
    {'name': 'index-advanced-before-labels', 'file': 'fim/slivers/component_catalog.py', 'rule': 'R3',
     'find': '                    isliver.node_id = str(uuid.uuid4())\n                if interface_labels is not None:',
     'replace': '                    isliver.node_id = str(uuid.uuid4())\n                id_index = id_index + 1\n                if interface_labels is not None:'},
    {'name': 'shared-nic-dedicated-port', 'file': 'fim/slivers/component_catalog.py', 'rule': 'R3',
     'find': '                    isliver.set_type(InterfaceType.SharedPort)', 'replace': '                    isliver.set_type(InterfaceType.DedicatedPort)'},
    {'name': 'catalog-type-unknown', 'file': COMPS, 'rule': 'D1', 'find': '"Type": "NVME"', 'replace': '"Type": "NVMe"'},
]
TWINS = [
    {'name': 'filter-as-comprehension', 'file': 'fim/slivers/instance_catalog.py',
     'find': '        candidates = list(filter(lambda x: (x.core >= cap.core and x.ram >= cap.ram and x.disk >= cap.disk),\n                                 values))',
     'replace': '        candidates = [x for x in values if cap.core <= x.core and cap.ram <= x.ram and cap.disk <= x.disk]'},
]
