"""
C05 -- in-memory graph backends agree with each other and with the documented semantics.

R1 identity guards: every public mutator of a node/link property is dominated by the Class guard; node unset also by the
   NO_UNSET_PROPERTIES guard; that table contains the five identity properties
R2 insertion key subset of lookup key: the guard of add_node uses no more fields than _find_node uses to address a node
R3 override inventory of the disjoint backend; signature agreement of the two storage classes
R4 internal ids come from monotone counters in both stores (shared with C04)
R5 merge policy: the loop ranges over the caller's properties; keep / overwrite / combine pick the documented side
"""
import ast

from ..core import AnalysisError, norm, loc, walk_no_nested, attr_chain, call_name, func_params
from ..cfg import CFG
from .. import nxgraph as nxg

MUTATORS = {
    'update_node_property': ('prop_name', 'name'), 'unset_node_property': ('prop_name', 'name'),
    'update_nodes_property': ('prop_name', 'name'), 'update_node_properties': ('props', 'dict'),
    'update_link_property': ('prop_name', 'name'), 'unset_link_property': ('prop_name', 'name'),
    'update_link_properties': ('props', 'dict'),
}
IDENTITY = {'GraphID', 'NodeID', 'Class', 'Type', 'Name'}
DISJ = 'fim.graph.networkx_property_graph_disjoint:NetworkXPropertyGraphDisjoint'


def write_nodes(cfg, fn, param, kind):
    """CFG nodes that write/pop a property under the caller-supplied name(s)."""
    out = []
    for n in cfg.nodes:
        if n.kind != 'stmt' or n.ast is None:
            continue
        st = n.ast
        hit = False
        for x in walk_no_nested(st):
            if isinstance(x, ast.Subscript) and isinstance(x.ctx, ast.Store) and ast.unparse(x.slice) == param:
                hit = True
            if isinstance(x, ast.Call) and isinstance(x.func, ast.Attribute) and x.func.attr in ('pop', 'update', 'setdefault') \
                    and x.args and ast.unparse(x.args[0]) == param:
                hit = True
        if hit:
            out.append(n)
    return out


def run(prog, rep):
    rep.extra['explanation'] = (
        'Guard dominance of the identity-property tests over every property write (CFG of each public mutator), key-set '
        'comparison between the insertion guard and the lookup query, inventory of what the disjoint backend overrides, '
        'signature comparison of the two storage classes, allocator discipline, and the shape of the merge policy loop. '
        'Lock-step equivalence with a reference model is not decided.')
    rep.rule('R1', 'identity guards dominate property writes', floor=8)
    rep.rule('R2', 'insertion guard key is a subset of the lookup key', floor=1)
    rep.rule('R3', 'override inventory; storage and backend signature agreement with the abstract interface', floor=40)
    rep.rule('R4', 'monotone id allocators in both stores', floor=8)
    rep.rule('R5', 'merge policy loop', floor=4)

    nxpg = prog.cls(nxg.NXPG)
    mod = nxpg.module
    consts = prog.cls('fim.graph.abc_property_graph_constants:ABCPropertyGraphConstants')
    no_unset = set(prog.class_const(consts, 'NO_UNSET_PROPERTIES'))
    rep.instance('R1', f'NO_UNSET_PROPERTIES = {sorted(no_unset)}')
    for p in sorted(IDENTITY - no_unset):
        rep.violation('R1', loc(consts.module, consts.assigns['NO_UNSET_PROPERTIES']), 'ABCPropertyGraphConstants.NO_UNSET_PROPERTIES',
                      f'{p} missing', f'identity property {p} can be removed from a node through unset_node_property')

    for name, (param, kind) in MUTATORS.items():
        fn = nxpg.methods.get(name)
        if fn is None:
            raise AnalysisError(f'NetworkXPropertyGraph.{name} vanished')
        fq = f'NetworkXPropertyGraph.{name}'
        cfg = CFG(fn)
        writes = write_nodes(cfg, fn, param, kind)
        if not writes:
            raise AnalysisError(f'{fq}: no property write through {param} found')
        tests = [t for t in cfg.nodes if t.kind == 'test' and t.tag == 'if']
        if kind == 'name':
            cls_guards = [t for t in tests if ast.unparse(t.ast).replace(' ', '') in
                          (f'{param}==self.NETWORKX_LABEL', f'self.NETWORKX_LABEL=={param}')]
        else:
            cls_guards = [t for t in tests if ast.unparse(t.ast).replace(' ', '') in
                          (f'self.NETWORKX_LABELin{param}.keys()', f'self.NETWORKX_LABELin{param}')]
        for w in writes:
            rep.instance('R1', f'{fq}: {norm(w.ast, 80)} behind the Class guard')
            ok = any(cfg.edge_dominates(g, 'f', w) and any(isinstance(x, ast.Raise) for x in ast.walk(g.ast._parent)) for g in cls_guards)
            if not ok:
                rep.violation('R1', loc(mod, w.ast), fq, norm(w.ast, 100),
                              f'the property named by `{param}` is written without first rejecting the Class property: '
                              f'the class of a node/link can be changed or removed through the API')
            if name == 'unset_node_property':
                ug = [t for t in tests if ast.unparse(t.ast).replace(' ', '') in
                      (f'{param}inABCPropertyGraph.NO_UNSET_PROPERTIES', f'{param}inself.NO_UNSET_PROPERTIES')]
                rep.instance('R1', f'{fq}: {norm(w.ast, 80)} behind the NO_UNSET guard')
                if not any(cfg.edge_dominates(g, 'f', w) for g in ug):
                    rep.violation('R1', loc(mod, w.ast), fq, norm(w.ast, 100) + ' (NO_UNSET)',
                                  'identity properties (graph id, node id, class, type, name) can be unset')

    # ---- R2 ----
    an = nxpg.methods.get('add_node')
    mixin = prog.cls(nxg.MIXIN)
    fnode = mixin.methods.get('_find_node')
    lk = set()
    for c in nxg.search_calls(fnode):
        for op, f, v in nxg.parse_query(prog, c.args[1], mixin.module, mixin):
            if op == 'eq':
                lk.add(f)
    guard_fields = None
    cfg = CFG(an)
    ins = [n for n in cfg.nodes if n.kind == 'stmt' and n.ast is not None and
           any(isinstance(c, ast.Call) and call_name(c) == 'add_blank_node_to_graph' for c in walk_no_nested(n.ast))]
    if not ins:
        raise AnalysisError('add_node no longer inserts through add_blank_node_to_graph')
    guards = [t for t in cfg.nodes if t.kind == 'test' and t.tag == 'if' and any(isinstance(x, ast.Raise) for x in ast.walk(t.ast._parent))
              and cfg.edge_dominates(t, 'f', ins[0])]
    for g in guards:
        # the guard either calls node_exists(...) or tests the length of a query result
        for c in ast.walk(g.ast):
            if isinstance(c, ast.Call) and call_name(c) == 'node_exists':
                ne = nxpg.methods.get('node_exists')
                fields = set()
                for sc in nxg.search_calls(ne):
                    for op, f, v in nxg.parse_query(prog, sc.args[1], mod, nxpg):
                        if op == 'eq':
                            fields.add(f)
                guard_fields = fields
        if guard_fields is None:
            names = {x.id for x in ast.walk(g.ast) if isinstance(x, ast.Name)}
            for st in walk_no_nested(an):
                if isinstance(st, ast.Assign) and any(isinstance(t, ast.Name) and t.id in names for t in st.targets):
                    for sc in [x for x in ast.walk(st.value) if isinstance(x, ast.Call) and call_name(x) == 'search_nodes']:
                        fields = set()
                        for op, f, v in nxg.parse_query(prog, sc.args[1], mod, nxpg):
                            if op == 'eq':
                                fields.add(f)
                        guard_fields = fields
    rep.instance('R2', f'add_node guard fields {sorted(guard_fields) if guard_fields is not None else None}; _find_node key {sorted(lk)}')
    if guard_fields is None:
        rep.violation('R2', loc(mod, an), 'NetworkXPropertyGraph.add_node', 'no existence guard before the insertion',
                      'a node id that already exists in the graph can be inserted again')
    elif not guard_fields <= lk:
        rep.violation('R2', loc(mod, an), 'NetworkXPropertyGraph.add_node',
                      f'guard keyed on {sorted(guard_fields)} but nodes are addressed by {sorted(lk)}',
                      f'the existence test before insertion also requires {sorted(guard_fields - lk)} to match, while every '
                      f'lookup addresses a node by {sorted(lk)} only: the same node id can be added under another class, after '
                      f'which every lookup of it fails with "Multiple matches found"')

    # ---- R3 ----
    dj = prog.cls(DISJ)
    overrides = sorted(n for n in dj.methods if n in nxpg.all_method_names() and n != '__init__')
    rep.instance('R3', f'NetworkXPropertyGraphDisjoint overrides {overrides}')
    rep.extra['disjoint_overrides'] = overrides
    for n in overrides:
        if n not in ('merge_nodes', 'graph_exists'):
            fn = dj.methods[n]
            raises_only = all(isinstance(s, (ast.Raise, ast.Expr)) for s in fn.body)
            if raises_only:
                rep.violation('R3', loc(dj.module, fn), f'NetworkXPropertyGraphDisjoint.{n}', f'{n} overridden to raise',
                              f'the disjoint backend documents only merge_nodes as unsupported, but {n} is overridden to raise')
    s1 = nxg.storage_class(prog, nxg.SHARED_SHELL)
    s2 = nxg.storage_class(prog, nxg.DISJ_SHELL)
    pub1 = {n: f for n, f in s1.methods.items() if not n.startswith('_')}
    pub2 = {n: f for n, f in s2.methods.items() if not n.startswith('_')}
    for n in sorted(set(pub1) | set(pub2)):
        rep.instance('R3', f'storage method {n}: shared={n in pub1} disjoint={n in pub2}')
        if n not in pub1 or n not in pub2:
            rep.violation('R3', loc((s1 if n in pub1 else s2).module, (pub1.get(n) or pub2.get(n))), f'storage.{n}',
                          f'{n} defined by one storage class only',
                          'the graph classes call the same storage interface on both stores; a missing method is an AttributeError on one backend')
            continue
        p1, p2 = func_params(pub1[n]), func_params(pub2[n])
        if p1 != p2:
            rep.violation('R3', loc(s2.module, pub2[n]), f'storage.{n}', f'signatures differ: {p1} vs {p2}',
                          'a call valid on one store is a TypeError on the other')
    # every implementation accepts the calls the abstract interface documents (same parameter names, nothing extra required)
    abc = prog.cls('fim.graph.abc_property_graph:ABCPropertyGraph')

    def sig(fn):
        a = fn.args
        pos = [x.arg for x in a.posonlyargs + a.args if x.arg != 'self']
        kw = [x.arg for x in a.kwonlyargs]
        nd = len(a.defaults)
        posreq = pos[:len(pos) - nd] if nd else pos
        kwreq = [x.arg for x, d in zip(a.kwonlyargs, a.kw_defaults) if d is None]
        return pos, kw, set(posreq) | set(kwreq)
    for impl in (nxpg, prog.cls('fim.graph.neo4j_property_graph:Neo4jPropertyGraph')):
        for name, fn in abc.methods.items():
            if name == '__init__' or not any(ast.unparse(d) == 'abstractmethod' for d in fn.decorator_list):
                continue
            _, ifn = impl.find_method(name)
            rep.instance('R3', f'{impl.name}.{name} vs abstract signature')
            if ifn is None or ifn is fn:
                rep.violation('R3', loc(impl.module, impl.node), f'{impl.name}.{name}', f'{name} not implemented',
                              f'{impl.name} does not implement the abstract operation {name}')
                continue
            ap, ak, ar = sig(fn)
            ip, ik, ir = sig(ifn)
            if set(ap + ak) != set(ip + ik) or not ir <= set(ap + ak) or (ak and not set(ak) <= set(ik + ip)):
                rep.violation('R3', loc(impl.module, ifn), f'{impl.name}.{name}', f'signature {ip} * {ik} vs abstract {ap} * {ak}',
                              f'a call written against the documented interface ({ap}, keyword-only {ak}) is a TypeError on {impl.name}')
    # the shells forward through __getattr__
    for spec in (nxg.SHARED_SHELL, nxg.DISJ_SHELL):
        sh = prog.cls(spec)
        ga = sh.methods.get('__getattr__')
        rep.instance('R3', f'{sh.name}.__getattr__ forwards to storage_instance')
        if ga is None or 'getattr(self.storage_instance, name)' not in ast.unparse(ga):
            rep.violation('R3', loc(sh.module, sh.node), f'{sh.name}.__getattr__', 'forwarding', 'the storage shell no longer forwards to the singleton')

    # ---- R4 ----
    nxg.check_allocators(prog, rep, 'R4')

    # ---- R5 ----
    mn = nxpg.methods.get('merge_nodes')
    if mn is None:
        raise AnalysisError('merge_nodes vanished')
    fq = 'NetworkXPropertyGraph.merge_nodes'
    # locals holding the saved properties
    saved = {}
    for n in walk_no_nested(mn):
        if isinstance(n, ast.Assign) and isinstance(n.targets[0], ast.Name) and isinstance(n.value, ast.Call) and \
                call_name(n.value) == 'copy' and '.nodes[' in ast.unparse(n.value):
            side = 'other' if 'other' in ast.unparse(n.value) else 'self'
            saved[n.targets[0].id] = side
    selfp = [k for k, v in saved.items() if v == 'self']
    otherp = [k for k, v in saved.items() if v == 'other']
    if len(selfp) != 1 or len(otherp) != 1:
        raise AnalysisError(f'{fq}: saved property copies not recognised: {saved}')
    sp, op_ = selfp[0], otherp[0]
    loops = [n for n in walk_no_nested(mn) if isinstance(n, ast.For) and isinstance(n.iter, ast.Call) and call_name(n.iter) == 'items']
    rep.instance('R5', f'{fq}: policy loop over {norm(loops[0].iter) if loops else "?"}')
    if not loops or ast.unparse(loops[0].iter.func.value) != sp:
        rep.violation('R5', loc(mod, loops[0] if loops else mn), fq, f'policy loop ranges over {norm(loops[0].iter) if loops else "nothing"}',
                      f'the per-property policy must be applied to the properties of the caller\'s node ({sp}); ranging over '
                      f'the other node\'s properties drops the caller-only properties and fails on other-only ones')
    if loops:
        kvar = loops[0].target.elts[0].id
        pol = {}
        for n in ast.walk(loops[0]):
            if isinstance(n, ast.IfExp):
                t = ast.unparse(n.test)
                for kw in ('discard', 'overwrite', 'combine'):
                    if f"== '{kw}'" in t or f'== "{kw}"' in t:
                        pol[kw] = ast.unparse(n.body)
        rep.instance('R5', f'{fq}: policy {pol}')
        want = {'discard': f'{sp}[{kvar}]', 'overwrite': f'{op_}[{kvar}]', 'combine': f'[{sp}[{kvar}], {op_}[{kvar}]]'}
        for kw, w in want.items():
            if pol.get(kw) != w:
                rep.violation('R5', loc(mod, loops[0]), fq, f"policy '{kw}' yields {pol.get(kw)}",
                              f"'{kw}' must yield {w}")
        els = [n for n in ast.walk(loops[0]) if isinstance(n, ast.If) and n.orelse]
        keep = any(ast.unparse(s) == f'new_props[{kvar}] = {sp}[{kvar}]' for n in els for s in n.orelse)
        rep.instance('R5', f'{fq}: unmentioned properties keep the caller\'s value: {keep}')
        if not keep:
            rep.violation('R5', loc(mod, loops[0]), fq, 'unmentioned properties', 'properties not mentioned in merge_properties must keep the caller\'s value')
    cn = [n for n in walk_no_nested(mn) if isinstance(n, ast.Call) and call_name(n) == 'contracted_nodes']
    rep.instance('R5', f'{fq}: {norm(cn[0], 110) if cn else "?"}')
    if not cn or [ast.unparse(a) for a in cn[0].args[1:3]] != ['real_node', 'real_other_node'] or \
            not any(k.arg == 'copy' and isinstance(k.value, ast.Constant) and k.value.value is False for k in cn[0].keywords):
        rep.violation('R5', loc(mod, mn), fq, 'contraction', 'the other node must be contracted into the caller\'s node in place (keeping the edges of both)')
    default = [n for n in walk_no_nested(mn) if isinstance(n, ast.If) and ast.unparse(n.test) == 'merge_properties is None']
    if not default or ast.unparse(default[0].body[0]) != f'new_props = {sp}':
        rep.violation('R5', loc(mod, mn), fq, 'default policy', 'without a policy the caller\'s properties are kept')


NX = 'fim/graph/networkx_property_graph.py'
MUTANTS = [
    {'name': 'class-guard-dropped-in-update-node-properties', 'file': NX, 'rule': 'R1',
     'find': '        if self.NETWORKX_LABEL in props.keys():\n            raise PropertyGraphQueryException(graph_id=self.graph_id, node_id=node_id,\n                                              msg=f"Changing {self.NETWORKX_LABEL} property is not permitted")\n        # gives pointer directly into properties of a node in a graph',
     'replace': '        # gives pointer directly into properties of a node in a graph'},
    {'name': 'no-unset-guard-after-pop', 'file': NX, 'rule': 'R1',
     'find': '        if prop_name in ABCPropertyGraph.NO_UNSET_PROPERTIES:\n            raise PropertyGraphQueryException(graph_id=self.graph_id, node_id=node_id,\n                                              msg=f"Unsetting property {prop_name} is not allowed)")\n',
     'replace': ''},
    {'name': 'name-removed-from-no-unset', 'file': 'fim/graph/abc_property_graph_constants.py', 'rule': 'R1',
     'find': 'NO_UNSET_PROPERTIES = [GRAPH_ID, NODE_ID, PROP_TYPE, PROP_CLASS, PROP_NAME]', 'replace': 'NO_UNSET_PROPERTIES = [GRAPH_ID, NODE_ID, PROP_TYPE, PROP_CLASS]'},
    {'name': 'add-node-guard-keyed-on-class', 'file': NX, 'rule': 'R2',
     'find': "                                                   {'eq': [ABCPropertyGraph.NODE_ID, node_id]}\n                                               ]}))\n        if len(existing_nodes) > 0:",
     'replace': "                                                   {'eq': [ABCPropertyGraph.NODE_ID, node_id]},\n                                                   {'eq': [ABCPropertyGraph.PROP_CLASS, label]}\n                                               ]}))\n        if len(existing_nodes) > 0:"},
    {'name': 'storage-signature-drift', 'file': 'fim/graph/networkx_property_graph_disjoint.py', 'rule': 'R3',
     'find': '        def del_graph(self, graph_id: str) -> None:', 'replace': '        def del_graph(self, graph_id: str, force: bool) -> None:'},
    {'name': 'backend-parameter-renamed', 'file': NX, 'rule': 'R3',
     'find': '    def unset_link_property(self, *, node_a: str, node_b: str, kind: str, prop_name: str) -> None:', 'replace': '    def unset_link_property(self, *, node_a: str, node_b: str, rel: str, prop_name: str) -> None:\n        kind = rel'},
    {'name': 'overwrite-keeps-own', 'file': NX, 'rule': 'R5',
     'find': "other_props[k] if merge_properties[k] == 'overwrite' else", 'replace': "node_props[k] if merge_properties[k] == 'overwrite' else"},
]
TWINS = [
    {'name': 'guard-with-mirrored-equality', 'file': NX, 'count': 5,
     'find': 'if prop_name == self.NETWORKX_LABEL:', 'replace': 'if self.NETWORKX_LABEL == prop_name:'},
]
